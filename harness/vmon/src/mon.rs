//! S3 — RecordingInspector with online monitors: hook grammar (C29), depth pairing (C07),
//! checkpoint-revert and static-frame snapshots (C06B, C10), memory isolation (C11B), gas-meter
//! bounds (C13B), self-destruct ground truth (C30), step counting (C25).
use crate::fw::hex;
use revm::interpreter::{
    CallInputs, CallOutcome, CallValue, CreateInputs, CreateOutcome, EOFCreateInputs, InstructionResult, Interpreter,
    InterpreterAction,
};
use revm::primitives::{Address, Log, B256, U256};
use revm::{Database, EvmContext, Inspector, JournaledState};
use std::collections::BTreeMap;

#[derive(Clone, Debug, PartialEq, Eq)]
pub struct AcctProj {
    pub balance: U256,
    pub nonce: u64,
    pub code_hash: B256,
    pub touched: bool,
    pub created: bool,
    pub selfdestructed: bool,
    pub cold: bool,
    /// slot -> (present value, is_cold)
    pub slots: BTreeMap<U256, (U256, bool)>,
}

/// π(JournaledState): everything the property calls observable
#[derive(Clone, Debug, PartialEq, Eq)]
pub struct Proj {
    pub accounts: BTreeMap<Address, AcctProj>,
    pub transient: BTreeMap<(Address, U256), U256>,
    pub logs: Vec<Log>,
    pub depth: usize,
}

pub fn project(js: &JournaledState) -> Proj {
    let mut accounts = BTreeMap::new();
    for (a, acc) in js.state.iter() {
        accounts.insert(
            *a,
            AcctProj {
                balance: acc.info.balance,
                nonce: acc.info.nonce,
                code_hash: acc.info.code_hash,
                touched: acc.is_touched(),
                created: acc.is_created(),
                selfdestructed: acc.is_selfdestructed(),
                cold: acc.status.contains(revm::primitives::AccountStatus::Cold),
                slots: acc.storage.iter().map(|(k, s)| (*k, (s.present_value, s.is_cold))).collect(),
            },
        );
    }
    Proj {
        accounts,
        transient: js.transient_storage.iter().filter(|(_, v)| !v.is_zero()).map(|(k, v)| (*k, *v)).collect(),
        logs: js.logs.clone(),
        depth: js.depth,
    }
}

/// Compare the projection after a revert with the one at the checkpoint.
/// `ignore_warmth_of`: addresses whose warm/cold status may legitimately differ (warmed by the
/// caller's instruction before the checkpoint); `nonce_bumped`: creator whose nonce stays bumped.
/// Returns (kind, detail) of the first difference.
pub fn diff_after_revert(before: &Proj, after: &Proj, ignore_warmth_of: &[Address], nonce_bumped: Option<Address>, compare_warmth: bool, ripemd_touch_exception: bool, compare_touched: bool) -> Option<(String, String)> {
    if before.depth != after.depth {
        return Some(("depth".into(), format!("depth {} -> {}", before.depth, after.depth)));
    }
    if before.logs != after.logs {
        return Some(("logs".into(), format!("logs {} -> {}", before.logs.len(), after.logs.len())));
    }
    if before.transient != after.transient {
        return Some(("transient-storage".into(), format!("transient {:?} -> {:?}", before.transient, after.transient)));
    }
    for (a, x) in after.accounts.iter() {
        match before.accounts.get(a) {
            None => {
                // loaded since the checkpoint: must read as cold and unchanged
                let warm_ok = !compare_warmth || x.cold || ignore_warmth_of.contains(a);
                let ripemd = ripemd_touch_exception && *a == Address::with_last_byte(3);
                if (compare_touched && x.touched && !ripemd) || x.created || x.selfdestructed || !warm_ok {
                    return Some(("loaded-account-not-pristine".into(), format!("{} loaded inside the reverted frame is touched={} created={} destroyed={} cold={}", hex(a.as_slice()), x.touched, x.created, x.selfdestructed, x.cold)));
                }
                if compare_warmth {
                    for (k, (_, cold)) in x.slots.iter() {
                        if !*cold {
                            return Some(("slot-stays-warm".into(), format!("{} slot {} loaded inside the reverted frame stays warm", hex(a.as_slice()), k)));
                        }
                    }
                }
            }
            Some(b) => {
                if b.balance != x.balance {
                    return Some(("balance".into(), format!("{} balance {} -> {}", hex(a.as_slice()), b.balance, x.balance)));
                }
                let nonce_ok = b.nonce == x.nonce || (nonce_bumped == Some(*a) && x.nonce == b.nonce.wrapping_add(1));
                if !nonce_ok {
                    return Some(("nonce".into(), format!("{} nonce {} -> {}", hex(a.as_slice()), b.nonce, x.nonce)));
                }
                if b.code_hash != x.code_hash {
                    return Some(("code".into(), format!("{} code hash changed", hex(a.as_slice()))));
                }
                let ripemd = ripemd_touch_exception && *a == Address::with_last_byte(3);
                // a creator whose nonce stays bumped also stays touched (the bump is the caller's effect)
                let touch_ok = !compare_touched || b.touched == x.touched || ripemd || (nonce_bumped == Some(*a) && x.touched);
                if !touch_ok {
                    return Some(("touched-flag".into(), format!("{} touched {} -> {}", hex(a.as_slice()), b.touched, x.touched)));
                }
                if b.created != x.created {
                    return Some(("created-flag".into(), format!("{} created {} -> {}", hex(a.as_slice()), b.created, x.created)));
                }
                if b.selfdestructed != x.selfdestructed {
                    return Some(("destroyed-flag".into(), format!("{} selfdestructed {} -> {}", hex(a.as_slice()), b.selfdestructed, x.selfdestructed)));
                }
                if compare_warmth && b.cold != x.cold && !ignore_warmth_of.contains(a) {
                    return Some(("account-warmth".into(), format!("{} cold {} -> {}", hex(a.as_slice()), b.cold, x.cold)));
                }
                for (k, (v, cold)) in x.slots.iter() {
                    match b.slots.get(k) {
                        Some((bv, bcold)) => {
                            if bv != v {
                                return Some(("storage".into(), format!("{} slot {} {} -> {}", hex(a.as_slice()), k, bv, v)));
                            }
                            if compare_warmth && bcold != cold {
                                return Some(("slot-warmth".into(), format!("{} slot {} cold {} -> {}", hex(a.as_slice()), k, bcold, cold)));
                            }
                        }
                        None => {
                            if compare_warmth && !*cold {
                                return Some(("slot-stays-warm".into(), format!("{} slot {} first loaded inside the reverted frame stays warm", hex(a.as_slice()), k)));
                            }
                        }
                    }
                }
                for k in b.slots.keys() {
                    if !x.slots.contains_key(k) {
                        return Some(("slot-vanished".into(), format!("{} slot {} vanished", hex(a.as_slice()), k)));
                    }
                }
            }
        }
    }
    for a in before.accounts.keys() {
        if !after.accounts.contains_key(a) {
            return Some(("account-vanished".into(), format!("{} vanished from the journaled state", hex(a.as_slice()))));
        }
    }
    None
}

#[derive(Clone, Debug, PartialEq)]
enum Kind {
    Call(CallInputs),
    Create(CreateInputs),
    EofCreate(EOFCreateInputs),
}

struct Open {
    kind: Kind,
    depth: u64,
    snap: Option<Proj>,
    /// static snapshot taken here (outermost static call)
    static_root: bool,
    got_interp: bool,
    /// address a create frame is about to create (warmed on the caller's side)
    created_addr: Option<Address>,
}

#[derive(Default, Clone)]
struct FrameState {
    in_step: bool,
    first_step_seen: bool,
    mem_len: usize,
    last_remaining: u64,
    gas_limit: u64,
    /// Some(parent memory copy, return window, is_call) while a child is running
    pending_child: Option<(Vec<u8>, std::ops::Range<usize>, bool)>,
    child_returned_gas_bound: Option<u64>,
    is_static: bool,
}

#[derive(Clone, Debug)]
pub struct MonViolation {
    pub prop: &'static str,
    pub sig: String,
    pub what: String,
}

#[derive(Clone, Debug, PartialEq)]
pub struct SdRecord {
    pub contract: Address,
    pub target: Address,
    pub value: U256,
}

/// ether removed from circulation by a completed SELFDESTRUCT naming itself (ground truth for C08);
/// `open_len` = nesting level at which it happened, so that a later frame revert discards it
#[derive(Clone, Debug)]
pub struct Burn {
    pub open_len: usize,
    pub amount: U256,
}

pub struct Mon {
    pub cfg: MonCfg,
    /// every address a nested frame of the current transaction called, created or named as a
    /// self-destruct beneficiary (ground truth for "could the program move ether to X?")
    pub frame_targets: std::collections::BTreeSet<Address>,
    pub violations: Vec<MonViolation>,
    open: Vec<Open>,
    frames: Vec<FrameState>,
    // event counters (C29 evidence)
    pub n_step: u64,
    pub n_step_end: u64,
    pub n_call: u64,
    pub n_call_end: u64,
    pub n_create: u64,
    pub n_create_end: u64,
    pub n_eofcreate: u64,
    pub n_eofcreate_end: u64,
    pub n_log: u64,
    pub n_selfdestruct: u64,
    pub max_depth: u64,
    pub counters: BTreeMap<String, u64>,
    // per-step scratch
    step_opcode: u8,
    step_logs_len: usize,
    step_log_events: u32,
    logs_awaiting_notification: i64,
    step_sd_expected: Option<SdRecord>,
    step_sd_self_cancun_noop: bool,
    step_sd_events: Vec<SdRecord>,
    sd_pending: Option<(SdRecord, bool)>,
    sd_last_result: Option<InstructionResult>,
    step_static_writer: Option<&'static str>,
    pub sd_completed: Vec<SdRecord>,
    pub sd_notified: Vec<SdRecord>,
    pub burns: Vec<Burn>,
    pub opcodes_seen: [u64; 256],
    pub steps_total: u64,
    is_cancun: bool,
}

#[derive(Clone, Debug, Default)]
pub struct MonCfg {
    /// take projections at call/create boundaries (C06B, C10) — costs a clone of the journaled state
    pub snapshots: bool,
    /// short-circuit the n-th call/create with an inspector-provided outcome (C29 second variant)
    pub short_circuit_every: Option<u64>,
    pub is_cancun: bool,
    pub is_spurious: bool,
}

impl Mon {
    pub fn new(cfg: MonCfg) -> Self {
        let is_cancun = cfg.is_cancun;
        Mon {
            cfg,
            frame_targets: Default::default(),
            violations: vec![],
            open: vec![],
            frames: vec![],
            n_step: 0,
            n_step_end: 0,
            n_call: 0,
            n_call_end: 0,
            n_create: 0,
            n_create_end: 0,
            n_eofcreate: 0,
            n_eofcreate_end: 0,
            n_log: 0,
            n_selfdestruct: 0,
            max_depth: 0,
            counters: BTreeMap::new(),
            step_opcode: 0,
            step_logs_len: 0,
            step_log_events: 0,
            logs_awaiting_notification: 0,
            step_sd_expected: None,
            step_sd_self_cancun_noop: false,
            step_sd_events: vec![],
            sd_pending: None,
            sd_last_result: None,
            step_static_writer: None,
            sd_completed: vec![],
            sd_notified: vec![],
            burns: vec![],
            opcodes_seen: [0; 256],
            steps_total: 0,
            is_cancun,
        }
    }
    /// ground truth from hook H1: `dispatched` instructions really ran during this transaction
    pub fn check_step_ground_truth(&mut self, dispatched: u64, steps_before: u64, step_ends_before: u64) {
        let s = self.n_step - steps_before;
        let e = self.n_step_end - step_ends_before;
        self.counters.entry("instructions_dispatched(H1 counter)".into()).and_modify(|c| *c += dispatched).or_insert(dispatched);
        if s != dispatched {
            let kind = if s < dispatched { "instructions-without-step-notification" } else { "more-step-notifications-than-instructions" };
            self.v("C29", format!("C29/{kind}"), format!("{dispatched} instructions were dispatched, {s} step and {e} step_end notifications delivered"));
        } else if e != dispatched {
            self.v("C29", "C29/step-end-count-differs-from-instructions", format!("{dispatched} instructions were dispatched, {e} step_end notifications delivered"));
        }
    }
    pub fn v(&mut self, prop: &'static str, sig: impl Into<String>, what: impl Into<String>) {
        if self.violations.len() < 40 {
            self.violations.push(MonViolation { prop, sig: sig.into(), what: what.into() });
        }
    }
    fn bump(&mut self, k: &str) {
        *self.counters.entry(k.to_string()).or_insert(0) += 1;
    }

    /// call at the start of every transaction
    pub fn begin_tx(&mut self) {
        if !self.open.is_empty() || !self.frames.is_empty() {
            self.v("C29", "C29/left-open-from-previous-tx", format!("{} notifications still open when the next transaction starts", self.open.len()));
        }
        self.open.clear();
        self.frames.clear();
        self.logs_awaiting_notification = 0;
        self.sd_pending = None;
        self.sd_last_result = None;
        self.burns.clear();
        self.sd_completed.clear();
        self.sd_notified.clear();
        self.frame_targets.clear();
    }
    /// call after every transaction; `errored` = transact returned Err (frames may legitimately be
    /// left open by an aborted execution)
    pub fn end_tx(&mut self, errored: bool) {
        if !errored {
            self.check_logs_notified();
            if !self.open.is_empty() {
                let kinds: Vec<&str> = self.open.iter().map(|o| match o.kind { Kind::Call(_) => "call", Kind::Create(_) => "create", Kind::EofCreate(_) => "eofcreate" }).collect();
                self.v("C29", "C29/unclosed-at-end-of-tx", format!("open notifications at end of transaction: {:?}", kinds));
            }
            if self.frames.iter().any(|f| f.in_step) {
                self.v("C29", "C29/step-without-step-end-at-end-of-tx", "a step was never closed by step_end");
            }
        }
        self.open.clear();
        self.frames.clear();
    }

    fn check_sd_notified(&mut self) {
        if let Some((exp, self_noop)) = self.sd_pending.take() {
            let cls = if self_noop { "cancun+not-created+beneficiary==self" } else { "other" };
            self.v("C30", format!("C30/missing-notification/{cls}"), format!("SELFDESTRUCT of {} to {} completed without a notification", hex(exp.contract.as_slice()), hex(exp.target.as_slice())));
        }
    }

    fn check_logs_notified(&mut self) {
        self.check_sd_notified();
        if self.logs_awaiting_notification != 0 {
            let n = self.logs_awaiting_notification;
            self.logs_awaiting_notification = 0;
            self.v("C29", "C29/log-not-notified", format!("{n} appended log(s) were not reported to the inspector before the next event"));
        }
    }

    fn on_open<DB: Database>(&mut self, ctx: &mut EvmContext<DB>, kind: Kind) {
        self.check_logs_notified();
        let depth = ctx.journaled_state.depth();
        self.max_depth = self.max_depth.max(depth);
        // C10 propagation: child of a static frame must be static
        let parent_static = self.frames.last().map(|f| f.is_static).unwrap_or(false);
        let mut static_root = false;
        if let Kind::Call(ci) = &kind {
            if parent_static && !ci.is_static {
                self.v("C10", "C10/static-not-propagated", format!("call {:?} from a static frame has is_static=false", ci.scheme));
            }
            if ci.is_static && !parent_static {
                static_root = true;
            }
        }
        let snap = if self.cfg.snapshots { Some(project(&ctx.journaled_state)) } else { None };
        if !self.open.is_empty() {
            if let Kind::Call(c) = &kind {
                self.frame_targets.insert(c.target_address);
                self.frame_targets.insert(c.bytecode_address);
            }
        }
        let created_addr = match &kind {
            Kind::Call(_) => None,
            Kind::Create(c) => {
                let nonce = ctx.journaled_state.state.get(&c.caller).map(|a| a.info.nonce).unwrap_or(0);
                Some(c.created_address(nonce))
            }
            Kind::EofCreate(c) => c.kind.created_address().copied(),
        };
        if let Some(a) = created_addr {
            self.frame_targets.insert(a);
        }
        self.open.push(Open { kind, depth, snap, static_root, got_interp: false, created_addr });
    }

    fn on_close<DB: Database>(&mut self, ctx: &mut EvmContext<DB>, kind: Kind, ok: bool, result: InstructionResult) {
        self.check_logs_notified();
        self.sd_last_result = None;
        let Some(top) = self.open.pop() else {
            self.v("C29", "C29/end-without-open", format!("{} end notification with nothing open", kind_name(&kind)));
            return;
        };
        if kind_name(&top.kind) != kind_name(&kind) {
            self.v("C29", format!("C29/end-kind-mismatch/{}-closed-by-{}", kind_name(&top.kind), kind_name(&kind)), "end notification of a different kind than the innermost open one");
        } else if top.kind != kind {
            self.v("C29", format!("C29/end-inputs-mismatch/{}", kind_name(&kind)), "end notification carries different inputs than the opening one");
        }
        // C07: depth pairing
        let depth_now = ctx.journaled_state.depth();
        let cls = result_class(result);
        self.bump(&format!("frame_end/{}/{}", kind_name(&kind), cls));
        if depth_now != top.depth {
            self.v("C07", format!("C07/depth-leak/{}/{:?}", kind_name(&kind), result), format!("{} started at depth {} ended at depth {} (result {:?})", kind_name(&kind), top.depth, depth_now, result));
        }
        if top.got_interp {
            self.frames.pop();
        }
        {
            let l = self.open.len();
            if !ok {
                self.burns.retain(|b| b.open_len <= l);
            } else {
                // a committed frame hands its effects to its parent
                for b in self.burns.iter_mut() {
                    if b.open_len > l {
                        b.open_len = l;
                    }
                }
            }
        }
        // the parent's gas may now grow by at most what was forwarded
        let fwd = match &kind {
            Kind::Call(c) => c.gas_limit,
            Kind::Create(c) => c.gas_limit,
            Kind::EofCreate(c) => c.gas_limit,
        };
        if let Some(p) = self.frames.last_mut() {
            p.child_returned_gas_bound = Some(fwd);
        }
        if let Some(before) = &top.snap {
            let after = project(&ctx.journaled_state);
            // C10: end of outermost static call: world state equal apart from warmth
            if top.static_root {
                self.bump("static_root_calls_checked");
                if let Some((k, d)) = diff_after_revert(before, &after, &[], None, false, self.cfg.is_spurious, false) {
                    self.v("C10", format!("C10/state-changed-by-static-call/{k}"), d);
                }
            }
            // C06B: a frame that did not succeed restores the state at its start
            if !ok {
                self.bump(&format!("reverted_frames_checked/{}", kind_name(&kind)));
                let (ignore, bumped): (Vec<Address>, Option<Address>) = match &kind {
                    Kind::Call(c) => (vec![c.bytecode_address, c.target_address], None),
                    Kind::Create(c) => (vec![], Some(c.caller)),
                    Kind::EofCreate(c) => (vec![], Some(c.caller)),
                };
                // the created address (and a 7702 delegation target) are warmed by the caller side;
                // they are not in `before`, so "loaded since" handles them: allow warm for any address
                // that the frame-opening code loads before its checkpoint
                let mut ignore = ignore;
                // EIP-2929 / EIP-7620: the address being created joins accessed_addresses on the
                // caller's side and stays there when the creation fails
                if let Some(a) = top.created_addr {
                    ignore.push(a);
                }
                // transaction-level pre-warmed addresses (precompiles, coinbase, ...) never read as cold
                ignore.extend(ctx.journaled_state.warm_preloaded_addresses.iter().copied());
                for (a, x) in after.accounts.iter() {
                    if !before.accounts.contains_key(a) && !x.cold && !x.touched && !x.created {
                        // candidates: created address / delegation target (loaded before the checkpoint)
                        if matches!(kind, Kind::Create(_) | Kind::EofCreate(_)) || is_delegation_target(&after, &ignore, a, ctx) {
                            ignore.push(*a);
                        }
                    }
                }
                // a nonce-overflow / early-rejected create does not bump the nonce: accept both
                if let Some((k, d)) = diff_after_revert(before, &after, &ignore, bumped, true, self.cfg.is_spurious, true) {
                    self.v("C06", format!("C06/frame-revert/{}/{}/{cls}", kind_name(&kind), k), format!("{} ended {:?}: {}", kind_name(&kind), result, d));
                }
            }
        }
    }
}

fn is_delegation_target<DB: Database>(_after: &Proj, ignore: &[Address], a: &Address, ctx: &mut EvmContext<DB>) -> bool {
    // `a` is the EIP-7702 delegation target of one of the ignored (callee) addresses
    for i in ignore {
        if let Some(acc) = ctx.journaled_state.state.get(i) {
            if let Some(revm::primitives::Bytecode::Eip7702(c)) = &acc.info.code {
                if c.address() == *a {
                    return true;
                }
            }
        }
    }
    false
}

fn kind_name(k: &Kind) -> &'static str {
    match k {
        Kind::Call(_) => "call",
        Kind::Create(_) => "create",
        Kind::EofCreate(_) => "eofcreate",
    }
}

pub fn result_class(r: InstructionResult) -> &'static str {
    if r.is_ok() {
        "ok"
    } else if r == InstructionResult::Revert {
        "revert"
    } else {
        // (revm's is_revert() also covers CallTooDeep, OutOfFunds, ...: classify those by name)
        match r {
            InstructionResult::CallTooDeep => "too-deep",
            InstructionResult::OutOfFunds => "out-of-funds",
            InstructionResult::OverflowPayment => "overflow-payment",
            InstructionResult::PrecompileOOG => "precompile-oog",
            InstructionResult::PrecompileError => "precompile-error",
            InstructionResult::CreateCollision => "collision",
            InstructionResult::OutOfGas | InstructionResult::MemoryOOG | InstructionResult::MemoryLimitOOG | InstructionResult::InvalidOperandOOG => "oog",
            InstructionResult::StateChangeDuringStaticCall | InstructionResult::CallNotAllowedInsideStatic => "static-violation",
            InstructionResult::CreateInitCodeStartingEF00 => "init-ef00",
            InstructionResult::InvalidEOFInitCode => "invalid-eof-init",
            InstructionResult::InvalidExtDelegateCallTarget => "ext-delegate-target",
            _ => "halt",
        }
    }
}

fn writer_opcode(op: u8, is_eof: bool) -> Option<&'static str> {
    match op {
        0x55 => Some("SSTORE"),
        0x5d => Some("TSTORE"),
        0xa0..=0xa4 => Some("LOG"),
        0xf0 if !is_eof => Some("CREATE"),
        0xf5 if !is_eof => Some("CREATE2"),
        0xff if !is_eof => Some("SELFDESTRUCT"),
        0xec if is_eof => Some("EOFCREATE"),
        _ => None,
    }
}

impl<DB: Database> Inspector<DB> for Mon {
    fn initialize_interp(&mut self, interp: &mut Interpreter, _ctx: &mut EvmContext<DB>) {
        if let Some(o) = self.open.last_mut() {
            if o.got_interp {
                self.v("C29", "C29/initialize-interp-twice", "initialize_interp called twice for one frame");
            }
            if let Some(o) = self.open.last_mut() {
                o.got_interp = true;
            }
        }
        self.frames.push(FrameState { gas_limit: interp.gas.limit(), last_remaining: interp.gas.remaining(), is_static: interp.is_static, ..Default::default() });
    }

    fn step(&mut self, interp: &mut Interpreter, ctx: &mut EvmContext<DB>) {
        self.n_step += 1;
        self.check_logs_notified();
        self.sd_last_result = None;
        self.steps_total += 1;
        let op = interp.current_opcode();
        self.opcodes_seen[op as usize] += 1;
        self.step_opcode = op;
        self.step_logs_len = ctx.journaled_state.logs.len();
        self.step_log_events = 0;
        self.step_sd_events.clear();
        self.step_sd_expected = None;
        self.step_sd_self_cancun_noop = false;
        self.step_static_writer = None;
        let mem_len = interp.shared_memory.len();
        let remaining = interp.gas.remaining();
        let limit = interp.gas.limit();
        let is_static = interp.is_static;
        let ret_data = interp.return_data_buffer.clone();
        let cur_mem: Option<Vec<u8>> = if self.frames.last().map(|f| f.pending_child.is_some()).unwrap_or(false) { Some(interp.shared_memory.context_memory().to_vec()) } else { None };
        let mut viol: Vec<(&'static str, String, String)> = vec![];
        if let Some(f) = self.frames.last_mut() {
            if f.in_step {
                viol.push(("C29", "C29/step-without-step-end".into(), "two step notifications without a step_end between them".into()));
            }
            f.in_step = true;
            // C11B
            if !f.first_step_seen {
                f.first_step_seen = true;
                if mem_len != 0 {
                    viol.push(("C11", "C11/frame-starts-with-nonempty-memory".into(), format!("first step of a frame sees memory length {mem_len}")));
                }
            } else if mem_len < f.mem_len {
                viol.push(("C11", "C11/memory-shrank".into(), format!("memory length {} -> {}", f.mem_len, mem_len)));
            }
            if mem_len % 32 != 0 {
                viol.push(("C11", "C11/memory-not-word-aligned".into(), format!("memory length {mem_len}")));
            }
            f.mem_len = mem_len;
            if let Some((parent_mem, window, is_call)) = f.pending_child.take() {
                let cur = cur_mem.unwrap();
                if cur.len() != parent_mem.len() {
                    viol.push(("C11", "C11/parent-size-changed-by-child".into(), format!("parent memory size {} -> {} across a child frame", parent_mem.len(), cur.len())));
                } else {
                    let (ws, we) = if is_call { (window.start, window.start + (window.end - window.start).min(ret_data.len())) } else { (0, 0) };
                    for i in 0..cur.len() {
                        let inside = i >= ws && i < we;
                        if !inside && cur[i] != parent_mem[i] {
                            viol.push(("C11", "C11/parent-memory-changed-outside-window".into(), format!("byte {i} changed {:#04x} -> {:#04x}; return window {}..{}", parent_mem[i], cur[i], ws, we)));
                            break;
                        }
                        if inside && cur[i] != ret_data[i - ws] {
                            viol.push(("C11", "C11/return-window-wrong".into(), format!("byte {i} inside the return window is {:#04x}, return data has {:#04x}", cur[i], ret_data[i - ws])));
                            break;
                        }
                    }
                }
            }
            // C13B
            if remaining > limit {
                viol.push(("C13", "C13/online/remaining-exceeds-limit".into(), format!("remaining {remaining} > limit {limit}")));
            }
            if remaining > f.last_remaining {
                let inc = remaining - f.last_remaining;
                match f.child_returned_gas_bound {
                    Some(b) if inc <= b => {}
                    Some(b) => viol.push(("C13", "C13/online/gas-returned-exceeds-forwarded".into(), format!("remaining grew by {inc} after a child that was given {b}"))),
                    None => viol.push(("C13", "C13/online/remaining-increased".into(), format!("remaining grew {} -> {} without a child return", f.last_remaining, remaining))),
                }
            }
            f.child_returned_gas_bound = None;
            f.last_remaining = remaining;
            f.is_static = is_static;
        } else {
            viol.push(("C29", "C29/step-outside-any-frame".into(), "step notification without an initialised frame".into()));
        }
        for (p, s, w) in viol {
            self.v(p, s, w);
        }
        // C10: writer attempted inside a static frame
        if is_static {
            let mut w = writer_opcode(op, interp.is_eof);
            if w.is_none() {
                // CALL (0xf1) / EXTCALL (0xf8) with non-zero value: value is third from the top
                let st = interp.stack.data();
                if op == 0xf1 && !interp.is_eof && st.len() >= 3 && !st[st.len() - 3].is_zero() {
                    w = Some("CALL-with-value");
                }
                if op == 0xf8 && interp.is_eof && st.len() >= 4 && !st[st.len() - 4].is_zero() {
                    w = Some("EXTCALL-with-value");
                }
            }
            self.step_static_writer = w;
        }
        // C30 ground truth
        if op == 0xff && !interp.is_eof {
            let st = interp.stack.data();
            if let Some(top) = st.last() {
                let contract = interp.contract.target_address;
                let target = Address::from_word(B256::from(*top));
                let acc = ctx.journaled_state.state.get(&contract);
                let balance = acc.map(|a| a.info.balance).unwrap_or_default();
                let created = acc.map(|a| a.is_created()).unwrap_or(false);
                self.step_sd_self_cancun_noop = self.is_cancun && !created && target == contract;
                self.step_sd_expected = Some(SdRecord { contract, target, value: balance });
            }
        }
    }

    fn step_end(&mut self, interp: &mut Interpreter, ctx: &mut EvmContext<DB>) {
        self.n_step_end += 1;
        let res = interp.instruction_result;
        let remaining = interp.gas.remaining();
        let limit = interp.gas.limit();
        let mut viol: Vec<(&'static str, String, String)> = vec![];
        let op = self.step_opcode;
        if let Some(f) = self.frames.last_mut() {
            if !f.in_step {
                viol.push(("C29", "C29/step-end-without-step".into(), "step_end without a preceding step".into()));
            }
            f.in_step = false;
            if remaining > limit {
                viol.push(("C13", "C13/online/remaining-exceeds-limit".into(), format!("remaining {remaining} > limit {limit} at step_end")));
            }
            if remaining > f.last_remaining {
                viol.push(("C13", "C13/online/instruction-increased-gas".into(), format!("opcode {:#04x} increased remaining gas {} -> {}", op, f.last_remaining, remaining)));
            }
            f.last_remaining = remaining;
            if res == InstructionResult::CallOrCreate {
                // remember the parent's memory and the return window for the check at its next step
                let (mut window, is_call) = match &interp.next_action {
                    InterpreterAction::Call { inputs } => (inputs.return_memory_offset.clone(), true),
                    _ => (0..0, false),
                };
                // ground truth from the instruction set: EXTCALL / EXTDELEGATECALL / EXTSTATICCALL have
                // no output window at all (return data is read with RETURNDATACOPY / RETURNDATALOAD)
                if interp.is_eof && matches!(op, 0xf8 | 0xf9 | 0xfb) {
                    if !window.is_empty() {
                        viol.push(("C11", "C11/ext-call-carries-a-return-window".into(), format!("opcode {:#04x} asks for return data to be written to parent memory {}..{}", op, window.start, window.end)));
                    }
                    window = 0..0;
                }
                f.pending_child = Some((interp.shared_memory.context_memory().to_vec(), window, is_call));
            }
        }
        // C10
        if let Some(w) = self.step_static_writer.take() {
            self.bump(&format!("static_writer_attempts/{w}"));
            if res == InstructionResult::Continue || res == InstructionResult::CallOrCreate || res == InstructionResult::SelfDestruct {
                viol.push(("C10", format!("C10/writer-succeeded-in-static-frame/{w}"), format!("{w} in a static frame ended with {:?}", res)));
            }
        }
        // C29 logs: the notification for a log appended by this instruction is delivered after
        // step_end (the LOG wrapper sits outside the step wrapper) and before the next step
        let logs_now = ctx.journaled_state.logs.len();
        let appended = logs_now.saturating_sub(self.step_logs_len);
        if appended > 0 && !(0xa0..=0xa4).contains(&op) {
            viol.push(("C29", "C29/log-appended-by-non-log-opcode".into(), format!("opcode {:#04x} appended {} log(s)", op, appended)));
        }
        self.logs_awaiting_notification += appended as i64;
        // C30: the notification is delivered right after step_end (the SELFDESTRUCT wrapper sits
        // outside the step wrapper), before any other event
        self.sd_last_result = None;
        if let Some(exp) = self.step_sd_expected.take() {
            let completed = res == InstructionResult::SelfDestruct;
            self.frame_targets.insert(exp.target);
            if completed {
                self.sd_completed.push(exp.clone());
                if exp.target == exp.contract && !self.step_sd_self_cancun_noop {
                    self.burns.push(Burn { open_len: self.open.len(), amount: exp.value });
                }
                self.bump(if self.step_sd_self_cancun_noop { "selfdestruct_completed/cancun-not-created-to-self" } else { "selfdestruct_completed/other" });
                self.sd_pending = Some((exp, self.step_sd_self_cancun_noop));
            } else {
                self.bump("selfdestruct_not_completed");
                self.sd_last_result = Some(res);
            }
        }
        self.step_sd_events.clear();
        for (p, s, w) in viol {
            self.v(p, s, w);
        }
    }

    fn log(&mut self, _interp: &mut Interpreter, ctx: &mut EvmContext<DB>, log: &Log) {
        self.n_log += 1;
        self.step_log_events += 1;
        self.logs_awaiting_notification -= 1;
        if self.logs_awaiting_notification < 0 {
            self.v("C29", "C29/log-notification-without-log", "log notification without a newly appended log");
            self.logs_awaiting_notification = 0;
        }
        if ctx.journaled_state.logs.last() != Some(log) {
            self.v("C29", "C29/log-notification-content", "log notification differs from the log appended to the journal");
        }
    }

    fn call(&mut self, ctx: &mut EvmContext<DB>, inputs: &mut CallInputs) -> Option<CallOutcome> {
        self.n_call += 1;
        self.on_open(ctx, Kind::Call(inputs.clone()));
        if let Some(n) = self.cfg.short_circuit_every {
            if self.n_call % n == 0 && self.open.len() > 1 {
                self.bump("short_circuited_calls");
                return Some(CallOutcome::new(
                    revm::interpreter::InterpreterResult { result: InstructionResult::Revert, output: revm::primitives::Bytes::from_static(b"sc"), gas: revm::interpreter::Gas::new(inputs.gas_limit) },
                    inputs.return_memory_offset.clone(),
                ));
            }
        }
        None
    }

    fn call_end(&mut self, ctx: &mut EvmContext<DB>, inputs: &CallInputs, outcome: CallOutcome) -> CallOutcome {
        self.n_call_end += 1;
        let r = outcome.result.result;
        self.on_close(ctx, Kind::Call(inputs.clone()), r.is_ok(), r);
        outcome
    }

    fn create(&mut self, ctx: &mut EvmContext<DB>, inputs: &mut CreateInputs) -> Option<CreateOutcome> {
        self.n_create += 1;
        self.on_open(ctx, Kind::Create(inputs.clone()));
        if let Some(n) = self.cfg.short_circuit_every {
            // creates are rarer than calls: answer every second one, at any depth
            let _ = n;
            if self.n_create % 2 == 0 {
                self.bump("short_circuited_creates");
                return Some(CreateOutcome::new(revm::interpreter::InterpreterResult { result: InstructionResult::Revert, output: revm::primitives::Bytes::new(), gas: revm::interpreter::Gas::new(inputs.gas_limit) }, None));
            }
        }
        None
    }

    fn create_end(&mut self, ctx: &mut EvmContext<DB>, inputs: &CreateInputs, outcome: CreateOutcome) -> CreateOutcome {
        self.n_create_end += 1;
        let r = outcome.result.result;
        self.on_close(ctx, Kind::Create(inputs.clone()), r.is_ok(), r);
        outcome
    }

    fn eofcreate(&mut self, ctx: &mut EvmContext<DB>, inputs: &mut EOFCreateInputs) -> Option<CreateOutcome> {
        self.n_eofcreate += 1;
        self.on_open(ctx, Kind::EofCreate(inputs.clone()));
        None
    }

    fn eofcreate_end(&mut self, ctx: &mut EvmContext<DB>, inputs: &EOFCreateInputs, outcome: CreateOutcome) -> CreateOutcome {
        self.n_eofcreate_end += 1;
        let r = outcome.result.result;
        self.on_close(ctx, Kind::EofCreate(inputs.clone()), r.is_ok(), r);
        outcome
    }

    fn selfdestruct(&mut self, contract: Address, target: Address, value: U256) {
        self.n_selfdestruct += 1;
        let got = SdRecord { contract, target, value };
        self.sd_notified.push(got.clone());
        match self.sd_pending.take() {
            Some((exp, self_noop)) => {
                let cls = if self_noop { "cancun+not-created+beneficiary==self" } else { "other" };
                if got.contract != exp.contract {
                    self.v("C30", format!("C30/wrong-contract/{cls}"), format!("notified contract {} executing {}", hex(got.contract.as_slice()), hex(exp.contract.as_slice())));
                } else if got.target != exp.target {
                    self.v("C30", format!("C30/wrong-beneficiary/{cls}"), format!("notified beneficiary {} popped {}", hex(got.target.as_slice()), hex(exp.target.as_slice())));
                } else if got.value != exp.value && !(self_noop && got.value.is_zero()) {
                    self.v("C30", format!("C30/wrong-value/{cls}"), format!("notified value {} contract balance {}", got.value, exp.value));
                }
            }
            None => {
                let cls = match self.sd_last_result.take() {
                    Some(r) => format!("selfdestruct-ended-{}", result_class(r)),
                    None => "no-selfdestruct-executed".to_string(),
                };
                self.v("C30", format!("C30/spurious-notification/{cls}"), format!("notification ({}, {}, {}) without a completed SELFDESTRUCT", hex(contract.as_slice()), hex(target.as_slice()), value));
            }
        }
    }
}

pub fn call_value_of(v: &CallValue) -> U256 {
    v.get()
}
