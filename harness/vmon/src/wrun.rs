//! Workload runner: executes the transactions of a Case on the real Evm (fresh Evm per transaction
//! over one evolving database), plain or with the monitoring inspector, capturing panics.
use crate::evmrun::*;
use crate::fw::*;
use crate::mon::*;
use crate::world::*;
use revm::inspector_handle_register;
use revm::primitives::{EVMError, EvmState, ResultAndState, SpecId};
use revm::{Database, DatabaseCommit, Evm};

pub struct HistoryRun {
    pub outcomes: Vec<TxOutcome>,
    pub states: Vec<Option<EvmState>>,
    pub post: World,
    pub panic: Option<(usize, PanicInfo)>,
    /// world before each transaction (only when requested)
    pub pre_worlds: Vec<World>,
}

pub fn transact_plain<DB: Database>(db: DB, spec: SpecId, block: &BlockSpec, tx: &TxSpec) -> Result<ResultAndState, EVMError<DB::Error>> {
    let mut evm = Evm::builder().with_db(db).with_spec_id(spec).with_env(make_env(spec, block, tx)).build();
    evm.transact()
}

pub fn transact_mon<DB: Database>(db: DB, spec: SpecId, block: &BlockSpec, tx: &TxSpec, mon: &mut Mon) -> Result<ResultAndState, EVMError<DB::Error>> {
    mon.begin_tx();
    let (s0, e0) = (mon.n_step, mon.n_step_end);
    let d0 = revm::interpreter::interpreter::VERIF_STEPS.with(|c| c.get());
    let r = {
        let mut evm = Evm::builder()
            .with_db(db)
            .with_external_context(&mut *mon)
            .with_spec_id(spec)
            .with_env(make_env(spec, block, tx))
            .append_handler_register(inspector_handle_register)
            .build();
        evm.transact()
    };
    let d1 = revm::interpreter::interpreter::VERIF_STEPS.with(|c| c.get());
    mon.check_step_ground_truth(d1.wrapping_sub(d0), s0, e0);
    mon.end_tx(r.is_err());
    r
}

pub fn mon_cfg_for(spec: SpecId, snapshots: bool) -> MonCfg {
    MonCfg { snapshots, short_circuit_every: None, is_cancun: spec >= SpecId::CANCUN, is_spurious: spec >= SpecId::SPURIOUS_DRAGON }
}

/// Run the whole history. `mon`: Some -> with the monitoring inspector.
pub fn run_history(case: &Case, mut mon: Option<&mut Mon>, keep_pre: bool) -> HistoryRun {
    let mut db = RefDB::new(case.world.clone(), case.spec);
    let mut out = HistoryRun { outcomes: vec![], states: vec![], post: World::default(), panic: None, pre_worlds: vec![] };
    for (i, tx) in case.txs.iter().enumerate() {
        if keep_pre {
            out.pre_worlds.push(db.world.clone());
        }
        let r = guarded(|| match mon.as_deref_mut() {
            Some(m) => transact_mon(&mut db, case.spec, &case.block, tx, m),
            None => transact_plain(&mut db, case.spec, &case.block, tx),
        });
        match r {
            Err(p) => {
                out.panic = Some((i, p));
                break;
            }
            Ok(res) => {
                let o = outcome_of(&res.as_ref().map(|r| r.result.clone()).map_err(|e| e.clone()));
                out.outcomes.push(o);
                match res {
                    Ok(rs) => {
                        db.commit(rs.state.clone());
                        out.states.push(Some(rs.state));
                    }
                    Err(_) => out.states.push(None),
                }
            }
        }
    }
    out.post = db.world.clone();
    out
}

// ------------------------------------------------------------------------------------------------
// lock-step trace of the real interpreter (one record per dispatched instruction)
// ------------------------------------------------------------------------------------------------
use crate::refevm::{TraceRec, TRACE_CAP};

#[derive(Default)]
pub struct TraceInsp {
    pub trace: Vec<TraceRec>,
}

impl<DB: Database> revm::Inspector<DB> for TraceInsp {
    fn step(&mut self, interp: &mut revm::interpreter::Interpreter, ctx: &mut revm::EvmContext<DB>) {
        if self.trace.len() < TRACE_CAP {
            let st = interp.stack.data();
            self.trace.push(TraceRec {
                depth: ctx.journaled_state.depth() as u32,
                pc: interp.program_counter() as u64,
                op: interp.current_opcode(),
                gas: interp.gas.remaining(),
                stack_len: st.len() as u32,
                top: st.last().copied().unwrap_or_default(),
                mem_len: interp.shared_memory.len() as u64,
            });
        }
    }
}

/// the real Evm's instruction trace for the first transaction of a case (fresh database)
pub fn trace_real(case: &Case) -> Result<Vec<TraceRec>, PanicInfo> {
    let mut db = RefDB::new(case.world.clone(), case.spec);
    let mut insp = TraceInsp::default();
    guarded(|| {
        let mut evm = Evm::builder()
            .with_db(&mut db)
            .with_external_context(&mut insp)
            .with_spec_id(case.spec)
            .with_env(make_env(case.spec, &case.block, &case.txs[0]))
            .append_handler_register(inspector_handle_register)
            .build();
        let _ = evm.transact();
    })?;
    Ok(insp.trace)
}

/// first difference between the reference's and the real interpreter's traces:
/// (index, field, reference record, real record)
pub fn trace_diff(r: &[TraceRec], x: &[TraceRec]) -> Option<(usize, &'static str, Option<TraceRec>, Option<TraceRec>)> {
    let d0r = r.first().map(|t| t.depth).unwrap_or(0);
    let d0x = x.first().map(|t| t.depth).unwrap_or(0);
    for i in 0..r.len().min(x.len()) {
        let (a, b) = (&r[i], &x[i]);
        let f = if a.depth - d0r != b.depth.wrapping_sub(d0x) {
            "depth"
        } else if a.op != b.op {
            "opcode"
        } else if a.pc != b.pc {
            "pc"
        } else if a.gas != b.gas {
            "gas"
        } else if a.stack_len != b.stack_len {
            "stack-length"
        } else if a.top != b.top {
            "stack-top"
        } else if a.mem_len != b.mem_len {
            "memory-size"
        } else {
            continue;
        };
        return Some((i, f, Some(a.clone()), Some(b.clone())));
    }
    if r.len() != x.len() && r.len() < TRACE_CAP && x.len() < TRACE_CAP {
        let i = r.len().min(x.len());
        return Some((i, "length", r.get(i).cloned(), x.get(i).cloned()));
    }
    None
}

// ------------------------------------------------------------------------------------------------
// one Evm instance reused for a whole history under the monitoring inspector, with database faults
// injected into chosen transactions and, optionally, a handler register that boxes the instruction
// table appended before the inspector's register (C29 third and fourth variant)
// ------------------------------------------------------------------------------------------------
pub struct ReusedRun {
    pub mon: Mon,
    pub outcomes: Vec<TxOutcome>,
    pub panic: Option<(usize, PanicInfo)>,
}

pub fn run_reused_mon(case: &Case, faults: &[Option<(DbMethod, u64)>], preboxed: bool, cfg: MonCfg) -> ReusedRun {
    let db = RefDB::new(case.world.clone(), case.spec);
    // (a no-op register keeps the builder in one type state for both variants)
    let b = Evm::builder().with_db(db).with_external_context(Mon::new(cfg)).with_spec_id(case.spec);
    let b = if preboxed {
        b.append_handler_register(|h| {
            h.instruction_table.to_boxed();
        })
    } else {
        b.append_handler_register(|_h| {})
    };
    let mut evm = b.append_handler_register(inspector_handle_register).build();
    let mut out = ReusedRun { mon: Mon::new(mon_cfg_for(case.spec, false)), outcomes: vec![], panic: None };
    for (i, tx) in case.txs.iter().enumerate() {
        evm.context.evm.env = make_env(case.spec, &case.block, tx);
        evm.context.evm.db.fault = faults.get(i).copied().flatten();
        evm.context.evm.db.stats = Default::default();
        evm.context.external.begin_tx();
        let (s0, e0) = (evm.context.external.n_step, evm.context.external.n_step_end);
        let d0 = revm::interpreter::interpreter::VERIF_STEPS.with(|c| c.get());
        let r = guarded(|| evm.transact());
        let d1 = revm::interpreter::interpreter::VERIF_STEPS.with(|c| c.get());
        evm.context.evm.db.fault = None;
        match r {
            Err(p) => {
                out.panic = Some((i, p));
                break;
            }
            Ok(res) => {
                evm.context.external.check_step_ground_truth(d1.wrapping_sub(d0), s0, e0);
                evm.context.external.end_tx(res.is_err());
                out.outcomes.push(outcome_of(&res.as_ref().map(|r| r.result.clone()).map_err(|e| e.clone())));
                if let Ok(rs) = res {
                    evm.context.evm.db.commit(rs.state);
                }
            }
        }
    }
    out.mon = std::mem::replace(&mut evm.context.external, Mon::new(mon_cfg_for(case.spec, false)));
    out
}
