//! Helpers to run the real interpreter directly (no Evm): per-spec instruction tables, contracts.
use revm_interpreter::{
    opcode::{make_instruction_table, InstructionTable},
    Contract, DummyHost, Interpreter, InterpreterAction, SharedMemory,
};
use revm_primitives::{spec_to_generic, Address, Bytecode, Bytes, Env, SpecId, U256};

pub const ALL_SPECS: [SpecId; 20] = [
    SpecId::FRONTIER, SpecId::FRONTIER_THAWING, SpecId::HOMESTEAD, SpecId::DAO_FORK, SpecId::TANGERINE,
    SpecId::SPURIOUS_DRAGON, SpecId::BYZANTIUM, SpecId::CONSTANTINOPLE, SpecId::PETERSBURG, SpecId::ISTANBUL,
    SpecId::MUIR_GLACIER, SpecId::BERLIN, SpecId::LONDON, SpecId::ARROW_GLACIER, SpecId::GRAY_GLACIER,
    SpecId::MERGE, SpecId::SHANGHAI, SpecId::CANCUN, SpecId::PRAGUE, SpecId::OSAKA,
];

/// mainnet specs that have a reference (FRONTIER..PRAGUE)
pub const MAINNET_SPECS: [SpecId; 19] = [
    SpecId::FRONTIER, SpecId::FRONTIER_THAWING, SpecId::HOMESTEAD, SpecId::DAO_FORK, SpecId::TANGERINE,
    SpecId::SPURIOUS_DRAGON, SpecId::BYZANTIUM, SpecId::CONSTANTINOPLE, SpecId::PETERSBURG, SpecId::ISTANBUL,
    SpecId::MUIR_GLACIER, SpecId::BERLIN, SpecId::LONDON, SpecId::ARROW_GLACIER, SpecId::GRAY_GLACIER,
    SpecId::MERGE, SpecId::SHANGHAI, SpecId::CANCUN, SpecId::PRAGUE,
];

pub fn spec_name(s: SpecId) -> &'static str {
    match s {
        SpecId::FRONTIER => "FRONTIER",
        SpecId::FRONTIER_THAWING => "FRONTIER_THAWING",
        SpecId::HOMESTEAD => "HOMESTEAD",
        SpecId::DAO_FORK => "DAO_FORK",
        SpecId::TANGERINE => "TANGERINE",
        SpecId::SPURIOUS_DRAGON => "SPURIOUS_DRAGON",
        SpecId::BYZANTIUM => "BYZANTIUM",
        SpecId::CONSTANTINOPLE => "CONSTANTINOPLE",
        SpecId::PETERSBURG => "PETERSBURG",
        SpecId::ISTANBUL => "ISTANBUL",
        SpecId::MUIR_GLACIER => "MUIR_GLACIER",
        SpecId::BERLIN => "BERLIN",
        SpecId::LONDON => "LONDON",
        SpecId::ARROW_GLACIER => "ARROW_GLACIER",
        SpecId::GRAY_GLACIER => "GRAY_GLACIER",
        SpecId::MERGE => "MERGE",
        SpecId::SHANGHAI => "SHANGHAI",
        SpecId::CANCUN => "CANCUN",
        SpecId::PRAGUE => "PRAGUE",
        SpecId::OSAKA => "OSAKA",
        _ => "OTHER",
    }
}

pub fn spec_from_name(n: &str) -> Option<SpecId> {
    ALL_SPECS.iter().copied().find(|s| spec_name(*s) == n)
}

pub fn table_for(spec: SpecId) -> InstructionTable<DummyHost> {
    spec_to_generic!(spec, make_instruction_table::<DummyHost, SPEC>())
}

pub fn contract(code: &[u8], input: &[u8]) -> Contract {
    Contract::new(
        Bytes::copy_from_slice(input),
        Bytecode::new_legacy(Bytes::copy_from_slice(code)),
        None,
        Address::with_last_byte(0xcc),
        None,
        Address::with_last_byte(0xca),
        U256::ZERO,
    )
}

/// Run legacy `code` directly on a bare Interpreter with a DummyHost.
pub fn run_bare(spec: SpecId, code: &[u8], input: &[u8], gas: u64) -> (Interpreter, InterpreterAction) {
    let table = table_for(spec);
    let mut host = DummyHost::new(Env::default());
    let mut interp = Interpreter::new(contract(code, input), gas, false);
    let mut mem = SharedMemory::new();
    mem.new_context();
    let act = interp.run(mem, &table, &mut host);
    (interp, act)
}
