//! Directed multi-step scenarios mixed into the generated workload W. The statement generator of
//! world.rs produces these shapes only with tiny probability, because each needs several specific
//! things at once (the same slot written on both sides of a committed inner call inside a frame
//! that reverts; a contract destroyed twice with a refill in between; value sent to oneself; a
//! refund that lands the gas used in the window just above the calldata floor; ...). Every
//! template is parameterised (values, call kinds, how the decisive frame ends), so one template is
//! a family of histories, and the monitors/oracles judge them like any other case.
//!
//! The templates only use pool contracts and never name a fee party (sender / beneficiary), so the
//! closed-form checks of C09/C22/C33 keep their premise.
use crate::fw::*;
use crate::world::*;
use revm_primitives::{Address, SpecId, U256};

pub const SCENARIO_NAMES: [&str; 9] = ["nested-revert-order", "repeated-selfdestruct", "self-transfer", "transient-revert", "floor-refund-window", "delegation-to-codeless", "create-then-fail", "sstore-gas-ladder", "value-call-chain"];

fn ender(rng: &mut Rng, a: &mut Asm, spec: SpecId) -> &'static str {
    match rng.below(5) {
        0 if spec >= SpecId::BYZANTIUM => {
            a.push_u(0).push_u(0).op(0xfd);
            "revert"
        }
        1 => {
            a.op(0xfe);
            "invalid"
        }
        2 => {
            // stack underflow
            a.op(0x01);
            "underflow"
        }
        3 => {
            // out of gas by an absurd memory expansion
            a.push_u(1).push(U256::from(1u64) << 60).op(0x52);
            "oog"
        }
        _ => {
            a.op(0x00);
            "stop"
        }
    }
}

/// CALL-family instruction with empty input/output windows; leaves the status on the stack
fn call(a: &mut Asm, op: u8, to: Address, gas: u64, value: U256) {
    a.push_u(0).push_u(0).push_u(0).push_u(0);
    if op == 0xf1 || op == 0xf2 {
        a.push(value);
    }
    a.push_addr(to).push_u(gas).op(op);
}

fn call_kind(rng: &mut Rng, spec: SpecId) -> u8 {
    match rng.below(4) {
        0 if spec >= SpecId::HOMESTEAD => 0xf4,
        1 => 0xf2,
        _ => 0xf1,
    }
}

fn small(rng: &mut Rng) -> U256 {
    match rng.below(4) {
        0 => U256::ZERO,
        1 => U256::from(1u8),
        _ => U256::from(2 + rng.below(5)),
    }
}

fn put(case: &mut Case, at: Address, code: Vec<u8>, balance: u64) {
    let e = case.world.accounts.entry(at).or_default();
    e.code = code;
    e.balance = U256::from(balance);
    if e.nonce == 0 || e.nonce >= u64::MAX - 1 {
        e.nonce = 1;
    }
}

use std::sync::atomic::{AtomicU64, Ordering};
static COUNTS: [AtomicU64; 9] = [const { AtomicU64::new(0) }; 9];

/// how many cases of each scenario this process generated (for the evidence)
pub fn counts() -> Vec<(&'static str, u64)> {
    SCENARIO_NAMES.iter().enumerate().map(|(i, n)| (*n, COUNTS[i].load(Ordering::Relaxed))).collect()
}

/// Overwrites part of `case` with one scenario. Returns its name.
pub fn apply(rng: &mut Rng, case: &mut Case) -> &'static str {
    let spec = case.spec;
    case.txs.truncate(1);
    {
        let t = &mut case.txs[0];
        t.to = Some(C1);
        t.value = U256::ZERO;
        t.data = vec![];
        t.gas_limit = 2_000_000;
        t.auth_list = None;
        t.blob_hashes.clear();
        t.max_fee_per_blob_gas = None;
    }
    let pick = rng.below(9);
    match pick {
        0 => {
            // C1: SSTORE(k,a); <kind> C2 (commits or not; may re-enter C1 to write k); SSTORE(k,c); end.
            // C3 (entry): CALL C1; SSTORE(7, status); CALL C1 again (second round on the changed state).
            let k = rng.below(3);
            let kind = call_kind(rng, spec);
            let mut c1 = Asm::new();
            // re-entrant leg: calldata non-empty -> write k and return
            let normal = c1.new_label();
            c1.op(0x36).op(0x15).push_label(normal).op(0x57);
            c1.push(small(rng)).push_u(k).op(0x55);
            if spec >= SpecId::CANCUN {
                c1.push(small(rng)).push_u(k).op(0x5d);
            }
            c1.op(0x00);
            c1.place(normal);
            // what the previous round (possibly reverted) left behind
            c1.push_u(k).op(0x54).push_u(5).op(0x55);
            if spec >= SpecId::CANCUN {
                c1.push_u(k).op(0x5c).push_u(6).op(0x55);
            }
            c1.push(small(rng)).push_u(k).op(0x55);
            if spec >= SpecId::CANCUN && rng.chance(1, 2) {
                c1.push(small(rng)).push_u(k).op(0x5d);
            }
            call(&mut c1, kind, C2, 300_000, U256::ZERO);
            c1.op(0x50);
            if rng.chance(2, 3) {
                c1.push(small(rng)).push_u(k).op(0x55);
            }
            if rng.chance(1, 3) {
                c1.push(small(rng)).push_u((k + 1) % 3).op(0x55);
            }
            ender(rng, &mut c1, spec);
            let mut c2 = Asm::new();
            c2.push(small(rng)).push_u(k).op(0x55);
            if rng.chance(1, 2) {
                // re-enter C1 with one byte of calldata
                c2.push_u(0).push_u(0).push_u(1).push_u(0).push_u(0).push_addr(C1).push_u(100_000).op(0xf1).op(0x50);
            }
            if spec >= SpecId::CANCUN && rng.chance(1, 2) {
                c2.push(small(rng)).push_u(k).op(0x5d);
            }
            if rng.chance(1, 4) {
                ender(rng, &mut c2, spec);
            } else {
                c2.op(0x00);
            }
            let mut c3 = Asm::new();
            call(&mut c3, 0xf1, C1, 800_000, U256::ZERO);
            c3.push_u(7).op(0x55);
            if spec >= SpecId::CANCUN {
                c3.push_u(k).op(0x5c).push_u(8).op(0x55);
            }
            call(&mut c3, 0xf1, C1, 800_000, U256::ZERO);
            c3.push_u(9).op(0x55).op(0x00);
            put(case, C1, c1.finish(), 100);
            put(case, C2, c2.finish(), 100);
            put(case, C3, c3.finish(), 100);
            for c in [C1, C2] {
                let st = &mut case.world.accounts.get_mut(&c).unwrap().storage;
                st.clear();
                if rng.chance(1, 2) {
                    st.insert(U256::from(k), U256::from(1 + rng.below(4)));
                }
            }
            case.txs[0].to = Some(C3);
        }
        1 => {
            // VICTIM C2 self-destructs (to C5 / itself / a fresh address), is refilled, destroyed again
            // inside a helper frame that ends in a chosen way; in Cancun+ optionally created in-tx
            let ben = |rng: &mut Rng| *rng.pick(&[C5, C2, NONEXISTENT, C5]);
            let mut v = Asm::new();
            // calldata non-empty selects the second beneficiary
            let second = v.new_label();
            v.op(0x36).push_label(second).op(0x57);
            v.push_addr(ben(rng)).op(0xff);
            v.place(second);
            v.push_addr(ben(rng)).op(0xff);
            let mut h = Asm::new();
            let refill = U256::from(1 + rng.below(20));
            h.push_u(0).push_u(0).push_u(rng.below(2)).push_u(0).push(refill).push_addr(C2).push_u(100_000).op(0xf1).op(0x50);
            ender(rng, &mut h, spec);
            let mut m = Asm::new();
            call(&mut m, 0xf1, C2, 100_000, U256::ZERO);
            m.op(0x50);
            if rng.chance(1, 2) {
                call(&mut m, 0xf1, C2, 100_000, U256::from(rng.below(5)));
                m.op(0x50);
            }
            call(&mut m, 0xf1, C3, 300_000, U256::from(30u8));
            m.push_u(7).op(0x55);
            if rng.chance(1, 2) {
                call(&mut m, 0xf1, C2, 100_000, U256::from(rng.below(3)));
                m.op(0x50);
            }
            m.push_addr(C2).op(0x31).push_u(8).op(0x55);
            m.push_addr(C5).op(0x31).push_u(9).op(0x55).op(0x00);
            put(case, C1, m.finish(), 1000);
            put(case, C2, v.finish(), 50 + rng.below(50));
            put(case, C3, h.finish(), 0);
            put(case, C5, vec![0x00], rng.below(100));
        }
        2 => {
            // value sent to oneself: CALLCODE with value, CALL to self with value (inner may fail)
            let v = U256::from(1 + rng.below(50));
            let mut c1 = Asm::new();
            let inner = c1.new_label();
            c1.op(0x36).push_label(inner).op(0x57);
            match rng.below(3) {
                0 => {
                    call(&mut c1, 0xf2, C2, 100_000, v);
                    c1.push_u(7).op(0x55);
                }
                1 => {
                    // CALL self with value and one byte of calldata
                    c1.push_u(0).push_u(0).push_u(1).push_u(0).push(v).op(0x30).push_u(200_000).op(0xf1).push_u(7).op(0x55);
                }
                _ => {
                    call(&mut c1, 0xf2, C1, 100_000, v);
                    c1.push_u(7).op(0x55);
                }
            }
            if spec >= SpecId::ISTANBUL {
                c1.op(0x47).push_u(8).op(0x55);
            }
            c1.op(0x00);
            c1.place(inner);
            c1.push(small(rng)).push_u(1).op(0x55);
            ender(rng, &mut c1, spec);
            let mut c2 = Asm::new();
            c2.push(small(rng)).push_u(2).op(0x55);
            ender(rng, &mut c2, spec);
            put(case, C1, c1.finish(), 100 + rng.below(100));
            put(case, C2, c2.finish(), 10);
        }
        3 => {
            // transient storage across frames that fail (Cancun+; earlier forks: storage only)
            let k = rng.below(2);
            let tst: u8 = if spec >= SpecId::CANCUN { 0x5d } else { 0x55 };
            let tld: u8 = if spec >= SpecId::CANCUN { 0x5c } else { 0x54 };
            let mut c1 = Asm::new();
            let inner = c1.new_label();
            c1.op(0x36).push_label(inner).op(0x57);
            if rng.chance(1, 2) {
                c1.push(small(rng)).push_u(k).op(tst);
            }
            c1.push_u(0).push_u(0).push_u(1).push_u(0).push_u(0).op(0x30).push_u(200_000).op(0xf1).op(0x50);
            c1.push_u(k).op(tld).push_u(7).op(0x55);
            call(&mut c1, call_kind(rng, spec), C2, 100_000, U256::ZERO);
            c1.op(0x50);
            c1.push_u(k).op(tld).push_u(8).op(0x55).op(0x00);
            c1.place(inner);
            c1.push(U256::from(1 + rng.below(9))).push_u(k).op(tst);
            if rng.chance(1, 2) {
                c1.push(small(rng)).push_u(k).op(tst);
            }
            ender(rng, &mut c1, spec);
            let mut c2 = Asm::new();
            c2.push(U256::from(1 + rng.below(9))).push_u(k).op(tst);
            ender(rng, &mut c2, spec);
            put(case, C1, c1.finish(), 10);
            put(case, C2, c2.finish(), 10);
        }
        4 => {
            // EIP-7623 window: floor <= gas spent before refund < floor + refund (Prague); on earlier
            // forks the same transaction is a plain refund case
            let n = 9 + rng.below(200) as usize;
            let mut c1 = Asm::new();
            let slots = 1 + rng.below(2);
            for s in 0..slots {
                c1.push_u(0).push_u(s).op(0x55);
            }
            c1.op(0x00);
            put(case, C1, c1.finish(), 0);
            let st = &mut case.world.accounts.get_mut(&C1).unwrap().storage;
            st.clear();
            for s in 0..slots {
                st.insert(U256::from(s), U256::from(1u8));
            }
            case.txs[0].data = (0..n).map(|i| if rng.chance(1, 10) { 0 } else { 1 + (i % 250) as u8 }).collect();
            case.txs[0].gas_limit = 200_000;
            case.txs[0].access_list.clear();
        }
        5 => {
            // calls of every kind through a designator whose delegate has no code / is a precompile
            let target = *rng.pick(&[NONEXISTENT, precompile(1), precompile(4), EMPTY_EXISTING]);
            if spec >= SpecId::PRAGUE {
                let e = case.world.accounts.entry(DELEGATED).or_default();
                e.code = designator(target);
                e.nonce = e.nonce.max(1);
            }
            let mut c1 = Asm::new();
            for _ in 0..1 + rng.below(4) {
                let op = *rng.pick(&[0xf1u8, 0xf2, 0xf4, 0xfa]);
                if (op == 0xf4 && spec < SpecId::HOMESTEAD) || (op == 0xfa && spec < SpecId::BYZANTIUM) {
                    continue;
                }
                call(&mut c1, op, DELEGATED, 60_000, U256::from(rng.below(2)));
                c1.op(0x50);
            }
            call(&mut c1, 0xf1, C2, 200_000, U256::ZERO);
            c1.push_u(7).op(0x55);
            ender(rng, &mut c1, spec);
            let mut c2 = Asm::new();
            call(&mut c2, 0xf1, DELEGATED, 60_000, U256::ZERO);
            c2.push_u(1).op(0x55);
            ender(rng, &mut c2, spec);
            put(case, C1, c1.finish(), 100);
            put(case, C2, c2.finish(), 0);
        }
        6 => {
            // a create that succeeds, then the creating frame fails (or not); the parent recreates
            let salt = rng.below(2);
            let create2 = spec >= SpecId::PETERSBURG && rng.chance(1, 2);
            let init = initcode_returning(&[0x60, 0x01, 0x60, 0x00, 0x55, 0x00]);
            let mk = |a: &mut Asm, value: u64| {
                for (i, chunk) in init.chunks(32).enumerate() {
                    let mut wd = [0u8; 32];
                    wd[..chunk.len()].copy_from_slice(chunk);
                    a.push32(U256::from_be_bytes(wd)).push_u(32 * i as u64).op(0x52);
                }
                if create2 {
                    a.push_u(salt).push_u(init.len() as u64).push_u(0).push_u(value).op(0xf5);
                } else {
                    a.push_u(init.len() as u64).push_u(0).push_u(value).op(0xf0);
                }
            };
            let mut c2 = Asm::new();
            mk(&mut c2, rng.below(3));
            c2.push_u(1).op(0x55);
            ender(rng, &mut c2, spec);
            let mut c1 = Asm::new();
            call(&mut c1, 0xf1, C2, 500_000, U256::ZERO);
            c1.push_u(7).op(0x55);
            call(&mut c1, 0xf1, C2, 500_000, U256::ZERO);
            c1.push_u(8).op(0x55);
            if create2 {
                // same salt from another creator: different address; from C1 via DELEGATECALL of C2: C1's address
                call(&mut c1, 0xf4, C2, 500_000, U256::ZERO);
                c1.push_u(9).op(0x55);
            }
            c1.op(0x00);
            put(case, C1, c1.finish(), 100);
            put(case, C2, c2.finish(), 10);
        }
        7 => {
            // SSTORE ladders on one slot across frames with little gas (EIP-2200 stipend rule, refunds)
            let k = rng.below(2);
            let mut c2 = Asm::new();
            for _ in 0..1 + rng.below(4) {
                c2.push(small(rng)).push_u(k).op(0x55);
            }
            c2.op(0x00);
            let mut c1 = Asm::new();
            for _ in 0..1 + rng.below(3) {
                let g = *rng.pick(&[2300u64, 2301, 5000, 7500, 22_100, 25_000, 100_000]);
                call(&mut c1, 0xf1, C2, g, U256::ZERO);
                c1.op(0x50);
            }
            c1.op(0x00);
            put(case, C1, c1.finish(), 10);
            put(case, C2, c2.finish(), 0);
            let st = &mut case.world.accounts.get_mut(&C2).unwrap().storage;
            st.clear();
            if rng.chance(2, 3) {
                st.insert(U256::from(k), U256::from(1 + rng.below(3)));
            }
            if spec >= SpecId::BERLIN && rng.chance(1, 2) {
                case.txs[0].access_list = vec![(C2, vec![U256::from(k)])];
            }
        }
        _ => {
            // value moves down a chain C1 -> C2 -> C3 -> (fresh | destroyed | overflowing) with failures
            let last = *rng.pick(&[NONEXISTENT, EMPTY_EXISTING, RICH, C5, precompile(2)]);
            let mut c3 = Asm::new();
            call(&mut c3, 0xf1, last, *rng.pick(&[0u64, 2300, 40_000]), U256::from(1 + rng.below(3)));
            c3.push_u(1).op(0x55);
            ender(rng, &mut c3, spec);
            let mut c2 = Asm::new();
            call(&mut c2, 0xf1, C3, 200_000, U256::from(5 + rng.below(3)));
            c2.push_u(1).op(0x55);
            if rng.chance(1, 3) {
                c2.push_addr(*rng.pick(&[C3, C2, last])).op(0xff);
            }
            ender(rng, &mut c2, spec);
            let mut c1 = Asm::new();
            call(&mut c1, 0xf1, C2, 400_000, U256::from(10 + rng.below(5)));
            c1.push_u(7).op(0x55);
            call(&mut c1, 0xf1, C2, 400_000, U256::from(rng.below(3)));
            c1.push_u(8).op(0x55).op(0x00);
            put(case, C1, c1.finish(), 100);
            put(case, C2, c2.finish(), rng.below(3));
            put(case, C3, c3.finish(), rng.below(3));
        }
    }
    COUNTS[pick as usize].fetch_add(1, Ordering::Relaxed);
    SCENARIO_NAMES[pick as usize]
}
