#![allow(dead_code)]
//! vmon — runtime monitors for risechain/revm. See /verif/DESIGN.md.
//! Usage: vmon <ID> --tier quick|thorough --seed N [--jobs N] [--lane L] [--replay FILE] [--k v ...]

mod eofgen;
mod evmrun;
mod fw;
mod interp;
mod keccak;
mod mon;
mod pcref;
mod props;
mod refevm;
mod scenarios;
mod statehist;
mod world;
mod wrun;

use fw::*;
use std::collections::BTreeMap;

fn main() {
    let args: Vec<String> = std::env::args().collect();
    if args.len() < 2 {
        eprintln!("usage: vmon <ID> --tier quick|thorough [--seed N] [--jobs N] [--lane L] [--replay FILE]");
        std::process::exit(3);
    }
    let id = args[1].clone();
    let mut tier = Tier::Quick;
    let mut seed: u64 = std::env::var("VERIF_SEED").ok().and_then(|s| s.parse().ok()).unwrap_or(1);
    let mut jobs: usize = std::thread::available_parallelism().map(|n| n.get()).unwrap_or(8);
    let mut lane = String::from("rel");
    let mut replay = None;
    let mut extra = BTreeMap::new();
    let mut i = 2;
    while i < args.len() {
        let k = args[i].trim_start_matches("--").to_string();
        let v = args.get(i + 1).cloned().unwrap_or_default();
        match k.as_str() {
            "tier" => tier = if v == "thorough" { Tier::Thorough } else { Tier::Quick },
            "seed" => seed = v.parse().expect("seed"),
            "jobs" => jobs = v.parse().expect("jobs"),
            "lane" => lane = v,
            "replay" => replay = Some(v),
            _ => {
                extra.insert(k, v);
            }
        }
        i += 2;
    }
    let ctx = Ctx { id: id.clone(), tier, seed, jobs, lane, replay, extra, start: std::time::Instant::now() };
    let _ = CURRENT_LANE.set(ctx.lane.clone());
    install_panic_hook();
    let code = props::dispatch(&ctx);
    std::process::exit(code);
}
