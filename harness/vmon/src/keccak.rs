//! Independent Keccak-256 (keccak-f[1600], original Keccak padding 0x01), written from the
//! specification; used as the oracle wherever the code under test hashes with alloy's keccak256.
const RC: [u64; 24] = [
    0x0000000000000001, 0x0000000000008082, 0x800000000000808a, 0x8000000080008000, 0x000000000000808b, 0x0000000080000001,
    0x8000000080008081, 0x8000000000008009, 0x000000000000008a, 0x0000000000000088, 0x0000000080008009, 0x000000008000000a,
    0x000000008000808b, 0x800000000000008b, 0x8000000000008089, 0x8000000000008003, 0x8000000000008002, 0x8000000000000080,
    0x000000000000800a, 0x800000008000000a, 0x8000000080008081, 0x8000000000008080, 0x0000000080000001, 0x8000000080008008,
];
const ROTC: [u32; 24] = [1, 3, 6, 10, 15, 21, 28, 36, 45, 55, 2, 14, 27, 41, 56, 8, 25, 43, 62, 18, 39, 61, 20, 44];
const PILN: [usize; 24] = [10, 7, 11, 17, 18, 3, 5, 16, 8, 21, 24, 4, 15, 23, 19, 13, 12, 2, 20, 14, 22, 9, 6, 1];

fn keccakf(st: &mut [u64; 25]) {
    for round in 0..24 {
        let mut bc = [0u64; 5];
        for i in 0..5 {
            bc[i] = st[i] ^ st[i + 5] ^ st[i + 10] ^ st[i + 15] ^ st[i + 20];
        }
        for i in 0..5 {
            let t = bc[(i + 4) % 5] ^ bc[(i + 1) % 5].rotate_left(1);
            for j in (0..25).step_by(5) {
                st[j + i] ^= t;
            }
        }
        let mut t = st[1];
        for i in 0..24 {
            let j = PILN[i];
            let b = st[j];
            st[j] = t.rotate_left(ROTC[i]);
            t = b;
        }
        for j in (0..25).step_by(5) {
            let mut row = [0u64; 5];
            row.copy_from_slice(&st[j..j + 5]);
            for i in 0..5 {
                st[j + i] ^= (!row[(i + 1) % 5]) & row[(i + 2) % 5];
            }
        }
        st[0] ^= RC[round];
    }
}

pub fn keccak256(data: &[u8]) -> [u8; 32] {
    const RATE: usize = 136;
    let mut st = [0u64; 25];
    let mut buf = data.to_vec();
    // pad10*1 with domain byte 0x01
    buf.push(0x01);
    while buf.len() % RATE != 0 {
        buf.push(0);
    }
    let l = buf.len();
    buf[l - 1] |= 0x80;
    for block in buf.chunks(RATE) {
        for i in 0..RATE / 8 {
            let mut w = [0u8; 8];
            w.copy_from_slice(&block[i * 8..i * 8 + 8]);
            st[i] ^= u64::from_le_bytes(w);
        }
        keccakf(&mut st);
    }
    let mut out = [0u8; 32];
    for i in 0..4 {
        out[i * 8..i * 8 + 8].copy_from_slice(&st[i].to_le_bytes());
    }
    out
}

#[cfg(test)]
mod t {
    #[test]
    fn vectors() {
        assert_eq!(crate::fw::hex(&super::keccak256(b"")), "0xc5d2460186f7233c927e7db2dcc703c0e500b653ca82273b7bfad8045d85a470");
        assert_eq!(crate::fw::hex(&super::keccak256(b"abc")), "0x4e03657aea45a94fc7d47ba826c8d667c0d1e6e33a64a036ec44f58fa12d6c45");
    }
}
