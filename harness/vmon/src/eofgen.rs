//! S7 — structural generator of EOF containers (EIP-7692 family as implemented by revm's OSAKA).
//!
//! Containers are built from code sections whose stack height is tracked exactly; whether a
//! container is *valid* is decided by revm's validator (generate and filter) — the generator only
//! has to hit the accepted region often and in varied ways (sections, CALLF/JUMPF/RETF, RJUMP,
//! RJUMPI, RJUMPV tables, loops with backward jumps, DUPN/SWAPN/EXCHANGE, data section access,
//! EOFCREATE/RETURNCONTRACT with nested sub-containers, EXT*CALL).
use crate::fw::Rng;
use revm_interpreter::opcode::{self, OPCODE_INFO_JUMPTABLE};

#[derive(Clone, Debug)]
pub struct SecType {
    pub inputs: u8,
    /// 0x80 = non-returning
    pub outputs: u8,
}

pub struct Sec {
    pub code: Vec<u8>,
    pub h: i32,
    pub max: i32,
    pub budget: usize,
}

impl Sec {
    fn new(inputs: i32) -> Sec {
        Sec { code: vec![], h: inputs, max: inputs, budget: 0 }
    }
    fn see(&mut self) {
        if self.h > self.max {
            self.max = self.h;
        }
    }
    fn op(&mut self, op: u8) {
        // entry height of this instruction counts for the maximum
        self.see();
        let info = OPCODE_INFO_JUMPTABLE[op as usize].unwrap();
        self.code.push(op);
        self.h += info.io_diff() as i32;
        self.see();
    }
    fn push_small(&mut self, v: u8) {
        self.see();
        if v == 0 {
            self.code.push(opcode::PUSH0);
        } else {
            self.code.push(opcode::PUSH1);
            self.code.push(v);
        }
        self.h += 1;
        self.see();
    }
    fn push_bytes(&mut self, b: &[u8]) {
        assert!(!b.is_empty() && b.len() <= 32);
        self.see();
        self.code.push(opcode::PUSH0 + b.len() as u8);
        self.code.extend_from_slice(b);
        self.h += 1;
        self.see();
    }
    fn push_u16(&mut self, v: u16) {
        self.push_bytes(&v.to_be_bytes());
    }
}

pub struct GenCfg {
    pub n_subcontainers_max: usize,
    pub depth: usize,
    /// container is used as initcode (must end with RETURNCONTRACT somewhere)
    pub initcode: bool,
    /// addresses EXT*CALL may name
    pub addrs: Vec<[u8; 20]>,
    /// the container is only ever returned by RETURNCONTRACT: its data section may be declared
    /// longer than what is there (aux data is appended at deployment)
    pub allow_unfilled: bool,
}

pub struct Built {
    pub bytes: Vec<u8>,
    pub n_sections: usize,
    pub n_sub: usize,
}

/// value-ish operand: mostly small so memory/data/storage operations stay affordable
fn operand(rng: &mut Rng, s: &mut Sec) {
    match rng.below(20) {
        0 => s.push_bytes(&rng.b32()),
        1 => s.push_bytes(&[0xff; 32]),
        2 => s.push_u16(rng.below(0x10000) as u16),
        3 => {
            let n = 1 + rng.usize(8);
            s.push_bytes(&rng.bytes(n))
        }
        _ => s.push_small(rng.below(97) as u8),
    }
}

const BINARY: [u8; 20] = [
    opcode::ADD, opcode::MUL, opcode::SUB, opcode::DIV, opcode::SDIV, opcode::MOD, opcode::SMOD, opcode::EXP, opcode::SIGNEXTEND,
    opcode::LT, opcode::GT, opcode::SLT, opcode::SGT, opcode::EQ, opcode::AND, opcode::OR, opcode::XOR, opcode::BYTE, opcode::SHL, opcode::SAR,
];
const NULLARY: [u8; 18] = [
    opcode::ADDRESS, opcode::ORIGIN, opcode::CALLER, opcode::CALLVALUE, opcode::CALLDATASIZE, opcode::GASPRICE, opcode::COINBASE, opcode::TIMESTAMP,
    opcode::NUMBER, opcode::DIFFICULTY, opcode::GASLIMIT, opcode::CHAINID, opcode::SELFBALANCE, opcode::BASEFEE, opcode::BLOBBASEFEE, opcode::MSIZE,
    opcode::RETURNDATASIZE, opcode::DATASIZE,
];
const UNARY: [u8; 10] = [opcode::ISZERO, opcode::NOT, opcode::CALLDATALOAD, opcode::MLOAD, opcode::SLOAD, opcode::TLOAD, opcode::BALANCE, opcode::BLOCKHASH, opcode::BLOBHASH, opcode::DATALOAD];

/// one stack-neutral statement (ends at the height it started from)
fn statement(rng: &mut Rng, s: &mut Sec, ctx: &Ctx2, depth: usize) {
    if s.budget == 0 || s.h > 900 {
        return;
    }
    s.budget -= 1;
    let h0 = s.h;
    match rng.below(34) {
        0..=4 => {
            // expression then POP
            expr(rng, s, ctx, 3);
            s.op(opcode::POP);
        }
        5 | 6 => {
            // MSTORE / MSTORE8 value at small offset
            expr(rng, s, ctx, 2);
            s.push_small(rng.below(160) as u8);
            s.op(if rng.chance(1, 4) { opcode::MSTORE8 } else { opcode::MSTORE });
        }
        7 => {
            expr(rng, s, ctx, 2);
            s.push_small(rng.below(6) as u8);
            s.op(if rng.chance(1, 3) { opcode::TSTORE } else { opcode::SSTORE });
        }
        8 => {
            // copy family: (dest, offset, size)
            let op = *rng.pick(&[opcode::CALLDATACOPY, opcode::DATACOPY, opcode::RETURNDATACOPY, opcode::MCOPY]);
            s.push_small(rng.below(70) as u8);
            if rng.chance(1, 12) {
                s.push_bytes(&rng.b32());
            } else {
                s.push_small(rng.below(70) as u8);
            }
            s.push_small(rng.below(130) as u8);
            s.op(op);
        }
        9 => {
            // LOGn
            let n = rng.below(5) as u8;
            for _ in 0..n {
                operand(rng, s);
            }
            s.push_small(rng.below(40) as u8);
            s.push_small(rng.below(64) as u8);
            s.op(opcode::LOG0 + n);
        }
        10 | 11 => {
            // if: cond RJUMPI over neutral block
            expr(rng, s, ctx, 2);
            s.see();
            s.code.push(opcode::RJUMPI);
            let at = s.code.len();
            s.code.extend_from_slice(&[0, 0]);
            s.h -= 1;
            let n = 1 + rng.usize(3);
            for _ in 0..n {
                statement(rng, s, ctx, depth + 1);
            }
            let off = (s.code.len() - (at + 2)) as i16;
            s.code[at..at + 2].copy_from_slice(&off.to_be_bytes());
            if off == 0 {
                // zero offset is legal for RJUMPI, nothing to do
            }
        }
        12 | 13 if depth < 2 => {
            // bounded loop: PUSH n; L: body; PUSH1 1; SWAP1; SUB; DUP1; RJUMPI L; POP
            s.push_small(1 + rng.below(5) as u8);
            let l = s.code.len();
            let n = 1 + rng.usize(2);
            for _ in 0..n {
                statement(rng, s, ctx, depth + 2);
            }
            s.push_small(1);
            s.op(opcode::SWAP1);
            s.op(opcode::SUB);
            s.op(opcode::DUP1);
            s.see();
            s.code.push(opcode::RJUMPI);
            let after = s.code.len() + 2;
            let off = (l as isize - after as isize) as i16;
            s.code.extend_from_slice(&off.to_be_bytes());
            s.h -= 1;
            s.op(opcode::POP);
        }
        14 | 15 if depth < 2 => {
            // RJUMPV switch with k cases, every arm neutral, joined at the end
            let k = 1 + rng.usize(4);
            expr(rng, s, ctx, 1);
            s.see();
            s.code.push(opcode::RJUMPV);
            s.code.push((k - 1) as u8);
            let table = s.code.len();
            s.code.extend(std::iter::repeat(0).take(2 * k));
            let base = s.code.len();
            s.h -= 1;
            // fallthrough arm
            statement(rng, s, ctx, depth + 2);
            let mut joins = vec![];
            s.code.push(opcode::RJUMP);
            joins.push(s.code.len());
            s.code.extend_from_slice(&[0, 0]);
            for c in 0..k {
                let off = (s.code.len() - base) as i16;
                s.code[table + 2 * c..table + 2 * c + 2].copy_from_slice(&off.to_be_bytes());
                statement(rng, s, ctx, depth + 2);
                if c + 1 < k {
                    s.code.push(opcode::RJUMP);
                    joins.push(s.code.len());
                    s.code.extend_from_slice(&[0, 0]);
                }
            }
            // the last arm falls into the join; an RJUMP with offset 0 is legal but make sure the
            // join point exists as an instruction: every statement list is followed by more code
            let end = s.code.len();
            for j in joins {
                let off = (end - (j + 2)) as i16;
                s.code[j..j + 2].copy_from_slice(&off.to_be_bytes());
            }
        }
        16 | 17 => {
            // DUPN / SWAPN / EXCHANGE on what is there, then restore height
            if s.h >= 1 {
                let n = rng.below(s.h.min(256) as u64) as u8;
                s.see();
                s.code.extend_from_slice(&[opcode::DUPN, n]);
                s.h += 1;
                s.see();
                s.op(opcode::POP);
            }
            if s.h >= 2 {
                let n = rng.below((s.h - 1).min(256) as u64) as u8;
                s.see();
                s.code.extend_from_slice(&[opcode::SWAPN, n]);
            }
            if s.h >= 3 {
                // n + m + 1 <= h with n, m in 1..=16
                let n = 1 + rng.below(((s.h - 2).min(16)) as u64) as i32;
                let room = (s.h - 1 - n).min(16);
                if room >= 1 {
                    let m = 1 + rng.below(room as u64) as i32;
                    s.see();
                    s.code.extend_from_slice(&[opcode::EXCHANGE, (((n - 1) << 4) | (m - 1)) as u8]);
                }
            }
        }
        18 | 19 => {
            // call a returning section
            let cands: Vec<usize> = ctx.callable.iter().copied().collect();
            if !cands.is_empty() {
                let t = *rng.pick(&cands);
                let ty = &ctx.types[t];
                for _ in 0..ty.inputs {
                    operand(rng, s);
                }
                s.see();
                s.code.push(opcode::CALLF);
                s.code.extend_from_slice(&(t as u16).to_be_bytes());
                s.h += ty.outputs as i32 - ty.inputs as i32;
                s.see();
                for _ in 0..ty.outputs {
                    s.op(opcode::POP);
                }
            }
        }
        20 | 21 => {
            // EXT*CALL
            let kind = *rng.pick(&[opcode::EXTCALL, opcode::EXTDELEGATECALL, opcode::EXTSTATICCALL]);
            if kind == opcode::EXTCALL {
                if rng.chance(1, 4) {
                    s.push_small(rng.below(3) as u8);
                } else {
                    s.push_small(0);
                }
            }
            s.push_small(rng.below(64) as u8);
            s.push_small(rng.below(64) as u8);
            if rng.chance(1, 12) {
                s.push_bytes(&rng.b32()); // non-address: exceptional halt
            } else {
                let a = *rng.pick(&ctx.addrs);
                s.push_bytes(&a);
            }
            s.op(kind);
            if rng.chance(1, 2) {
                s.op(opcode::POP);
            } else {
                // look at the return data
                s.op(opcode::POP);
                s.push_small(rng.below(40) as u8);
                s.op(opcode::RETURNDATALOAD);
                s.op(opcode::POP);
            }
        }
        22 if !ctx.create_targets.is_empty() => {
            // EOFCREATE idx: value, salt, input_offset, input_size
            let idx = *rng.pick(&ctx.create_targets);
            s.push_small(rng.below(32) as u8);
            s.push_small(rng.below(32) as u8);
            operand(rng, s);
            s.push_small(if rng.chance(1, 5) { 1 } else { 0 });
            s.see();
            s.code.extend_from_slice(&[opcode::EOFCREATE, idx as u8]);
            s.h -= 3;
            s.op(opcode::POP);
        }
        23 if ctx.data_size >= 32 => {
            let max = ctx.data_size - 32;
            let off = rng.below(max as u64 + 1) as u16;
            s.see();
            s.code.push(opcode::DATALOADN);
            s.code.extend_from_slice(&off.to_be_bytes());
            s.h += 1;
            s.see();
            s.op(opcode::POP);
        }
        24 => {
            // KECCAK256 of a small memory range
            s.push_small(rng.below(70) as u8);
            s.push_small(rng.below(70) as u8);
            s.op(opcode::KECCAK256);
            s.op(opcode::POP);
        }
        25 if rng.chance(1, 6) => {
            // early exit inside an if
            s.push_small(rng.below(2) as u8);
            s.see();
            s.code.push(opcode::RJUMPI);
            let at = s.code.len();
            s.code.extend_from_slice(&[0, 0]);
            s.h -= 1;
            let hh = s.h;
            terminator(rng, s, ctx, true);
            s.h = hh;
            let off = (s.code.len() - (at + 2)) as i16;
            s.code[at..at + 2].copy_from_slice(&off.to_be_bytes());
        }
        _ => {
            expr(rng, s, ctx, 2);
            s.op(opcode::POP);
        }
    }
    debug_assert_eq!(s.h, h0);
    let _ = h0;
}

/// pushes exactly one value
fn expr(rng: &mut Rng, s: &mut Sec, ctx: &Ctx2, depth: usize) {
    if depth == 0 || s.h > 900 || rng.chance(1, 3) {
        if rng.chance(1, 4) {
            s.op(*rng.pick(&NULLARY));
        } else {
            operand(rng, s);
        }
        return;
    }
    match rng.below(6) {
        0..=2 => {
            expr(rng, s, ctx, depth - 1);
            expr(rng, s, ctx, depth - 1);
            s.op(*rng.pick(&BINARY));
        }
        3 => {
            expr(rng, s, ctx, depth - 1);
            s.op(*rng.pick(&UNARY));
        }
        4 => {
            expr(rng, s, ctx, depth - 1);
            expr(rng, s, ctx, depth - 1);
            expr(rng, s, ctx, depth - 1);
            s.op(*rng.pick(&[opcode::ADDMOD, opcode::MULMOD]));
        }
        _ => {
            operand(rng, s);
            s.op(opcode::DUP1);
            s.op(*rng.pick(&BINARY));
        }
    }
}

pub struct Ctx2 {
    pub types: Vec<SecType>,
    /// returning sections with a larger index than the current one (no recursion -> terminates)
    pub callable: Vec<usize>,
    /// non-returning sections this section may JUMPF to
    pub jumpable: Vec<usize>,
    /// sub-container indices usable with EOFCREATE
    pub create_targets: Vec<usize>,
    /// sub-container indices usable with RETURNCONTRACT
    pub return_targets: Vec<usize>,
    pub data_size: usize,
    pub this_outputs: u8,
    pub addrs: Vec<[u8; 20]>,
    pub initcode: bool,
}

/// ends the section (or a branch of it)
fn terminator(rng: &mut Rng, s: &mut Sec, ctx: &Ctx2, early: bool) {
    if ctx.this_outputs != 0x80 {
        // returning section: leave exactly `outputs` items, then RETF (or JUMPF to a returning section)
        let want = ctx.this_outputs as i32;
        while s.h > want {
            s.op(opcode::POP);
        }
        while s.h < want {
            operand(rng, s);
        }
        s.see();
        s.code.push(opcode::RETF);
        return;
    }
    let jumpf_ok = !ctx.jumpable.is_empty() && !early;
    let r = rng.below(10);
    if jumpf_ok && r < 4 {
        let t = *rng.pick(&ctx.jumpable);
        let ty = &ctx.types[t];
        while s.h < ty.inputs as i32 {
            operand(rng, s);
        }
        s.see();
        s.code.push(opcode::JUMPF);
        s.code.extend_from_slice(&(t as u16).to_be_bytes());
        return;
    }
    if ctx.initcode {
        if !ctx.return_targets.is_empty() {
            let idx = *rng.pick(&ctx.return_targets);
            s.push_small(rng.below(40) as u8);
            s.push_small(rng.below(40) as u8);
            s.see();
            s.code.extend_from_slice(&[opcode::RETURNCONTRACT, idx as u8]);
            s.h -= 2;
            return;
        }
        // initcode without a container to return: may only REVERT / INVALID
        if rng.chance(1, 2) {
            s.push_small(rng.below(40) as u8);
            s.push_small(rng.below(40) as u8);
            s.op(opcode::REVERT);
        } else {
            s.see();
            s.code.push(opcode::INVALID);
        }
        return;
    }
    match r {
        0..=5 => {
            s.see();
            s.code.push(opcode::STOP);
        }
        6 | 7 => {
            s.push_small(rng.below(70) as u8);
            s.push_small(rng.below(70) as u8);
            s.op(opcode::RETURN);
        }
        8 => {
            s.push_small(rng.below(70) as u8);
            s.push_small(rng.below(70) as u8);
            s.op(opcode::REVERT);
        }
        _ => {
            s.see();
            s.code.push(opcode::INVALID);
        }
    }
}

pub fn encode(types: &[(u8, u8, u16)], codes: &[Vec<u8>], subs: &[Vec<u8>], data: &[u8], declared_data: u16) -> Vec<u8> {
    let mut b = vec![0xef, 0x00, 0x01, 0x01];
    b.extend_from_slice(&((types.len() * 4) as u16).to_be_bytes());
    b.push(0x02);
    b.extend_from_slice(&(codes.len() as u16).to_be_bytes());
    for c in codes {
        b.extend_from_slice(&(c.len() as u16).to_be_bytes());
    }
    if !subs.is_empty() {
        b.push(0x03);
        b.extend_from_slice(&(subs.len() as u16).to_be_bytes());
        for c in subs {
            b.extend_from_slice(&(c.len() as u16).to_be_bytes());
        }
    }
    b.push(0x04);
    b.extend_from_slice(&declared_data.to_be_bytes());
    b.push(0x00);
    for (i, o, m) in types {
        b.push(*i);
        b.push(*o);
        b.extend_from_slice(&m.to_be_bytes());
    }
    for c in codes {
        b.extend_from_slice(c);
    }
    for c in subs {
        b.extend_from_slice(c);
    }
    b.extend_from_slice(data);
    b
}

/// build one container (recursively its sub-containers)
pub fn gen_container(rng: &mut Rng, cfg: &GenCfg) -> Built {
    // sub-containers first: creatable (initcode) ones and, for initcode containers, returnable ones
    let mut subs: Vec<Vec<u8>> = vec![];
    let mut create_targets = vec![];
    let mut return_targets = vec![];
    if cfg.depth > 0 {
        let n = rng.usize(cfg.n_subcontainers_max + 1);
        for _ in 0..n {
            let as_init = if cfg.initcode { rng.chance(1, 3) } else { true };
            let sub = gen_container(rng, &GenCfg { n_subcontainers_max: cfg.n_subcontainers_max.min(2), depth: cfg.depth - 1, initcode: as_init, addrs: cfg.addrs.clone(), allow_unfilled: !as_init });
            if as_init {
                create_targets.push(subs.len());
            } else {
                return_targets.push(subs.len());
            }
            subs.push(sub.bytes);
        }
        if cfg.initcode && return_targets.is_empty() && rng.chance(9, 10) {
            let sub = gen_container(rng, &GenCfg { n_subcontainers_max: 1, depth: cfg.depth - 1, initcode: false, addrs: cfg.addrs.clone(), allow_unfilled: true });
            return_targets.push(subs.len());
            subs.push(sub.bytes);
        }
    }
    let data: Vec<u8> = if rng.chance(1, 3) { vec![] } else { rng.bytes_below(100) };
    let n_sec_max = if rng.chance(1, 8) { 12 } else { 4 };
    let n_sec = 1 + rng.usize(n_sec_max);
    let mut types: Vec<SecType> = vec![SecType { inputs: 0, outputs: 0x80 }];
    for _ in 1..n_sec {
        let outputs = if rng.chance(1, 3) { 0x80 } else { rng.below(3) as u8 };
        types.push(SecType { inputs: rng.below(4) as u8, outputs });
    }
    // every section k > 0 is referenced from an earlier section (so all are reachable and there is
    // no recursion): parent[k] < k; returning sections are CALLF'd from statements, non-returning
    // ones JUMPF'd at the parent's end (the parent must then be able to end with JUMPF: any section
    // may — a returning parent may only JUMPF to returning sections, so non-returning children get
    // non-returning parents)
    let mut parent = vec![0usize; n_sec];
    for k in 1..n_sec {
        let cands: Vec<usize> = (0..k).filter(|j| types[k].outputs != 0x80 || types[*j].outputs == 0x80).collect();
        parent[k] = *rng.pick(&cands);
    }
    let mut codes: Vec<Vec<u8>> = vec![];
    let mut tys: Vec<(u8, u8, u16)> = vec![];
    let mut used_sub = vec![false; subs.len()];
    for k in 0..n_sec {
        let must_call: Vec<usize> = (k + 1..n_sec).filter(|c| parent[*c] == k && types[*c].outputs != 0x80).collect();
        let must_jump: Vec<usize> = (k + 1..n_sec).filter(|c| parent[*c] == k && types[*c].outputs == 0x80).collect();
        let ctx = Ctx2 {
            types: types.clone(),
            callable: (k + 1..n_sec).filter(|c| types[*c].outputs != 0x80).collect(),
            jumpable: must_jump.clone(),
            create_targets: create_targets.clone(),
            return_targets: return_targets.clone(),
            data_size: data.len(),
            this_outputs: types[k].outputs,
            addrs: cfg.addrs.clone(),
            initcode: cfg.initcode,
        };
        let mut s = Sec::new(types[k].inputs as i32);
        s.budget = 2 + rng.usize(14);
        // mandatory references first (so every section and sub-container is reachable)
        for c in &must_call {
            let ty = &types[*c];
            for _ in 0..ty.inputs {
                operand(rng, &mut s);
            }
            s.see();
            s.code.push(opcode::CALLF);
            s.code.extend_from_slice(&(*c as u16).to_be_bytes());
            s.h += ty.outputs as i32 - ty.inputs as i32;
            s.see();
            for _ in 0..ty.outputs {
                s.op(opcode::POP);
            }
        }
        if k == 0 {
            for (i, _) in subs.iter().enumerate() {
                if create_targets.contains(&i) {
                    used_sub[i] = true;
                    s.push_small(0);
                    s.push_small(0);
                    s.push_small(i as u8 + 1);
                    s.push_small(0);
                    s.see();
                    s.code.extend_from_slice(&[opcode::EOFCREATE, i as u8]);
                    s.h -= 3;
                    s.op(opcode::POP);
                }
            }
        }
        let n_st = rng.usize(8);
        for _ in 0..n_st {
            statement(rng, &mut s, &ctx, 0);
        }
        // all but one mandatory JUMPF targets go into branches; the last one ends the section
        for (i, c) in must_jump.iter().enumerate() {
            let last = i + 1 == must_jump.len();
            let ty = &types[*c];
            if !last {
                s.push_small(rng.below(2) as u8);
                s.see();
                s.code.push(opcode::RJUMPI);
                let at = s.code.len();
                s.code.extend_from_slice(&[0, 0]);
                s.h -= 1;
                let hh = s.h;
                while s.h < ty.inputs as i32 {
                    operand(rng, &mut s);
                }
                s.see();
                s.code.push(opcode::JUMPF);
                s.code.extend_from_slice(&(*c as u16).to_be_bytes());
                s.h = hh;
                let off = (s.code.len() - (at + 2)) as i16;
                s.code[at..at + 2].copy_from_slice(&off.to_be_bytes());
            } else if types[k].outputs == 0x80 {
                while s.h < ty.inputs as i32 {
                    operand(rng, &mut s);
                }
                s.see();
                s.code.push(opcode::JUMPF);
                s.code.extend_from_slice(&(*c as u16).to_be_bytes());
            }
        }
        let ended_by_jumpf = !must_jump.is_empty() && types[k].outputs == 0x80;
        if !ended_by_jumpf {
            // an initcode container must use every returnable sub-container: section 0 returns the
            // first, others are reached through if-branches
            if cfg.initcode && k == 0 {
                for (n, i) in return_targets.iter().enumerate() {
                    used_sub[*i] = true;
                    if n + 1 < return_targets.len() {
                        s.push_small(rng.below(2) as u8);
                        s.see();
                        s.code.push(opcode::RJUMPI);
                        let at = s.code.len();
                        s.code.extend_from_slice(&[0, 0]);
                        s.h -= 1;
                        s.push_small(0);
                        s.push_small(0);
                        s.see();
                        s.code.extend_from_slice(&[opcode::RETURNCONTRACT, *i as u8]);
                        s.h -= 2;
                        let off = (s.code.len() - (at + 2)) as i16;
                        s.code[at..at + 2].copy_from_slice(&off.to_be_bytes());
                    } else {
                        s.push_small(rng.below(20) as u8);
                        s.push_small(rng.below(20) as u8);
                        s.see();
                        s.code.extend_from_slice(&[opcode::RETURNCONTRACT, *i as u8]);
                        s.h -= 2;
                    }
                }
                if return_targets.is_empty() {
                    terminator(rng, &mut s, &ctx, false);
                }
            } else {
                terminator(rng, &mut s, &ctx, false);
            }
        }
        tys.push((types[k].inputs, types[k].outputs, s.max.max(0) as u16));
        codes.push(s.code);
    }
    // returnable sub-containers of an initcode container are used from section 0 only; if section 0
    // ended by JUMPF they stay unused -> the validator rejects (SubContainerNotAccessed); fine
    let _ = used_sub;
    let declared = if !cfg.allow_unfilled || rng.chance(3, 5) { data.len() as u16 } else { data.len() as u16 + 1 + rng.below(40) as u16 };
    let bytes = encode(&tys, &codes, &subs, &data, declared);
    Built { bytes, n_sections: n_sec, n_sub: subs.len() }
}

/// byte-level mutations of a container (for the decode / validate workloads)
pub fn mutate(rng: &mut Rng, b: &[u8]) -> Vec<u8> {
    let mut v = b.to_vec();
    if v.is_empty() {
        return rng.bytes(8);
    }
    match rng.below(8) {
        0 => {
            let i = rng.usize(v.len());
            v[i] ^= 1 << rng.below(8);
        }
        1 => {
            let i = rng.usize(v.len());
            v[i] = rng.below(256) as u8;
        }
        2 => {
            v.truncate(rng.usize(v.len()));
        }
        3 => {
            let n = 1 + rng.usize(8);
            let extra = rng.bytes(n);
            v.extend_from_slice(&extra);
        }
        4 => {
            let i = rng.usize(v.len());
            v.insert(i, rng.below(256) as u8);
        }
        5 => {
            let i = rng.usize(v.len());
            v.remove(i);
        }
        6 => {
            // header area
            let i = rng.usize(v.len().min(24));
            v[i] = v[i].wrapping_add(1 + rng.below(3) as u8);
        }
        _ => {
            // replace an opcode-looking byte by an EOF control opcode
            let i = rng.usize(v.len());
            v[i] = *rng.pick(&[0xe0u8, 0xe1, 0xe2, 0xe3, 0xe4, 0xe5, 0xe6, 0xe7, 0xe8, 0xec, 0xee, 0xd1, 0x00, 0xf3, 0x5b, 0x56, 0x57, 0xf1, 0xff]);
        }
    }
    v
}

/// containers in which a forward RJUMPI lands on an immediate byte of a later instruction, that
/// byte being an opcode that is only safe in validated positions (RETF, CALLF, JUMPF, EOFCREATE,
/// RETURNCONTRACT). Correct validation rejects every one of them (JumpToImmediateBytes); if a
/// validator accepts one, executing it reaches exactly the paths that assume a valid container.
pub fn gen_immediate_landing(rng: &mut Rng) -> Vec<u8> {
    let harmful = *rng.pick(&[0xe4u8, 0xe3, 0xe5, 0xec, 0xee, 0xe4, 0xe4]);
    // prefix: PUSH1 1; RJUMPI <off>   (5 bytes; off is relative to the byte after the RJUMPI)
    let mut code: Vec<u8> = vec![0x60, 0x01, 0xe1, 0x00, 0x00];
    let after_jump = code.len();
    let target; // absolute position of the immediate byte to land on
    let mut max_stack = 1u16;
    match rng.below(5) {
        0 | 1 => {
            // PUSHn with the harmful byte at a chosen immediate position
            let n = 1 + rng.usize(32);
            let k = if rng.chance(1, 2) { n - 1 } else { rng.usize(n) };
            let mut imm = rng.bytes(n);
            imm[k] = harmful;
            code.push(0x5f + n as u8);
            target = code.len() + k;
            code.extend_from_slice(&imm);
            code.push(0x50);
            code.push(0x00);
        }
        2 | 3 => {
            // PUSH0; RJUMPV max_index, table whose chosen byte is the harmful opcode
            let cases = 1 + rng.usize(3);
            code.push(0x5f);
            code.push(0xe2);
            code.push((cases - 1) as u8);
            let table = code.len();
            for _ in 0..cases {
                code.extend_from_slice(&[0x00, 0x00]);
            }
            // land on the last byte of the table (low byte of the last offset) or on any table byte
            let k = if rng.chance(2, 3) { 2 * cases - 1 } else { rng.usize(2 * cases) };
            code[table + k] = harmful;
            target = table + k;
            // every offset must still be a valid forward target: pad with NOPs far enough
            let mut need = 0usize;
            for c in 0..cases {
                let off = u16::from_be_bytes([code[table + 2 * c], code[table + 2 * c + 1]]) as usize;
                need = need.max(off);
            }
            if need > 40_000 {
                // a harmful high byte makes the offset negative or huge: keep it small instead
                code[table + k] = 0x00;
                let kk = 2 * cases - 1;
                code[table + kk] = harmful;
                need = harmful as usize;
                return finish_landing(code, after_jump, table + kk, need, max_stack);
            }
            return finish_landing(code, after_jump, target, need, max_stack);
        }
        _ => {
            // three items, then DUPN/SWAPN/EXCHANGE whose immediate is the harmful byte
            code.extend_from_slice(&[0x5f, 0x5f, 0x5f]);
            max_stack = 3;
            let op = *rng.pick(&[0xe6u8, 0xe7, 0xe8]);
            code.push(op);
            target = code.len();
            code.push(harmful);
            // the immediate demands a deep stack: pad pushes so that the instruction itself is valid
            // is not needed for the jump check (it comes first in validation)
            code.extend_from_slice(&[0x50, 0x50, 0x50, 0x00]);
        }
    }
    finish_landing(code, after_jump, target, 0, max_stack)
}

fn finish_landing(mut code: Vec<u8>, after_jump: usize, target: usize, pad_to: usize, max_stack: u16) -> Vec<u8> {
    // pad with NOPs (JUMPDEST in EOF) so that RJUMPV offsets stay inside the section, then STOP
    if pad_to > 0 {
        let mut pad = vec![0x5b; pad_to + 1];
        pad.push(0x00);
        code.extend(pad);
    }
    let off = (target - after_jump) as u16;
    code[3..5].copy_from_slice(&off.to_be_bytes());
    let types = [(0u8, 0x80u8, max_stack.max(1))];
    encode(&types, &[code], &[], &[], 0)
}

/// structured header mutations of a valid container (section headers the byte-level mutator
/// practically never produces)
pub fn mutate_header(rng: &mut Rng, b: &[u8]) -> Vec<u8> {
    let mut v = b.to_vec();
    // locate the data-section header: ... 04 <size:2> 00 <body>; walk the header
    let mut i = 3;
    let mut pos_code = None;
    let mut pos_container = None;
    let mut pos_data = None;
    while i < v.len() {
        match v[i] {
            0x01 => i += 3,
            0x02 => {
                pos_code = Some(i);
                if i + 2 >= v.len() {
                    break;
                }
                let n = u16::from_be_bytes([v[i + 1], v[i + 2]]) as usize;
                i += 3 + 2 * n;
            }
            0x03 => {
                pos_container = Some(i);
                if i + 2 >= v.len() {
                    break;
                }
                let n = u16::from_be_bytes([v[i + 1], v[i + 2]]) as usize;
                i += 3 + 2 * n;
            }
            0x04 => {
                pos_data = Some(i);
                break;
            }
            _ => break,
        }
    }
    match rng.below(7) {
        0 | 1 if pos_container.is_none() => {
            // a container-section header that announces zero containers
            if let Some(d) = pos_data {
                v.splice(d..d, [0x03, 0x00, 0x00]);
                // keep the total length what a decoder that skips these bytes would expect
                if rng.chance(2, 3) && v.len() > d + 10 {
                    let n = v.len() - 3;
                    v.truncate(n);
                }
            }
        }
        2 => {
            // zero code sections
            if let Some(c) = pos_code {
                if c + 2 < v.len() {
                    v[c + 1] = 0;
                    v[c + 2] = 0;
                }
            }
        }
        3 => {
            // types size zero / not a multiple of four
            if v.len() > 5 {
                let x = *rng.pick(&[0u16, 1, 3, 5, 0xffff]);
                v[4..6].copy_from_slice(&x.to_be_bytes());
            }
        }
        4 => {
            // a code section of size zero
            if let Some(c) = pos_code {
                if c + 4 < v.len() {
                    v[c + 3] = 0;
                    v[c + 4] = 0;
                }
            }
        }
        5 => {
            // duplicate the data header
            if let Some(d) = pos_data {
                if d + 3 <= v.len() {
                    let h: Vec<u8> = v[d..d + 3].to_vec();
                    v.splice(d..d, h);
                }
            }
        }
        _ => {
            // container count larger than what follows
            if let Some(c) = pos_container {
                if c + 2 < v.len() {
                    v[c + 2] = v[c + 2].wrapping_add(1 + rng.below(3) as u8);
                }
            } else if let Some(d) = pos_data {
                v.splice(d..d, [0x03, 0x00, 0x01, 0x00, 0x00]);
            }
        }
    }
    v
}
