//! Framework shared by all monitors: PRNG, run context, report/evidence writer, known-findings
//! handling, panic capture, parallel shard runner.

use serde_json::{json, Map, Value};
use std::collections::{BTreeMap, BTreeSet, HashSet};
use std::panic::{catch_unwind, AssertUnwindSafe};
use std::sync::Mutex;
use std::time::Instant;

pub const VERIF_ROOT: &str = "/verif";

// ------------------------------------------------------------------------------------------------
// PRNG (SplitMix64 seeding a xoshiro256**)
// ------------------------------------------------------------------------------------------------

#[derive(Clone, Debug)]
pub struct Rng {
    s: [u64; 4],
}

fn splitmix(x: &mut u64) -> u64 {
    *x = x.wrapping_add(0x9E3779B97F4A7C15);
    let mut z = *x;
    z = (z ^ (z >> 30)).wrapping_mul(0xBF58476D1CE4E5B9);
    z = (z ^ (z >> 27)).wrapping_mul(0x94D049BB133111EB);
    z ^ (z >> 31)
}

impl Rng {
    pub fn new(seed: u64) -> Self {
        let mut x = seed;
        Rng {
            s: [
                splitmix(&mut x),
                splitmix(&mut x),
                splitmix(&mut x),
                splitmix(&mut x),
            ],
        }
    }
    pub fn next(&mut self) -> u64 {
        let r = self.s[1].wrapping_mul(5).rotate_left(7).wrapping_mul(9);
        let t = self.s[1] << 17;
        self.s[2] ^= self.s[0];
        self.s[3] ^= self.s[1];
        self.s[1] ^= self.s[2];
        self.s[0] ^= self.s[3];
        self.s[2] ^= t;
        self.s[3] = self.s[3].rotate_left(45);
        r
    }
    /// uniform in 0..n (n > 0)
    pub fn below(&mut self, n: u64) -> u64 {
        debug_assert!(n > 0);
        self.next() % n
    }
    pub fn range(&mut self, lo: u64, hi_incl: u64) -> u64 {
        lo + self.below(hi_incl - lo + 1)
    }
    pub fn usize(&mut self, n: usize) -> usize {
        self.below(n as u64) as usize
    }
    pub fn chance(&mut self, num: u64, den: u64) -> bool {
        self.below(den) < num
    }
    pub fn pick<'a, T>(&mut self, xs: &'a [T]) -> &'a T {
        &xs[self.usize(xs.len())]
    }
    pub fn bytes(&mut self, n: usize) -> Vec<u8> {
        let mut v = Vec::with_capacity(n);
        while v.len() < n {
            let x = self.next().to_le_bytes();
            let take = (n - v.len()).min(8);
            v.extend_from_slice(&x[..take]);
        }
        v
    }
    /// random bytes of a random length in 0..n
    pub fn bytes_below(&mut self, n: usize) -> Vec<u8> {
        let l = self.usize(n.max(1));
        self.bytes(l)
    }
    pub fn b32(&mut self) -> [u8; 32] {
        let mut o = [0u8; 32];
        for i in 0..4 {
            o[i * 8..i * 8 + 8].copy_from_slice(&self.next().to_le_bytes());
        }
        o
    }
}

pub fn hash64(bytes: &[u8]) -> u64 {
    // FNV-1a 64 followed by a splitmix finaliser
    let mut h: u64 = 0xcbf29ce484222325;
    for b in bytes {
        h ^= *b as u64;
        h = h.wrapping_mul(0x100000001b3);
    }
    let mut x = h;
    splitmix(&mut x)
}

pub fn hex(b: &[u8]) -> String {
    let mut s = String::with_capacity(b.len() * 2 + 2);
    s.push_str("0x");
    for x in b {
        s.push_str(&format!("{:02x}", x));
    }
    s
}

pub fn unhex(s: &str) -> Vec<u8> {
    let s = s.strip_prefix("0x").unwrap_or(s);
    let s = if s.len() % 2 == 1 {
        format!("0{}", s)
    } else {
        s.to_string()
    };
    (0..s.len() / 2)
        .map(|i| u8::from_str_radix(&s[2 * i..2 * i + 2], 16).expect("hex"))
        .collect()
}

// ------------------------------------------------------------------------------------------------
// Run context
// ------------------------------------------------------------------------------------------------

#[derive(Clone, Debug, PartialEq, Eq)]
pub enum Tier {
    Quick,
    Thorough,
}

#[derive(Clone, Debug)]
pub struct Ctx {
    pub id: String,
    pub tier: Tier,
    pub seed: u64,
    pub jobs: usize,
    pub lane: String,
    pub replay: Option<String>,
    /// free-form extra args (sub-mode, shard indices, counts)
    pub extra: BTreeMap<String, String>,
    pub start: Instant,
}

impl Ctx {
    pub fn quick(&self) -> bool {
        self.tier == Tier::Quick
    }
    /// pick a size by tier, scaled by VERIF_SCALE (percent) when set
    pub fn n(&self, quick: u64, thorough: u64) -> u64 {
        let base = if self.quick() { quick } else { thorough };
        if let Some(x) = self.extra.get("count") {
            if let Ok(v) = x.parse::<u64>() {
                return v;
            }
        }
        let scale = std::env::var("VERIF_SCALE")
            .ok()
            .and_then(|s| s.parse::<u64>().ok())
            .unwrap_or(100);
        // the checked lane is several times slower: it runs a quarter of the workload
        let lane_div = if self.lane == "dbg" { 4 } else if self.lane == "asan" { 6 } else { 1 };
        (base.saturating_mul(scale) / 100 / lane_div).max(1)
    }
    pub fn arg(&self, k: &str) -> Option<&str> {
        self.extra.get(k).map(|s| s.as_str())
    }
    pub fn elapsed(&self) -> f64 {
        self.start.elapsed().as_secs_f64()
    }
}

// ------------------------------------------------------------------------------------------------
// Violations, report
// ------------------------------------------------------------------------------------------------

#[derive(Clone, Debug)]
pub struct Violation {
    /// stable signature built from discrete facts (see DESIGN 3.6)
    pub signature: String,
    pub what: String,
    /// self-contained case for the replay file
    pub case: Value,
}

#[derive(Default)]
pub struct Report {
    pub evaluations: u64,
    pub distinct: HashSet<u64>,
    pub samples: Vec<Value>,
    pub counters: BTreeMap<String, u64>,
    pub tables: BTreeMap<String, BTreeMap<String, u64>>,
    pub sets: BTreeMap<String, BTreeSet<String>>,
    pub violations: Vec<Violation>,
    pub inconclusive: Vec<String>,
    pub notes: Vec<String>,
    pub extra: Map<String, Value>,
    pub exhaustive: Option<bool>,
    pub sample_cap: usize,
}

impl Report {
    pub fn new() -> Self {
        Report {
            sample_cap: 6,
            ..Default::default()
        }
    }
    pub fn eval(&mut self) {
        self.evaluations += 1;
    }
    /// record one non-trivial case by its hash
    pub fn nontrivial(&mut self, h: u64) {
        self.distinct.insert(h);
    }
    pub fn count(&mut self, k: &str) {
        *self.counters.entry(k.to_string()).or_insert(0) += 1;
    }
    pub fn add(&mut self, k: &str, n: u64) {
        *self.counters.entry(k.to_string()).or_insert(0) += n;
    }
    pub fn cell(&mut self, table: &str, k: &str) {
        *self
            .tables
            .entry(table.to_string())
            .or_default()
            .entry(k.to_string())
            .or_insert(0) += 1;
    }
    pub fn cell_add(&mut self, table: &str, k: &str, n: u64) {
        *self
            .tables
            .entry(table.to_string())
            .or_default()
            .entry(k.to_string())
            .or_insert(0) += n;
    }
    pub fn set(&mut self, name: &str, v: &str) {
        self.sets
            .entry(name.to_string())
            .or_default()
            .insert(v.to_string());
    }
    pub fn sample(&mut self, v: Value) {
        if self.samples.len() < self.sample_cap {
            self.samples.push(v);
        }
    }
    pub fn violation(&mut self, signature: impl Into<String>, what: impl Into<String>, case: Value) {
        let signature = signature.into();
        // keep at most 3 witnesses per signature
        let n = self
            .violations
            .iter()
            .filter(|v| v.signature == signature)
            .count();
        self.count(&format!("violations/{}", signature));
        if n < 3 {
            self.violations.push(Violation {
                signature,
                what: what.into(),
                case,
            });
        }
    }
    pub fn inconclusive(&mut self, why: impl Into<String>) {
        let w = why.into();
        if self.inconclusive.len() < 20 {
            self.inconclusive.push(w);
        }
    }
    pub fn table_get(&self, table: &str, k: &str) -> u64 {
        self.tables
            .get(table)
            .and_then(|t| t.get(k))
            .copied()
            .unwrap_or(0)
    }
    pub fn counter(&self, k: &str) -> u64 {
        self.counters.get(k).copied().unwrap_or(0)
    }
    /// require a coverage floor; failing one makes the run inconclusive (never a violation)
    pub fn floor(&mut self, what: &str, have: u64, need: u64) {
        // sharded sanitizer lanes run a fraction of the workload per process: floors are the
        // primary lane's business
        if std::env::var("VERIF_NOFLOOR").is_ok() {
            return;
        }
        // secondary lanes run a fraction of the primary lane's workload
        let need = match CURRENT_LANE.get().map(|s| s.as_str()) {
            Some("rel") | Some("op") | None => need,
            _ => (need / 8).max(1),
        };
        if have < need {
            self.inconclusive(format!("coverage floor not reached: {what}: {have} < {need}"));
        }
    }
    /// merge counters/tables/violations of a per-case report (no evaluations, samples)
    pub fn merge_light(&mut self, o: Report) {
        let mut o = o;
        o.evaluations = 0;
        o.samples.clear();
        self.merge(o);
    }
    pub fn merge(&mut self, o: Report) {
        self.evaluations += o.evaluations;
        self.distinct.extend(o.distinct);
        for s in o.samples {
            self.sample(s);
        }
        for (k, v) in o.counters {
            *self.counters.entry(k).or_insert(0) += v;
        }
        for (t, m) in o.tables {
            let e = self.tables.entry(t).or_default();
            for (k, v) in m {
                *e.entry(k).or_insert(0) += v;
            }
        }
        for (t, m) in o.sets {
            self.sets.entry(t).or_default().extend(m);
        }
        for v in o.violations {
            let n = self
                .violations
                .iter()
                .filter(|x| x.signature == v.signature)
                .count();
            if n < 3 {
                self.violations.push(v);
            }
        }
        for i in o.inconclusive {
            self.inconclusive(i);
        }
        self.notes.extend(o.notes);
        for (k, v) in o.extra {
            self.extra.insert(k, v);
        }
        if let Some(e) = o.exhaustive {
            self.exhaustive = Some(self.exhaustive.unwrap_or(true) && e);
        }
    }
}

// ------------------------------------------------------------------------------------------------
// Panic capture
// ------------------------------------------------------------------------------------------------

thread_local! {
    static LAST_PANIC: std::cell::RefCell<Option<(String, String)>> = const { std::cell::RefCell::new(None) };
}

/// lane of this process (set once by main)
pub static CURRENT_LANE: std::sync::OnceLock<String> = std::sync::OnceLock::new();

pub fn install_panic_hook() {
    std::panic::set_hook(Box::new(|info| {
        let loc = info
            .location()
            .map(|l| format!("{}:{}", l.file(), l.line()))
            .unwrap_or_else(|| "?".to_string());
        let msg = if let Some(s) = info.payload().downcast_ref::<&str>() {
            s.to_string()
        } else if let Some(s) = info.payload().downcast_ref::<String>() {
            s.clone()
        } else {
            "<non-string panic>".to_string()
        };
        LAST_PANIC.with(|p| *p.borrow_mut() = Some((loc, msg)));
    }));
}

#[derive(Debug, Clone)]
pub struct PanicInfo {
    pub location: String,
    pub message: String,
}

impl PanicInfo {
    /// true when the panic location is inside the code under test (or a dependency), false when
    /// it is inside the harness itself
    pub fn in_repo(&self) -> bool {
        !self.location.contains("vmon/src") && !self.location.contains("/verif/")
    }
    /// `file` part of location with line stripped and /repo prefix removed
    pub fn site(&self) -> String {
        let f = self.location.rsplit_once(':').map(|x| x.0).unwrap_or(&self.location);
        f.trim_start_matches("/repo/").to_string()
    }
    pub fn is_hook(&self) -> bool {
        self.message.starts_with("VERIF-H1")
    }
}

/// Run `f`, capturing a panic with its location.
pub fn guarded<T>(f: impl FnOnce() -> T) -> Result<T, PanicInfo> {
    LAST_PANIC.with(|p| *p.borrow_mut() = None);
    match catch_unwind(AssertUnwindSafe(f)) {
        Ok(v) => Ok(v),
        Err(_) => {
            let (location, message) = LAST_PANIC
                .with(|p| p.borrow_mut().take())
                .unwrap_or(("?".into(), "?".into()));
            Err(PanicInfo { location, message })
        }
    }
}

/// Standard treatment of a panic observed while running a case of property `id`.
pub fn report_panic(rep: &mut Report, id: &str, p: &PanicInfo, case: Value) {
    if p.in_repo() {
        let kind = if p.is_hook() { "hook-H1" } else { "panic" };
        // message class: strip numbers so the signature is stable across inputs
        let class: String = p
            .message
            .chars()
            .filter(|c| !c.is_ascii_digit())
            .take(60)
            .collect();
        rep.violation(
            format!("{id}/{kind}/{}/{}", p.site(), class.trim()),
            format!("panic at {}: {}", p.location, p.message),
            case,
        );
    } else {
        rep.inconclusive(format!("harness panic at {}: {}", p.location, p.message));
    }
}

// ------------------------------------------------------------------------------------------------
// Parallel shard runner
// ------------------------------------------------------------------------------------------------

/// Run `shards` independent shards on up to `ctx.jobs` threads; each receives (shard index, rng).
pub fn par_shards<F>(ctx: &Ctx, shards: usize, f: F) -> Report
where
    F: Fn(usize, &mut Rng, &mut Report) + Sync,
{
    let total = Mutex::new(Report::new());
    let next = std::sync::atomic::AtomicUsize::new(0);
    let jobs = ctx.jobs.max(1).min(shards.max(1));
    std::thread::scope(|s| {
        for _ in 0..jobs {
            s.spawn(|| loop {
                let i = next.fetch_add(1, std::sync::atomic::Ordering::SeqCst);
                if i >= shards {
                    break;
                }
                let mut rng = Rng::new(ctx.seed ^ ((i as u64 + 1).wrapping_mul(0xA24BAED4963EE407)));
                let mut rep = Report::new();
                let r = guarded(|| f(i, &mut rng, &mut rep));
                if let Err(p) = r {
                    // a panic that escaped the per-case guards
                    report_panic(&mut rep, &ctx.id, &p, json!({"shard": i, "seed": ctx.seed}));
                }
                total.lock().unwrap().merge(rep);
            });
        }
    });
    total.into_inner().unwrap()
}

// ------------------------------------------------------------------------------------------------
// Known findings and finishing a run
// ------------------------------------------------------------------------------------------------

#[derive(Clone, Debug)]
pub struct KnownFinding {
    pub property: String,
    pub signature: String,
    pub status: String,
    pub what: String,
}

pub fn load_known() -> Vec<KnownFinding> {
    let p = format!("{VERIF_ROOT}/known_findings.json");
    let Ok(s) = std::fs::read_to_string(&p) else {
        return vec![];
    };
    let v: Value = serde_json::from_str(&s).expect("known_findings.json parses");
    let mut out = vec![];
    for e in v["findings"].as_array().cloned().unwrap_or_default() {
        let mut sigs: Vec<String> = e["signatures"]
            .as_array()
            .map(|a| a.iter().filter_map(|x| x.as_str().map(|s| s.to_string())).collect())
            .unwrap_or_default();
        if let Some(s) = e["signature"].as_str() {
            sigs.push(s.to_string());
        }
        for s in sigs {
            out.push(KnownFinding {
                property: e["property"].as_str().unwrap_or("").to_string(),
                signature: s,
                status: e["status"].as_str().unwrap_or("").to_string(),
                what: e["what"].as_str().unwrap_or("").to_string(),
            });
        }
    }
    out
}

pub struct Finish {
    pub level: &'static str,
    pub rule: String,
    pub assumptions: Vec<String>,
}

/// Write evidence, replay files; print KNOWN-FINDING / VIOLATION / INCONCLUSIVE lines; return the
/// exit code.
pub fn finish(ctx: &Ctx, mut rep: Report, fin: Finish) -> i32 {
    let known = load_known();
    let mut exit = 0;
    let mut printed_known: BTreeSet<String> = BTreeSet::new();
    let mut new_violations = 0;
    let mut seen_sig: BTreeSet<String> = BTreeSet::new();
    let mut viol_summary = vec![];
    for v in &rep.violations {
        let open = known
            .iter()
            .find(|k| k.property == ctx.id && k.signature == v.signature && k.status == "open");
        if let Some(k) = open {
            if printed_known.insert(v.signature.clone()) {
                println!(
                    "KNOWN-FINDING: property={} {} [{}]",
                    ctx.id, k.what, v.signature
                );
            }
            continue;
        }
        new_violations += 1;
        if !seen_sig.insert(v.signature.clone()) {
            continue;
        }
        let sig_file: String = v
            .signature
            .chars()
            .map(|c| if c.is_ascii_alphanumeric() || c == '-' || c == '_' { c } else { '_' })
            .take(120)
            .collect();
        let path = format!("{VERIF_ROOT}/replays/{}-{}-{}.json", ctx.id, sig_file, ctx.seed);
        let body = json!({
            "property": ctx.id,
            "signature": v.signature,
            "what": v.what,
            "seed": ctx.seed,
            "tier": if ctx.quick() {"quick"} else {"thorough"},
            "lane": ctx.lane,
            "case": v.case,
        });
        let _ = std::fs::create_dir_all(format!("{VERIF_ROOT}/replays"));
        let _ = std::fs::write(&path, serde_json::to_string_pretty(&body).unwrap());
        println!("VIOLATION property={} replay={}", ctx.id, path);
        println!("  signature: {}", v.signature);
        println!("  what: {}", v.what);
        viol_summary.push(json!({"signature": v.signature, "what": v.what, "replay": path}));
        exit = 1;
    }
    if exit == 0 && !rep.inconclusive.is_empty() {
        for i in &rep.inconclusive {
            println!("INCONCLUSIVE property={} {}", ctx.id, i);
        }
        exit = 2;
    }
    let distinct = rep.distinct.len() as u64;
    if exit == 0 && ctx.replay.is_none() && (rep.evaluations == 0 || distinct < 2) {
        println!(
            "INCONCLUSIVE property={} observed too little: evaluations={} distinct_nontrivial={}",
            ctx.id, rep.evaluations, distinct
        );
        exit = 2;
    }

    // evidence (replay mode does not rewrite evidence)
    if ctx.replay.is_none() && ctx.arg("no-evidence").is_none() {
        let mut cov = Map::new();
        cov.insert("evaluations".into(), json!(rep.evaluations));
        cov.insert("distinct_nontrivial".into(), json!(distinct));
        cov.insert("rule".into(), json!(fin.rule));
        if rep.samples.is_empty() {
            rep.samples.push(json!("no sample recorded"));
        }
        cov.insert("samples".into(), Value::Array(rep.samples.clone()));
        if let Some(e) = rep.exhaustive {
            cov.insert("exhaustive".into(), json!(e));
        }
        cov.insert("lane".into(), json!(ctx.lane));
        cov.insert("counters".into(), json!(rep.counters));
        cov.insert("tables".into(), json!(rep.tables));
        let sets: BTreeMap<String, Vec<String>> = rep
            .sets
            .iter()
            .map(|(k, v)| (k.clone(), v.iter().cloned().collect()))
            .collect();
        cov.insert("sets".into(), json!(sets));
        if !rep.notes.is_empty() {
            cov.insert("notes".into(), json!(rep.notes));
        }
        if !rep.inconclusive.is_empty() {
            cov.insert("inconclusive".into(), json!(rep.inconclusive));
        }
        let known_hit: Vec<&String> = printed_known.iter().collect();
        cov.insert("known_findings_reproduced".into(), json!(known_hit));
        if !viol_summary.is_empty() {
            cov.insert("violations_found".into(), json!(viol_summary));
        }
        for (k, v) in rep.extra.iter() {
            cov.insert(k.clone(), v.clone());
        }
        let sc: BTreeMap<&str, u64> = crate::scenarios::counts().into_iter().filter(|(_, n)| *n > 0).collect();
        if !sc.is_empty() {
            cov.insert("directed_scenario_cases_generated".into(), json!(sc));
        }
        let ev = json!({
            "property_id": ctx.id,
            "tier": if ctx.quick() {"quick"} else {"thorough"},
            "seed": ctx.seed,
            "level": fin.level,
            "coverage": Value::Object(cov),
            "assumptions": fin.assumptions,
            "wall_s": ctx.elapsed(),
            "violations": new_violations,
            "verdict": match exit { 0 => "held-on-observed", 1 => "violated", _ => "inconclusive" },
        });
        let out = ctx
            .arg("evidence-out")
            .map(|s| s.to_string())
            .unwrap_or_else(|| format!("{VERIF_ROOT}/evidence/{}.json", ctx.id));
        let _ = std::fs::create_dir_all(format!("{VERIF_ROOT}/evidence"));
        std::fs::write(&out, serde_json::to_string_pretty(&ev).unwrap()).expect("write evidence");
    }
    println!(
        "[{}] lane={} tier={} seed={} evaluations={} distinct_nontrivial={} violations={} known={} wall={:.1}s exit={}",
        ctx.id,
        ctx.lane,
        if ctx.quick() { "quick" } else { "thorough" },
        ctx.seed,
        rep.evaluations,
        distinct,
        new_violations,
        printed_known.len(),
        ctx.elapsed(),
        exit
    );
    exit
}
