//! S6 — independent definitions of the precompiles (clarity first, BigUint arithmetic, own hash
//! implementations). Nothing here calls into revm-precompile or its crypto libraries.
use num_bigint::BigUint;
use num_traits::{One, Zero};

pub fn bu(hex: &str) -> BigUint {
    BigUint::parse_bytes(hex.replace([' ', '_'], "").as_bytes(), 16).expect("hex constant")
}
pub fn bd(dec: &str) -> BigUint {
    BigUint::parse_bytes(dec.as_bytes(), 10).expect("dec constant")
}
pub fn be(b: &[u8]) -> BigUint {
    BigUint::from_bytes_be(b)
}
pub fn to_be(x: &BigUint, n: usize) -> Vec<u8> {
    let v = x.to_bytes_be();
    let mut out = vec![0u8; n.saturating_sub(v.len())];
    out.extend_from_slice(&v[v.len().saturating_sub(n)..]);
    out
}
/// right-pad (or cut) to n bytes
pub fn rpad(input: &[u8], n: usize) -> Vec<u8> {
    let mut v = input[..input.len().min(n)].to_vec();
    v.resize(n, 0);
    v
}

// ------------------------------------------------------------------------------------------------
// what the definition says about one call
// ------------------------------------------------------------------------------------------------
#[derive(Clone, Debug, PartialEq)]
pub enum RefVal {
    /// succeeds with exactly these bytes
    Output(Vec<u8>),
    /// must fail (any precompile error)
    Fail,
    /// succeeds or fails: the definition here has no opinion on the value (gas still defined)
    Unknown,
}
#[derive(Clone, Debug)]
pub struct RefOut {
    /// defined cost when it can be computed from the input (None: input is malformed before the cost is defined)
    pub gas: Option<u64>,
    pub val: RefVal,
}

// ------------------------------------------------------------------------------------------------
// hashes
// ------------------------------------------------------------------------------------------------
pub fn sha256(msg: &[u8]) -> [u8; 32] {
    const K: [u32; 64] = [
        0x428a2f98, 0x71374491, 0xb5c0fbcf, 0xe9b5dba5, 0x3956c25b, 0x59f111f1, 0x923f82a4, 0xab1c5ed5, 0xd807aa98, 0x12835b01, 0x243185be, 0x550c7dc3, 0x72be5d74, 0x80deb1fe, 0x9bdc06a7, 0xc19bf174, 0xe49b69c1, 0xefbe4786,
        0x0fc19dc6, 0x240ca1cc, 0x2de92c6f, 0x4a7484aa, 0x5cb0a9dc, 0x76f988da, 0x983e5152, 0xa831c66d, 0xb00327c8, 0xbf597fc7, 0xc6e00bf3, 0xd5a79147, 0x06ca6351, 0x14292967, 0x27b70a85, 0x2e1b2138, 0x4d2c6dfc, 0x53380d13,
        0x650a7354, 0x766a0abb, 0x81c2c92e, 0x92722c85, 0xa2bfe8a1, 0xa81a664b, 0xc24b8b70, 0xc76c51a3, 0xd192e819, 0xd6990624, 0xf40e3585, 0x106aa070, 0x19a4c116, 0x1e376c08, 0x2748774c, 0x34b0bcb5, 0x391c0cb3, 0x4ed8aa4a,
        0x5b9cca4f, 0x682e6ff3, 0x748f82ee, 0x78a5636f, 0x84c87814, 0x8cc70208, 0x90befffa, 0xa4506ceb, 0xbef9a3f7, 0xc67178f2,
    ];
    let mut h: [u32; 8] = [0x6a09e667, 0xbb67ae85, 0x3c6ef372, 0xa54ff53a, 0x510e527f, 0x9b05688c, 0x1f83d9ab, 0x5be0cd19];
    let mut m = msg.to_vec();
    let bitlen = (msg.len() as u64) * 8;
    m.push(0x80);
    while m.len() % 64 != 56 {
        m.push(0);
    }
    m.extend_from_slice(&bitlen.to_be_bytes());
    for chunk in m.chunks(64) {
        let mut w = [0u32; 64];
        for i in 0..16 {
            w[i] = u32::from_be_bytes([chunk[4 * i], chunk[4 * i + 1], chunk[4 * i + 2], chunk[4 * i + 3]]);
        }
        for i in 16..64 {
            let s0 = w[i - 15].rotate_right(7) ^ w[i - 15].rotate_right(18) ^ (w[i - 15] >> 3);
            let s1 = w[i - 2].rotate_right(17) ^ w[i - 2].rotate_right(19) ^ (w[i - 2] >> 10);
            w[i] = w[i - 16].wrapping_add(s0).wrapping_add(w[i - 7]).wrapping_add(s1);
        }
        let mut v = h;
        for i in 0..64 {
            let s1 = v[4].rotate_right(6) ^ v[4].rotate_right(11) ^ v[4].rotate_right(25);
            let ch = (v[4] & v[5]) ^ (!v[4] & v[6]);
            let t1 = v[7].wrapping_add(s1).wrapping_add(ch).wrapping_add(K[i]).wrapping_add(w[i]);
            let s0 = v[0].rotate_right(2) ^ v[0].rotate_right(13) ^ v[0].rotate_right(22);
            let maj = (v[0] & v[1]) ^ (v[0] & v[2]) ^ (v[1] & v[2]);
            let t2 = s0.wrapping_add(maj);
            v = [t1.wrapping_add(t2), v[0], v[1], v[2], v[3].wrapping_add(t1), v[4], v[5], v[6]];
        }
        for i in 0..8 {
            h[i] = h[i].wrapping_add(v[i]);
        }
    }
    let mut out = [0u8; 32];
    for i in 0..8 {
        out[4 * i..4 * i + 4].copy_from_slice(&h[i].to_be_bytes());
    }
    out
}

pub fn ripemd160(msg: &[u8]) -> [u8; 20] {
    const R1: [usize; 80] = [
        0, 1, 2, 3, 4, 5, 6, 7, 8, 9, 10, 11, 12, 13, 14, 15, 7, 4, 13, 1, 10, 6, 15, 3, 12, 0, 9, 5, 2, 14, 11, 8, 3, 10, 14, 4, 9, 15, 8, 1, 2, 7, 0, 6, 13, 11, 5, 12, 1, 9, 11, 10, 0, 8, 12, 4, 13, 3, 7, 15, 14, 5, 6, 2, 4, 0, 5, 9, 7,
        12, 2, 10, 14, 1, 3, 8, 11, 6, 15, 13,
    ];
    const R2: [usize; 80] = [
        5, 14, 7, 0, 9, 2, 11, 4, 13, 6, 15, 8, 1, 10, 3, 12, 6, 11, 3, 7, 0, 13, 5, 10, 14, 15, 8, 12, 4, 9, 1, 2, 15, 5, 1, 3, 7, 14, 6, 9, 11, 8, 12, 2, 10, 0, 4, 13, 8, 6, 4, 1, 3, 11, 15, 0, 5, 12, 2, 13, 9, 7, 10, 14, 12, 15, 10, 4, 1,
        5, 8, 7, 6, 2, 13, 14, 0, 3, 9, 11,
    ];
    const S1: [u32; 80] = [
        11, 14, 15, 12, 5, 8, 7, 9, 11, 13, 14, 15, 6, 7, 9, 8, 7, 6, 8, 13, 11, 9, 7, 15, 7, 12, 15, 9, 11, 7, 13, 12, 11, 13, 6, 7, 14, 9, 13, 15, 14, 8, 13, 6, 5, 12, 7, 5, 11, 12, 14, 15, 14, 15, 9, 8, 9, 14, 5, 6, 8, 6, 5, 12, 9, 15, 5,
        11, 6, 8, 13, 12, 5, 12, 13, 14, 11, 8, 5, 6,
    ];
    const S2: [u32; 80] = [
        8, 9, 9, 11, 13, 15, 15, 5, 7, 7, 8, 11, 14, 14, 12, 6, 9, 13, 15, 7, 12, 8, 9, 11, 7, 7, 12, 7, 6, 15, 13, 11, 9, 7, 15, 11, 8, 6, 6, 14, 12, 13, 5, 14, 13, 13, 7, 5, 15, 5, 8, 11, 14, 14, 6, 14, 6, 9, 12, 9, 12, 5, 15, 8, 8, 5, 12,
        9, 12, 5, 14, 6, 8, 13, 6, 5, 15, 13, 11, 11,
    ];
    const K1: [u32; 5] = [0x00000000, 0x5a827999, 0x6ed9eba1, 0x8f1bbcdc, 0xa953fd4e];
    const K2: [u32; 5] = [0x50a28be6, 0x5c4dd124, 0x6d703ef3, 0x7a6d76e9, 0x00000000];
    fn f(j: usize, x: u32, y: u32, z: u32) -> u32 {
        match j / 16 {
            0 => x ^ y ^ z,
            1 => (x & y) | (!x & z),
            2 => (x | !y) ^ z,
            3 => (x & z) | (y & !z),
            _ => x ^ (y | !z),
        }
    }
    let mut h: [u32; 5] = [0x67452301, 0xefcdab89, 0x98badcfe, 0x10325476, 0xc3d2e1f0];
    let mut m = msg.to_vec();
    let bitlen = (msg.len() as u64) * 8;
    m.push(0x80);
    while m.len() % 64 != 56 {
        m.push(0);
    }
    m.extend_from_slice(&bitlen.to_le_bytes());
    for chunk in m.chunks(64) {
        let mut x = [0u32; 16];
        for i in 0..16 {
            x[i] = u32::from_le_bytes([chunk[4 * i], chunk[4 * i + 1], chunk[4 * i + 2], chunk[4 * i + 3]]);
        }
        let (mut a1, mut b1, mut c1, mut d1, mut e1) = (h[0], h[1], h[2], h[3], h[4]);
        let (mut a2, mut b2, mut c2, mut d2, mut e2) = (h[0], h[1], h[2], h[3], h[4]);
        for j in 0..80 {
            let t = a1.wrapping_add(f(j, b1, c1, d1)).wrapping_add(x[R1[j]]).wrapping_add(K1[j / 16]).rotate_left(S1[j]).wrapping_add(e1);
            a1 = e1;
            e1 = d1;
            d1 = c1.rotate_left(10);
            c1 = b1;
            b1 = t;
            let t = a2.wrapping_add(f(79 - j, b2, c2, d2)).wrapping_add(x[R2[j]]).wrapping_add(K2[j / 16]).rotate_left(S2[j]).wrapping_add(e2);
            a2 = e2;
            e2 = d2;
            d2 = c2.rotate_left(10);
            c2 = b2;
            b2 = t;
        }
        let t = h[1].wrapping_add(c1).wrapping_add(d2);
        h[1] = h[2].wrapping_add(d1).wrapping_add(e2);
        h[2] = h[3].wrapping_add(e1).wrapping_add(a2);
        h[3] = h[4].wrapping_add(a1).wrapping_add(b2);
        h[4] = h[0].wrapping_add(b1).wrapping_add(c2);
        h[0] = t;
    }
    let mut out = [0u8; 20];
    for i in 0..5 {
        out[4 * i..4 * i + 4].copy_from_slice(&h[i].to_le_bytes());
    }
    out
}

/// BLAKE2b compression function F (RFC 7693 3.2) with a free number of rounds
pub fn blake2f(rounds: u32, h: &mut [u64; 8], m: &[u64; 16], t: [u64; 2], last: bool) {
    const IV: [u64; 8] = [0x6a09e667f3bcc908, 0xbb67ae8584caa73b, 0x3c6ef372fe94f82b, 0xa54ff53a5f1d36f1, 0x510e527fade682d1, 0x9b05688c2b3e6c1f, 0x1f83d9abfb41bd6b, 0x5be0cd19137e2179];
    const SIGMA: [[usize; 16]; 10] = [
        [0, 1, 2, 3, 4, 5, 6, 7, 8, 9, 10, 11, 12, 13, 14, 15],
        [14, 10, 4, 8, 9, 15, 13, 6, 1, 12, 0, 2, 11, 7, 5, 3],
        [11, 8, 12, 0, 5, 2, 15, 13, 10, 14, 3, 6, 7, 1, 9, 4],
        [7, 9, 3, 1, 13, 12, 11, 14, 2, 6, 5, 10, 4, 0, 15, 8],
        [9, 0, 5, 7, 2, 4, 10, 15, 14, 1, 11, 12, 6, 8, 3, 13],
        [2, 12, 6, 10, 0, 11, 8, 3, 4, 13, 7, 5, 15, 14, 1, 9],
        [12, 5, 1, 15, 14, 13, 4, 10, 0, 7, 6, 3, 9, 2, 8, 11],
        [13, 11, 7, 14, 12, 1, 3, 9, 5, 0, 15, 4, 8, 6, 2, 10],
        [6, 15, 14, 9, 11, 3, 0, 8, 12, 2, 13, 7, 1, 4, 10, 5],
        [10, 2, 8, 4, 7, 6, 1, 5, 15, 11, 9, 14, 3, 12, 13, 0],
    ];
    let mut v = [0u64; 16];
    v[..8].copy_from_slice(h);
    v[8..].copy_from_slice(&IV);
    v[12] ^= t[0];
    v[13] ^= t[1];
    if last {
        v[14] = !v[14];
    }
    fn g(v: &mut [u64; 16], a: usize, b: usize, c: usize, d: usize, x: u64, y: u64) {
        v[a] = v[a].wrapping_add(v[b]).wrapping_add(x);
        v[d] = (v[d] ^ v[a]).rotate_right(32);
        v[c] = v[c].wrapping_add(v[d]);
        v[b] = (v[b] ^ v[c]).rotate_right(24);
        v[a] = v[a].wrapping_add(v[b]).wrapping_add(y);
        v[d] = (v[d] ^ v[a]).rotate_right(16);
        v[c] = v[c].wrapping_add(v[d]);
        v[b] = (v[b] ^ v[c]).rotate_right(63);
    }
    for r in 0..rounds as usize {
        let s = &SIGMA[r % 10];
        g(&mut v, 0, 4, 8, 12, m[s[0]], m[s[1]]);
        g(&mut v, 1, 5, 9, 13, m[s[2]], m[s[3]]);
        g(&mut v, 2, 6, 10, 14, m[s[4]], m[s[5]]);
        g(&mut v, 3, 7, 11, 15, m[s[6]], m[s[7]]);
        g(&mut v, 0, 5, 10, 15, m[s[8]], m[s[9]]);
        g(&mut v, 1, 6, 11, 12, m[s[10]], m[s[11]]);
        g(&mut v, 2, 7, 8, 13, m[s[12]], m[s[13]]);
        g(&mut v, 3, 4, 9, 14, m[s[14]], m[s[15]]);
    }
    for i in 0..8 {
        h[i] ^= v[i] ^ v[i + 8];
    }
}

// ------------------------------------------------------------------------------------------------
// prime-field curves y^2 = x^3 + b (a = 0), affine, None = point at infinity
// ------------------------------------------------------------------------------------------------
pub type P1 = Option<(BigUint, BigUint)>;

pub struct Curve {
    pub p: BigUint,
    pub b: BigUint,
    /// group order of the subgroup used
    pub r: BigUint,
}

fn sub_mod(a: &BigUint, b: &BigUint, p: &BigUint) -> BigUint {
    ((a + p) - (b % p)) % p
}

impl Curve {
    pub fn on_curve(&self, x: &BigUint, y: &BigUint) -> bool {
        let p = &self.p;
        (y * y) % p == (x * x % p * x + &self.b) % p
    }
    pub fn neg(&self, a: &P1) -> P1 {
        a.as_ref().map(|(x, y)| (x.clone(), if y.is_zero() { y.clone() } else { &self.p - y }))
    }
    pub fn add(&self, a: &P1, b: &P1) -> P1 {
        let p = &self.p;
        let (Some((x1, y1)), Some((x2, y2))) = (a, b) else { return if a.is_none() { b.clone() } else { a.clone() } };
        let lam = if x1 == x2 {
            if (y1 + y2) % p == BigUint::zero() {
                return None;
            }
            // 3x^2 / 2y
            let num = BigUint::from(3u8) * x1 * x1 % p;
            let den = (BigUint::from(2u8) * y1 % p).modinv(p).expect("invertible");
            num * den % p
        } else {
            let num = sub_mod(y2, y1, p);
            let den = sub_mod(x2, x1, p).modinv(p).expect("invertible");
            num * den % p
        };
        let x3 = sub_mod(&sub_mod(&(&lam * &lam % p), x1, p), x2, p);
        let y3 = sub_mod(&(&lam * sub_mod(x1, &x3, p) % p), y1, p);
        Some((x3, y3))
    }
    pub fn mul(&self, a: &P1, k: &BigUint) -> P1 {
        let mut acc: P1 = None;
        let n = k.bits();
        for i in (0..n).rev() {
            acc = self.add(&acc, &acc);
            if k.bit(i) {
                acc = self.add(&acc, a);
            }
        }
        acc
    }
    pub fn in_subgroup(&self, a: &P1) -> bool {
        self.mul(a, &self.r).is_none()
    }
    /// y with y^2 = x^3 + b, if any (p = 3 mod 4)
    pub fn lift_x(&self, x: &BigUint) -> Option<BigUint> {
        let p = &self.p;
        let rhs = (x * x % p * x + &self.b) % p;
        let y = rhs.modpow(&((p + BigUint::one()) >> 2), p);
        if &y * &y % p == rhs {
            Some(y)
        } else {
            None
        }
    }
}

// ------------------------------------------------------------------------------------------------
// quadratic extension Fp[u]/(u^2+1) and curves over it
// ------------------------------------------------------------------------------------------------
pub type F2 = (BigUint, BigUint); // c0 + c1 u
pub type P2 = Option<(F2, F2)>;

pub struct Curve2 {
    pub p: BigUint,
    pub b: F2,
    pub r: BigUint,
}

impl Curve2 {
    pub fn f_add(&self, a: &F2, b: &F2) -> F2 {
        ((&a.0 + &b.0) % &self.p, (&a.1 + &b.1) % &self.p)
    }
    pub fn f_sub(&self, a: &F2, b: &F2) -> F2 {
        (sub_mod(&a.0, &b.0, &self.p), sub_mod(&a.1, &b.1, &self.p))
    }
    pub fn f_mul(&self, a: &F2, b: &F2) -> F2 {
        let p = &self.p;
        // (a0 + a1 u)(b0 + b1 u) = a0 b0 - a1 b1 + (a0 b1 + a1 b0) u
        (sub_mod(&(&a.0 * &b.0 % p), &(&a.1 * &b.1 % p), p), (&a.0 * &b.1 + &a.1 * &b.0) % p)
    }
    pub fn f_inv(&self, a: &F2) -> F2 {
        let p = &self.p;
        let norm = (&a.0 * &a.0 + &a.1 * &a.1) % p;
        let ni = norm.modinv(p).expect("non-zero");
        (&a.0 * &ni % p, sub_mod(&BigUint::zero(), &(&a.1 * &ni % p), p))
    }
    pub fn f_is_zero(a: &F2) -> bool {
        a.0.is_zero() && a.1.is_zero()
    }
    pub fn on_curve(&self, x: &F2, y: &F2) -> bool {
        let l = self.f_mul(y, y);
        let r = self.f_add(&self.f_mul(&self.f_mul(x, x), x), &self.b);
        l == r
    }
    pub fn neg(&self, a: &P2) -> P2 {
        a.as_ref().map(|(x, y)| (x.clone(), self.f_sub(&(BigUint::zero(), BigUint::zero()), y)))
    }
    pub fn add(&self, a: &P2, b: &P2) -> P2 {
        let (Some((x1, y1)), Some((x2, y2))) = (a, b) else { return if a.is_none() { b.clone() } else { a.clone() } };
        let lam = if x1 == x2 {
            if Self::f_is_zero(&self.f_add(y1, y2)) {
                return None;
            }
            let three = (BigUint::from(3u8), BigUint::zero());
            let two = (BigUint::from(2u8), BigUint::zero());
            let num = self.f_mul(&three, &self.f_mul(x1, x1));
            self.f_mul(&num, &self.f_inv(&self.f_mul(&two, y1)))
        } else {
            self.f_mul(&self.f_sub(y2, y1), &self.f_inv(&self.f_sub(x2, x1)))
        };
        let x3 = self.f_sub(&self.f_sub(&self.f_mul(&lam, &lam), x1), x2);
        let y3 = self.f_sub(&self.f_mul(&lam, &self.f_sub(x1, &x3)), y1);
        Some((x3, y3))
    }
    pub fn mul(&self, a: &P2, k: &BigUint) -> P2 {
        let mut acc: P2 = None;
        for i in (0..k.bits()).rev() {
            acc = self.add(&acc, &acc);
            if k.bit(i) {
                acc = self.add(&acc, a);
            }
        }
        acc
    }
    pub fn in_subgroup(&self, a: &P2) -> bool {
        self.mul(a, &self.r).is_none()
    }
}

// ------------------------------------------------------------------------------------------------
// parameters
// ------------------------------------------------------------------------------------------------
pub fn secp256k1() -> (Curve, P1) {
    let p = bu("FFFFFFFFFFFFFFFFFFFFFFFFFFFFFFFFFFFFFFFFFFFFFFFFFFFFFFFEFFFFFC2F");
    let n = bu("FFFFFFFFFFFFFFFFFFFFFFFFFFFFFFFEBAAEDCE6AF48A03BBFD25E8CD0364141");
    let g = Some((bu("79BE667EF9DCBBAC55A06295CE870B07029BFCDB2DCE28D959F2815B16F81798"), bu("483ADA7726A3C4655DA4FBFC0E1108A8FD17B448A68554199C47D08FFB10D4B8")));
    (Curve { p, b: BigUint::from(7u8), r: n }, g)
}
pub fn bn254() -> (Curve, P1, Curve2, P2) {
    let p = bd("21888242871839275222246405745257275088696311157297823662689037894645226208583");
    let r = bd("21888242871839275222246405745257275088548364400416034343698204186575808495617");
    let c1 = Curve { p: p.clone(), b: BigUint::from(3u8), r: r.clone() };
    let g1 = Some((BigUint::one(), BigUint::from(2u8)));
    // twist: y^2 = x^3 + 3/(9+u)
    let tmp = Curve2 { p: p.clone(), b: (BigUint::zero(), BigUint::zero()), r: r.clone() };
    let b2 = tmp.f_mul(&(BigUint::from(3u8), BigUint::zero()), &tmp.f_inv(&(BigUint::from(9u8), BigUint::one())));
    let c2 = Curve2 { p, b: b2, r };
    let g2 = Some((
        (bd("10857046999023057135944570762232829481370756359578518086990519993285655852781"), bd("11559732032986387107991004021392285783925812861821192530917403151452391805634")),
        (bd("8495653923123431417604973247489272438418190587263600148770280649306958101930"), bd("4082367875863433681332203403145435568316851327593401208105741076214120093531")),
    ));
    (c1, g1, c2, g2)
}
pub fn bls12_381() -> (Curve, P1, Curve2, P2) {
    let p = bu("1a0111ea397fe69a4b1ba7b6434bacd764774b84f38512bf6730d2a0f6b0f6241eabfffeb153ffffb9feffffffffaaab");
    let r = bu("73eda753299d7d483339d80809a1d80553bda402fffe5bfeffffffff00000001");
    let c1 = Curve { p: p.clone(), b: BigUint::from(4u8), r: r.clone() };
    let g1 = Some((
        bu("17f1d3a73197d7942695638c4fa9ac0fc3688c4f9774b905a14e3a3f171bac586c55e83ff97a1aeffb3af00adb22c6bb"),
        bu("08b3f481e3aaa0f1a09e30ed741d8ae4fcf5e095d5d00af600db18cb2c04b3edd03cc744a2888ae40caa232946c5e7e1"),
    ));
    let c2 = Curve2 { p, b: (BigUint::from(4u8), BigUint::from(4u8)), r };
    let g2 = Some((
        (
            bu("024aa2b2f08f0a91260805272dc51051c6e47ad4fa403b02b4510b647ae3d1770bac0326a805bbefd48056c8c121bdb8"),
            bu("13e02b6052719f607dacd3a088274f65596bd0d09920b61ab5da61bbdc7f5049334cf11213945d57e5ac7d055d042b7e"),
        ),
        (
            bu("0ce5d527727d6e118cc9cdc6da2e351aadfd9baa8cbdd3a76d429a695160d12c923ac9cc3baca289e193548608b82801"),
            bu("0606c4a02ea734cc32acd2b02bc28b99cb3e287e85a763af267492ab572e99ab3f370d275cec1da1aaa9075ff05f79be"),
        ),
    ));
    (c1, g1, c2, g2)
}

/// the constants above are typed from memory: check them with this file's own arithmetic before
/// trusting anything built on them
pub fn self_test() -> Result<(), String> {
    let (k, g) = secp256k1();
    let (gx, gy) = g.clone().unwrap();
    if !k.on_curve(&gx, &gy) || !k.in_subgroup(&g) {
        return Err("secp256k1 generator".into());
    }
    let (c1, g1, c2, g2) = bn254();
    let (x, y) = g1.clone().unwrap();
    if !c1.on_curve(&x, &y) || !c1.in_subgroup(&g1) {
        return Err("bn254 G1 generator".into());
    }
    let (x, y) = g2.clone().unwrap();
    if !c2.on_curve(&x, &y) || !c2.in_subgroup(&g2) {
        return Err("bn254 G2 generator".into());
    }
    let (c1, g1, c2, g2) = bls12_381();
    let (x, y) = g1.clone().unwrap();
    if !c1.on_curve(&x, &y) || !c1.in_subgroup(&g1) {
        return Err("bls12-381 G1 generator".into());
    }
    let (x, y) = g2.clone().unwrap();
    if !c2.on_curve(&x, &y) || !c2.in_subgroup(&g2) {
        return Err("bls12-381 G2 generator".into());
    }
    if crate::fw::hex(&sha256(b"abc")) != "0xba7816bf8f01cfea414140de5dae2223b00361a396177a9cb410ff61f20015ad" {
        return Err("sha256(abc)".into());
    }
    if crate::fw::hex(&ripemd160(b"abc")) != "0x8eb208f7e05d987a9b044a8e98c6b087f15a0bfc" {
        return Err("ripemd160(abc)".into());
    }
    Ok(())
}

// ------------------------------------------------------------------------------------------------
// the precompiles
// ------------------------------------------------------------------------------------------------
fn words(n: usize) -> u64 {
    (n as u64).div_ceil(32)
}

pub fn ref_identity(input: &[u8]) -> RefOut {
    RefOut { gas: Some(15 + 3 * words(input.len())), val: RefVal::Output(input.to_vec()) }
}
pub fn ref_sha256(input: &[u8]) -> RefOut {
    RefOut { gas: Some(60 + 12 * words(input.len())), val: RefVal::Output(sha256(input).to_vec()) }
}
pub fn ref_ripemd160(input: &[u8]) -> RefOut {
    let mut out = vec![0u8; 12];
    out.extend_from_slice(&ripemd160(input));
    RefOut { gas: Some(600 + 120 * words(input.len())), val: RefVal::Output(out) }
}

pub fn ref_ecrecover(input: &[u8]) -> RefOut {
    let empty = RefOut { gas: Some(3000), val: RefVal::Output(vec![]) };
    let i = rpad(input, 128);
    let (h, v, r, s) = (be(&i[0..32]), &i[32..64], be(&i[64..96]), be(&i[96..128]));
    if v[..31].iter().any(|b| *b != 0) || !(v[31] == 27 || v[31] == 28) {
        return empty;
    }
    let (k, g) = secp256k1();
    let n = k.r.clone();
    if r.is_zero() || s.is_zero() || r >= n || s >= n {
        return empty;
    }
    // R = (r, y) with the parity given by v
    let Some(mut y) = k.lift_x(&r) else { return empty };
    let odd = v[31] == 28;
    if y.bit(0) != odd {
        y = &k.p - &y;
    }
    let rp: P1 = Some((r.clone(), y));
    // Q = r^-1 (s R - h G)
    let rinv = r.modinv(&n).expect("r != 0");
    let u1 = sub_mod(&BigUint::zero(), &(&h % &n * &rinv % &n), &n);
    let u2 = &s * &rinv % &n;
    let q = k.add(&k.mul(&g, &u1), &k.mul(&rp, &u2));
    let Some((qx, qy)) = q else { return empty };
    let mut pk = to_be(&qx, 32);
    pk.extend_from_slice(&to_be(&qy, 32));
    let hash = crate::keccak::keccak256(&pk);
    let mut out = vec![0u8; 12];
    out.extend_from_slice(&hash[12..]);
    RefOut { gas: Some(3000), val: RefVal::Output(out) }
}

/// make a signature with a known key (r, s, v) over hash h — for positive ecrecover cases
pub fn sign(h: &[u8; 32], key: &BigUint, nonce: &BigUint) -> Option<(BigUint, BigUint, u8, [u8; 20])> {
    let (k, g) = secp256k1();
    let n = k.r.clone();
    let (rx, ry) = k.mul(&g, nonce)?;
    let r = &rx % &n;
    if r.is_zero() || r != rx {
        return None;
    }
    let s = nonce.modinv(&n)? * ((be(h) + &r * key) % &n) % &n;
    if s.is_zero() {
        return None;
    }
    let v = 27 + ry.bit(0) as u8;
    let (qx, qy) = k.mul(&g, key)?;
    let mut pk = to_be(&qx, 32);
    pk.extend_from_slice(&to_be(&qy, 32));
    let hash = crate::keccak::keccak256(&pk);
    let mut a = [0u8; 20];
    a.copy_from_slice(&hash[12..]);
    Some((r, s, v, a))
}

#[derive(Clone, Copy, PartialEq, Debug)]
pub enum ModexpFork {
    Byzantium,
    Berlin,
}

pub fn ref_modexp(input: &[u8], fork: ModexpFork) -> RefOut {
    let hdr = rpad(input, 96);
    let (bl, el, ml) = (be(&hdr[0..32]), be(&hdr[32..64]), be(&hdr[64..96]));
    let min_gas: u64 = if fork == ModexpFork::Berlin { 200 } else { 0 };
    let zero = BigUint::zero();
    if bl == zero && ml == zero {
        return RefOut { gas: Some(min_gas), val: RefVal::Output(vec![]) };
    }
    let body: &[u8] = if input.len() > 96 { &input[96..] } else { &[] };
    // first 32 bytes of the exponent (right-padded view of the data)
    let read = |off: &BigUint, len: usize| -> Vec<u8> {
        let mut v = vec![0u8; len];
        if let Ok(o) = usize::try_from(off.clone()) {
            for (i, b) in v.iter_mut().enumerate() {
                if let Some(x) = o.checked_add(i).and_then(|k| body.get(k)) {
                    *b = *x;
                }
            }
        }
        v
    };
    let el_head = if el > BigUint::from(32u8) { 32usize } else { usize::try_from(el.clone()).unwrap() };
    let exp_head = be(&read(&bl, el_head));
    let iter: BigUint = if el <= BigUint::from(32u8) {
        if exp_head.is_zero() { zero.clone() } else { BigUint::from(exp_head.bits() - 1) }
    } else {
        let extra = (&el - BigUint::from(32u8)) * BigUint::from(8u8);
        extra + if exp_head.is_zero() { zero.clone() } else { BigUint::from(exp_head.bits() - 1) }
    };
    let iter1 = if iter.is_zero() { BigUint::one() } else { iter };
    let maxlen = if bl > ml { bl.clone() } else { ml.clone() };
    let gas_big: BigUint = match fork {
        ModexpFork::Byzantium => {
            let x = &maxlen;
            let mc = if *x <= BigUint::from(64u8) {
                x * x
            } else if *x <= BigUint::from(1024u16) {
                x * x / BigUint::from(4u8) + BigUint::from(96u8) * x - BigUint::from(3072u16)
            } else {
                x * x / BigUint::from(16u8) + BigUint::from(480u16) * x - BigUint::from(199680u32)
            };
            mc * iter1 / BigUint::from(20u8)
        }
        ModexpFork::Berlin => {
            let w = (&maxlen + BigUint::from(7u8)) / BigUint::from(8u8);
            let g = &w * &w * iter1 / BigUint::from(3u8);
            if g < BigUint::from(200u8) { BigUint::from(200u8) } else { g }
        }
    };
    let Ok(gas) = u64::try_from(gas_big) else {
        // no 64-bit gas limit can pay
        return RefOut { gas: Some(u64::MAX), val: RefVal::Fail };
    };
    // lengths that can be paid for are small enough to materialise only if they fit in memory;
    // the generator keeps affordable lengths modest
    let (Ok(bl), Ok(el), Ok(ml)) = (usize::try_from(bl.clone()), usize::try_from(el.clone()), usize::try_from(ml.clone())) else {
        return RefOut { gas: Some(gas), val: RefVal::Unknown };
    };
    if bl > 1 << 20 || el > 1 << 20 || ml > 1 << 20 {
        return RefOut { gas: Some(gas), val: RefVal::Unknown };
    }
    let rd = |off: usize, len: usize| -> Vec<u8> { (0..len).map(|i| off.checked_add(i).and_then(|k| body.get(k)).copied().unwrap_or(0)).collect() };
    let b = be(&rd(0, bl));
    let e = be(&rd(bl, el));
    let m = be(&rd(bl + el, ml));
    let out = if m.is_zero() { vec![0u8; ml] } else { to_be(&b.modpow(&e, &m), ml) };
    RefOut { gas: Some(gas), val: RefVal::Output(out) }
}

fn bn_read_g1(c: &Curve, b: &[u8]) -> Result<P1, ()> {
    let (x, y) = (be(&b[0..32]), be(&b[32..64]));
    if x >= c.p || y >= c.p {
        return Err(());
    }
    if x.is_zero() && y.is_zero() {
        return Ok(None);
    }
    if !c.on_curve(&x, &y) {
        return Err(());
    }
    Ok(Some((x, y)))
}
pub fn bn_write_g1(p: &P1) -> Vec<u8> {
    match p {
        None => vec![0u8; 64],
        Some((x, y)) => {
            let mut o = to_be(x, 32);
            o.extend_from_slice(&to_be(y, 32));
            o
        }
    }
}

pub fn ref_bn_add(input: &[u8], istanbul: bool) -> RefOut {
    let gas = Some(if istanbul { 150 } else { 500 });
    let i = rpad(input, 128);
    let (c, _, _, _) = bn254();
    let (Ok(a), Ok(b)) = (bn_read_g1(&c, &i[0..64]), bn_read_g1(&c, &i[64..128])) else { return RefOut { gas, val: RefVal::Fail } };
    RefOut { gas, val: RefVal::Output(bn_write_g1(&c.add(&a, &b))) }
}
pub fn ref_bn_mul(input: &[u8], istanbul: bool) -> RefOut {
    let gas = Some(if istanbul { 6000 } else { 40000 });
    let i = rpad(input, 96);
    let (c, _, _, _) = bn254();
    let Ok(a) = bn_read_g1(&c, &i[0..64]) else { return RefOut { gas, val: RefVal::Fail } };
    let k = be(&i[64..96]);
    RefOut { gas, val: RefVal::Output(bn_write_g1(&c.mul(&a, &k))) }
}
/// pairing: cost and input validity are defined here; the value only for inputs whose product is
/// known by construction (`expected`)
pub fn ref_bn_pairing(input: &[u8], istanbul: bool, expected: Option<bool>) -> RefOut {
    let k = (input.len() / 192) as u64;
    let gas = Some(if istanbul { 45000 + 34000 * k } else { 100000 + 80000 * k });
    if input.len() % 192 != 0 {
        return RefOut { gas, val: RefVal::Fail };
    }
    let (c1, _, c2, _) = bn254();
    for ch in input.chunks(192) {
        if bn_read_g1(&c1, &ch[0..64]).is_err() {
            return RefOut { gas, val: RefVal::Fail };
        }
        // G2: x = x_im, x_re ; y = y_im, y_re
        let (xi, xr, yi, yr) = (be(&ch[64..96]), be(&ch[96..128]), be(&ch[128..160]), be(&ch[160..192]));
        if xi >= c2.p || xr >= c2.p || yi >= c2.p || yr >= c2.p {
            return RefOut { gas, val: RefVal::Fail };
        }
        if xi.is_zero() && xr.is_zero() && yi.is_zero() && yr.is_zero() {
            continue;
        }
        let (x, y) = ((xr, xi), (yr, yi));
        if !c2.on_curve(&x, &y) || !c2.in_subgroup(&Some((x, y))) {
            return RefOut { gas, val: RefVal::Fail };
        }
    }
    let val = match expected {
        Some(b) => {
            let mut o = vec![0u8; 32];
            o[31] = b as u8;
            RefVal::Output(o)
        }
        None => RefVal::Unknown,
    };
    if input.is_empty() {
        let mut o = vec![0u8; 32];
        o[31] = 1;
        return RefOut { gas, val: RefVal::Output(o) };
    }
    RefOut { gas, val }
}
pub fn bn_write_g2(p: &P2) -> Vec<u8> {
    match p {
        None => vec![0u8; 128],
        Some((x, y)) => {
            let mut o = to_be(&x.1, 32);
            o.extend_from_slice(&to_be(&x.0, 32));
            o.extend_from_slice(&to_be(&y.1, 32));
            o.extend_from_slice(&to_be(&y.0, 32));
            o
        }
    }
}

pub fn ref_blake2f(input: &[u8]) -> RefOut {
    if input.len() != 213 {
        return RefOut { gas: None, val: RefVal::Fail };
    }
    let rounds = u32::from_be_bytes([input[0], input[1], input[2], input[3]]);
    let gas = Some(rounds as u64);
    let f = input[212];
    if f > 1 {
        return RefOut { gas, val: RefVal::Fail };
    }
    let rd = |o: usize| u64::from_le_bytes(input[o..o + 8].try_into().unwrap());
    let mut h = [0u64; 8];
    for (i, x) in h.iter_mut().enumerate() {
        *x = rd(4 + 8 * i);
    }
    let mut m = [0u64; 16];
    for (i, x) in m.iter_mut().enumerate() {
        *x = rd(68 + 8 * i);
    }
    let t = [rd(196), rd(204)];
    blake2f(rounds, &mut h, &m, t, f == 1);
    let mut out = vec![];
    for x in h {
        out.extend_from_slice(&x.to_le_bytes());
    }
    RefOut { gas, val: RefVal::Output(out) }
}

// ---- KZG point evaluation --------------------------------------------------------------------
pub fn bls_modulus() -> BigUint {
    bu("73eda753299d7d483339d80809a1d80553bda402fffe5bfeffffffff00000001")
}
/// ZCash-style compressed G1 encoding
pub fn bls_compress_g1(p: &P1) -> Vec<u8> {
    let (c, _, _, _) = bls12_381();
    match p {
        None => {
            let mut o = vec![0u8; 48];
            o[0] = 0xc0;
            o
        }
        Some((x, y)) => {
            let mut o = to_be(x, 48);
            o[0] |= 0x80;
            let half = (&c.p - BigUint::one()) >> 1;
            if *y > half {
                o[0] |= 0x20;
            }
            o
        }
    }
}
pub fn kzg_success_output() -> Vec<u8> {
    let mut o = to_be(&BigUint::from(4096u32), 32);
    o.extend_from_slice(&to_be(&bls_modulus(), 32));
    o
}
/// `constant`: Some(c) when the caller built commitment = c*G1 and proof = infinity (the constant
/// polynomial), so the verdict is known: valid iff y == c
pub fn ref_kzg(input: &[u8], constant: Option<&BigUint>) -> RefOut {
    let gas = Some(50_000);
    if input.len() != 192 {
        return RefOut { gas, val: RefVal::Fail };
    }
    let (vh, z, y, commitment) = (&input[0..32], be(&input[32..64]), be(&input[64..96]), &input[96..144]);
    let mut want = sha256(commitment);
    want[0] = 0x01;
    if vh != want {
        return RefOut { gas, val: RefVal::Fail };
    }
    let m = bls_modulus();
    if z >= m || y >= m {
        return RefOut { gas, val: RefVal::Fail };
    }
    match constant {
        Some(c) => {
            if &y == c {
                RefOut { gas, val: RefVal::Output(kzg_success_output()) }
            } else {
                RefOut { gas, val: RefVal::Fail }
            }
        }
        None => RefOut { gas, val: RefVal::Unknown },
    }
}

// ---- EIP-2537 ---------------------------------------------------------------------------------
pub const G1_DISCOUNT: [u64; 128] = [
    1000, 949, 848, 797, 764, 750, 738, 728, 719, 712, 705, 698, 692, 687, 682, 677, 673, 669, 665, 661, 658, 654, 651, 648, 645, 642, 640, 637, 635, 632, 630, 627, 625, 623, 621, 619, 617, 615, 613, 611, 609, 608, 606, 604, 603, 601, 599,
    598, 596, 595, 593, 592, 591, 589, 588, 586, 585, 584, 582, 581, 580, 579, 577, 576, 575, 574, 573, 572, 570, 569, 568, 567, 566, 565, 564, 563, 562, 561, 560, 559, 558, 557, 556, 555, 554, 553, 552, 551, 550, 549, 548, 547, 547, 546,
    545, 544, 543, 542, 541, 540, 540, 539, 538, 537, 536, 536, 535, 534, 533, 532, 532, 531, 530, 529, 528, 528, 527, 526, 525, 525, 524, 523, 522, 522, 521, 520, 520, 519,
];
pub const G2_DISCOUNT: [u64; 128] = [
    1000, 1000, 923, 884, 855, 832, 812, 796, 782, 770, 759, 749, 740, 732, 724, 717, 711, 704, 699, 693, 688, 683, 679, 674, 670, 666, 663, 659, 655, 652, 649, 646, 643, 640, 637, 634, 632, 629, 627, 624, 622, 620, 618, 615, 613, 611,
    609, 607, 606, 604, 602, 600, 598, 597, 595, 593, 592, 590, 589, 587, 586, 584, 583, 582, 580, 579, 578, 576, 575, 574, 573, 571, 570, 569, 568, 567, 566, 565, 563, 562, 561, 560, 559, 558, 557, 556, 555, 554, 553, 552, 552, 551, 550,
    549, 548, 547, 546, 545, 545, 544, 543, 542, 541, 541, 540, 539, 538, 537, 537, 536, 535, 535, 534, 533, 532, 532, 531, 530, 530, 529, 528, 528, 527, 526, 526, 525, 524, 524,
];
pub fn msm_gas(k: usize, table: &[u64; 128], mul_cost: u64) -> u64 {
    if k == 0 {
        return 0;
    }
    let d = table[(k - 1).min(127)];
    k as u64 * d * mul_cost / 1000
}

fn bls_read_fp(b: &[u8], p: &BigUint) -> Result<BigUint, ()> {
    if b[..16].iter().any(|x| *x != 0) {
        return Err(());
    }
    let v = be(&b[16..64]);
    if &v >= p {
        return Err(());
    }
    Ok(v)
}
pub fn bls_read_g1(b: &[u8], subgroup: bool) -> Result<P1, ()> {
    let (c, _, _, _) = bls12_381();
    let (x, y) = (bls_read_fp(&b[0..64], &c.p)?, bls_read_fp(&b[64..128], &c.p)?);
    if x.is_zero() && y.is_zero() {
        return Ok(None);
    }
    if !c.on_curve(&x, &y) {
        return Err(());
    }
    let pt = Some((x, y));
    if subgroup && !c.in_subgroup(&pt) {
        return Err(());
    }
    Ok(pt)
}
pub fn bls_write_g1(p: &P1) -> Vec<u8> {
    match p {
        None => vec![0u8; 128],
        Some((x, y)) => {
            let mut o = to_be(x, 64);
            o.extend_from_slice(&to_be(y, 64));
            o
        }
    }
}
pub fn bls_read_g2(b: &[u8], subgroup: bool) -> Result<P2, ()> {
    let (_, _, c, _) = bls12_381();
    let x = (bls_read_fp(&b[0..64], &c.p)?, bls_read_fp(&b[64..128], &c.p)?);
    let y = (bls_read_fp(&b[128..192], &c.p)?, bls_read_fp(&b[192..256], &c.p)?);
    if Curve2::f_is_zero(&x) && Curve2::f_is_zero(&y) {
        return Ok(None);
    }
    if !c.on_curve(&x, &y) {
        return Err(());
    }
    let pt = Some((x, y));
    if subgroup && !c.in_subgroup(&pt) {
        return Err(());
    }
    Ok(pt)
}
pub fn bls_write_g2(p: &P2) -> Vec<u8> {
    match p {
        None => vec![0u8; 256],
        Some((x, y)) => {
            let mut o = to_be(&x.0, 64);
            o.extend_from_slice(&to_be(&x.1, 64));
            o.extend_from_slice(&to_be(&y.0, 64));
            o.extend_from_slice(&to_be(&y.1, 64));
            o
        }
    }
}
pub fn ref_bls_g1add(input: &[u8]) -> RefOut {
    let gas = Some(375);
    if input.len() != 256 {
        return RefOut { gas: None, val: RefVal::Fail };
    }
    let (c, _, _, _) = bls12_381();
    let (Ok(a), Ok(b)) = (bls_read_g1(&input[0..128], false), bls_read_g1(&input[128..256], false)) else { return RefOut { gas, val: RefVal::Fail } };
    RefOut { gas, val: RefVal::Output(bls_write_g1(&c.add(&a, &b))) }
}
pub fn ref_bls_g1msm(input: &[u8]) -> RefOut {
    if input.is_empty() || input.len() % 160 != 0 {
        return RefOut { gas: None, val: RefVal::Fail };
    }
    let k = input.len() / 160;
    let gas = Some(msm_gas(k, &G1_DISCOUNT, 12000));
    let (c, _, _, _) = bls12_381();
    let mut acc: P1 = None;
    for ch in input.chunks(160) {
        let Ok(p) = bls_read_g1(&ch[0..128], true) else { return RefOut { gas, val: RefVal::Fail } };
        acc = c.add(&acc, &c.mul(&p, &be(&ch[128..160])));
    }
    RefOut { gas, val: RefVal::Output(bls_write_g1(&acc)) }
}
pub fn ref_bls_g2add(input: &[u8]) -> RefOut {
    let gas = Some(600);
    if input.len() != 512 {
        return RefOut { gas: None, val: RefVal::Fail };
    }
    let (_, _, c, _) = bls12_381();
    let (Ok(a), Ok(b)) = (bls_read_g2(&input[0..256], false), bls_read_g2(&input[256..512], false)) else { return RefOut { gas, val: RefVal::Fail } };
    RefOut { gas, val: RefVal::Output(bls_write_g2(&c.add(&a, &b))) }
}
pub fn ref_bls_g2msm(input: &[u8]) -> RefOut {
    if input.is_empty() || input.len() % 288 != 0 {
        return RefOut { gas: None, val: RefVal::Fail };
    }
    let k = input.len() / 288;
    let gas = Some(msm_gas(k, &G2_DISCOUNT, 22500));
    let (_, _, c, _) = bls12_381();
    let mut acc: P2 = None;
    for ch in input.chunks(288) {
        let Ok(p) = bls_read_g2(&ch[0..256], true) else { return RefOut { gas, val: RefVal::Fail } };
        acc = c.add(&acc, &c.mul(&p, &be(&ch[256..288])));
    }
    RefOut { gas, val: RefVal::Output(bls_write_g2(&acc)) }
}
pub fn ref_bls_pairing(input: &[u8], expected: Option<bool>) -> RefOut {
    if input.is_empty() || input.len() % 384 != 0 {
        return RefOut { gas: None, val: RefVal::Fail };
    }
    let k = (input.len() / 384) as u64;
    let gas = Some(32600 * k + 37700);
    for ch in input.chunks(384) {
        if bls_read_g1(&ch[0..128], true).is_err() || bls_read_g2(&ch[128..384], true).is_err() {
            return RefOut { gas, val: RefVal::Fail };
        }
    }
    let val = match expected {
        Some(b) => {
            let mut o = vec![0u8; 32];
            o[31] = b as u8;
            RefVal::Output(o)
        }
        None => RefVal::Unknown,
    };
    RefOut { gas, val }
}
/// map-to-curve: cost and input validity; the value is checked structurally by the caller
pub fn ref_bls_map_fp(input: &[u8]) -> RefOut {
    if input.len() != 64 {
        return RefOut { gas: None, val: RefVal::Fail };
    }
    let (c, _, _, _) = bls12_381();
    if bls_read_fp(input, &c.p).is_err() {
        return RefOut { gas: Some(5500), val: RefVal::Fail };
    }
    RefOut { gas: Some(5500), val: RefVal::Unknown }
}
pub fn ref_bls_map_fp2(input: &[u8]) -> RefOut {
    if input.len() != 128 {
        return RefOut { gas: None, val: RefVal::Fail };
    }
    let (c, _, _, _) = bls12_381();
    if bls_read_fp(&input[0..64], &c.p).is_err() || bls_read_fp(&input[64..128], &c.p).is_err() {
        return RefOut { gas: Some(23800), val: RefVal::Fail };
    }
    RefOut { gas: Some(23800), val: RefVal::Unknown }
}
