//! S2 worldgen: worlds (pre-states), block environments, transactions and EVM programs.
//! Everything is plain data with a JSON form so that a violating case is a self-contained replay.
use crate::fw::*;
use crate::interp::*;
use revm_primitives::{Address, SpecId, B256, U256};
use serde_json::{json, Value};
use std::collections::BTreeMap;

// ------------------------------------------------------------------------------------------------
// data
// ------------------------------------------------------------------------------------------------

#[derive(Clone, Debug, Default, PartialEq, Eq)]
pub struct Acct {
    pub balance: U256,
    pub nonce: u64,
    pub code: Vec<u8>,
    pub storage: BTreeMap<U256, U256>,
}

impl Acct {
    pub fn is_empty(&self) -> bool {
        self.balance.is_zero() && self.nonce == 0 && self.code.is_empty()
    }
}

#[derive(Clone, Debug, Default, PartialEq, Eq)]
pub struct World {
    pub accounts: BTreeMap<Address, Acct>,
    pub block_hashes: BTreeMap<u64, B256>,
}

#[derive(Clone, Debug, PartialEq, Eq)]
pub struct AuthSpec {
    pub chain_id: u64,
    pub address: Address,
    pub nonce: u64,
    /// None = signature does not recover
    pub authority: Option<Address>,
}

#[derive(Clone, Debug, PartialEq, Eq)]
pub struct TxSpec {
    pub caller: Address,
    pub to: Option<Address>,
    pub value: U256,
    pub data: Vec<u8>,
    pub gas_limit: u64,
    pub gas_price: U256,
    pub priority_fee: Option<U256>,
    pub nonce: Option<u64>,
    pub chain_id: Option<u64>,
    pub access_list: Vec<(Address, Vec<U256>)>,
    pub blob_hashes: Vec<B256>,
    pub max_fee_per_blob_gas: Option<U256>,
    pub auth_list: Option<Vec<AuthSpec>>,
}

impl Default for TxSpec {
    fn default() -> Self {
        TxSpec {
            caller: SENDER1,
            to: Some(C1),
            value: U256::ZERO,
            data: vec![],
            gas_limit: 1_000_000,
            gas_price: U256::from(10u64),
            priority_fee: None,
            nonce: None,
            chain_id: None,
            access_list: vec![],
            blob_hashes: vec![],
            max_fee_per_blob_gas: None,
            auth_list: None,
        }
    }
}

#[derive(Clone, Debug, PartialEq, Eq)]
pub struct BlockSpec {
    pub number: u64,
    pub coinbase: Address,
    pub timestamp: u64,
    pub gas_limit: u64,
    pub basefee: u64,
    pub difficulty: U256,
    pub prevrandao: B256,
    pub excess_blob_gas: u64,
}

impl Default for BlockSpec {
    fn default() -> Self {
        BlockSpec {
            number: 1000,
            coinbase: COINBASE,
            timestamp: 1_700_000_000,
            gas_limit: 100_000_000,
            basefee: 7,
            difficulty: U256::from(0x20000u64),
            prevrandao: B256::repeat_byte(0x77),
            excess_blob_gas: 0,
        }
    }
}

#[derive(Clone, Debug, PartialEq, Eq)]
pub struct Case {
    pub spec: SpecId,
    pub world: World,
    pub block: BlockSpec,
    pub txs: Vec<TxSpec>,
}

// ------------------------------------------------------------------------------------------------
// address pool
// ------------------------------------------------------------------------------------------------

pub const fn addr(last2: u16) -> Address {
    let mut b = [0u8; 20];
    b[0] = 0x10;
    b[18] = (last2 >> 8) as u8;
    b[19] = last2 as u8;
    Address::new(b)
}

pub const SENDER1: Address = addr(0xa1);
pub const SENDER2: Address = addr(0xa2);
pub const C1: Address = addr(0xc1);
pub const C2: Address = addr(0xc2);
pub const C3: Address = addr(0xc3);
pub const C4: Address = addr(0xc4);
pub const C5: Address = addr(0xc5);
pub const EMPTY_EXISTING: Address = addr(0xe1);
pub const STORAGE_ONLY: Address = addr(0xd1);
pub const DELEGATED: Address = addr(0xb1);
pub const NONEXISTENT: Address = addr(0xf1);
pub const COINBASE: Address = addr(0xcb);
pub const RICH: Address = addr(0xee);

pub const CONTRACTS: [Address; 5] = [C1, C2, C3, C4, C5];

pub fn precompile(n: u8) -> Address {
    Address::with_last_byte(n)
}

/// addresses that programs name as call/balance/selfdestruct targets
pub fn target_pool() -> Vec<Address> {
    let mut v = vec![C1, C2, C3, C4, C5, SENDER1, SENDER2, EMPTY_EXISTING, STORAGE_ONLY, DELEGATED, NONEXISTENT, COINBASE, RICH];
    for p in [1u8, 2, 3, 4, 5, 6, 9, 10, 11] {
        v.push(precompile(p));
    }
    v
}

// ------------------------------------------------------------------------------------------------
// JSON
// ------------------------------------------------------------------------------------------------

pub fn u256_hex(x: &U256) -> String {
    format!("{:#x}", x)
}
pub fn parse_u256(s: &str) -> U256 {
    U256::from_str_radix(s.trim_start_matches("0x"), 16).expect("u256 hex")
}
pub fn parse_addr(s: &str) -> Address {
    Address::from_slice(&unhex(s))
}
pub fn addr_hex(a: &Address) -> String {
    hex(a.as_slice())
}

impl World {
    pub fn to_json(&self) -> Value {
        let mut m = serde_json::Map::new();
        for (a, acc) in &self.accounts {
            let st: serde_json::Map<String, Value> = acc.storage.iter().map(|(k, v)| (u256_hex(k), json!(u256_hex(v)))).collect();
            m.insert(addr_hex(a), json!({"balance": u256_hex(&acc.balance), "nonce": acc.nonce, "code": hex(&acc.code), "storage": st}));
        }
        let bh: serde_json::Map<String, Value> = self.block_hashes.iter().map(|(k, v)| (k.to_string(), json!(hex(v.as_slice())))).collect();
        json!({"accounts": m, "block_hashes": bh})
    }
    pub fn from_json(v: &Value) -> World {
        let mut w = World::default();
        for (a, acc) in v["accounts"].as_object().unwrap() {
            let mut st = BTreeMap::new();
            for (k, x) in acc["storage"].as_object().unwrap() {
                st.insert(parse_u256(k), parse_u256(x.as_str().unwrap()));
            }
            w.accounts.insert(parse_addr(a), Acct { balance: parse_u256(acc["balance"].as_str().unwrap()), nonce: acc["nonce"].as_u64().unwrap(), code: unhex(acc["code"].as_str().unwrap()), storage: st });
        }
        if let Some(bh) = v["block_hashes"].as_object() {
            for (k, x) in bh {
                w.block_hashes.insert(k.parse().unwrap(), B256::from_slice(&unhex(x.as_str().unwrap())));
            }
        }
        w
    }
    /// exact sum of all balances
    pub fn total_balance(&self) -> num_bigint::BigUint {
        let mut s = num_bigint::BigUint::from(0u32);
        for a in self.accounts.values() {
            s += num_bigint::BigUint::from_bytes_be(&a.balance.to_be_bytes::<32>());
        }
        s
    }
}

impl TxSpec {
    pub fn to_json(&self) -> Value {
        json!({
            "caller": addr_hex(&self.caller),
            "to": self.to.map(|a| addr_hex(&a)),
            "value": u256_hex(&self.value),
            "data": hex(&self.data),
            "gas_limit": self.gas_limit,
            "gas_price": u256_hex(&self.gas_price),
            "priority_fee": self.priority_fee.map(|x| u256_hex(&x)),
            "nonce": self.nonce,
            "chain_id": self.chain_id,
            "access_list": self.access_list.iter().map(|(a, ks)| json!([addr_hex(a), ks.iter().map(u256_hex).collect::<Vec<_>>()])).collect::<Vec<_>>(),
            "blob_hashes": self.blob_hashes.iter().map(|h| hex(h.as_slice())).collect::<Vec<_>>(),
            "max_fee_per_blob_gas": self.max_fee_per_blob_gas.map(|x| u256_hex(&x)),
            "auth_list": self.auth_list.as_ref().map(|l| l.iter().map(|a| json!({"chain_id": a.chain_id, "address": addr_hex(&a.address), "nonce": a.nonce, "authority": a.authority.map(|x| addr_hex(&x))})).collect::<Vec<_>>()),
        })
    }
    pub fn from_json(v: &Value) -> TxSpec {
        let optu = |x: &Value| x.as_str().map(parse_u256);
        TxSpec {
            caller: parse_addr(v["caller"].as_str().unwrap()),
            to: v["to"].as_str().map(parse_addr),
            value: parse_u256(v["value"].as_str().unwrap()),
            data: unhex(v["data"].as_str().unwrap()),
            gas_limit: v["gas_limit"].as_u64().unwrap(),
            gas_price: parse_u256(v["gas_price"].as_str().unwrap()),
            priority_fee: optu(&v["priority_fee"]),
            nonce: v["nonce"].as_u64(),
            chain_id: v["chain_id"].as_u64(),
            access_list: v["access_list"].as_array().unwrap().iter().map(|e| (parse_addr(e[0].as_str().unwrap()), e[1].as_array().unwrap().iter().map(|k| parse_u256(k.as_str().unwrap())).collect())).collect(),
            blob_hashes: v["blob_hashes"].as_array().unwrap().iter().map(|h| B256::from_slice(&unhex(h.as_str().unwrap()))).collect(),
            max_fee_per_blob_gas: optu(&v["max_fee_per_blob_gas"]),
            auth_list: v["auth_list"].as_array().map(|l| l.iter().map(|a| AuthSpec { chain_id: a["chain_id"].as_u64().unwrap(), address: parse_addr(a["address"].as_str().unwrap()), nonce: a["nonce"].as_u64().unwrap(), authority: a["authority"].as_str().map(parse_addr) }).collect()),
        }
    }
}

impl BlockSpec {
    pub fn to_json(&self) -> Value {
        json!({"number": self.number, "coinbase": addr_hex(&self.coinbase), "timestamp": self.timestamp, "gas_limit": self.gas_limit, "basefee": self.basefee, "difficulty": u256_hex(&self.difficulty), "prevrandao": hex(self.prevrandao.as_slice()), "excess_blob_gas": self.excess_blob_gas})
    }
    pub fn from_json(v: &Value) -> BlockSpec {
        BlockSpec {
            number: v["number"].as_u64().unwrap(),
            coinbase: parse_addr(v["coinbase"].as_str().unwrap()),
            timestamp: v["timestamp"].as_u64().unwrap(),
            gas_limit: v["gas_limit"].as_u64().unwrap(),
            basefee: v["basefee"].as_u64().unwrap(),
            difficulty: parse_u256(v["difficulty"].as_str().unwrap()),
            prevrandao: B256::from_slice(&unhex(v["prevrandao"].as_str().unwrap())),
            excess_blob_gas: v["excess_blob_gas"].as_u64().unwrap(),
        }
    }
}

impl Case {
    pub fn to_json(&self) -> Value {
        json!({"spec": spec_name(self.spec), "world": self.world.to_json(), "block": self.block.to_json(), "txs": self.txs.iter().map(|t| t.to_json()).collect::<Vec<_>>()})
    }
    pub fn from_json(v: &Value) -> Case {
        Case {
            spec: spec_from_name(v["spec"].as_str().unwrap()).unwrap(),
            world: World::from_json(&v["world"]),
            block: BlockSpec::from_json(&v["block"]),
            txs: v["txs"].as_array().unwrap().iter().map(TxSpec::from_json).collect(),
        }
    }
    pub fn hash(&self) -> u64 {
        hash64(self.to_json().to_string().as_bytes())
    }
}

// ------------------------------------------------------------------------------------------------
// assembler
// ------------------------------------------------------------------------------------------------

#[derive(Clone, Default)]
pub struct Asm {
    pub code: Vec<u8>,
    fixups: Vec<(usize, usize)>, // (position of 2-byte immediate, label id)
    labels: Vec<Option<usize>>,
}

impl Asm {
    pub fn new() -> Self {
        Self::default()
    }
    pub fn op(&mut self, b: u8) -> &mut Self {
        self.code.push(b);
        self
    }
    pub fn ops(&mut self, bs: &[u8]) -> &mut Self {
        self.code.extend_from_slice(bs);
        self
    }
    /// minimal-width PUSH of a value (PUSH1 0 for zero; PUSH0 is never used implicitly)
    pub fn push(&mut self, v: U256) -> &mut Self {
        let bytes = v.to_be_bytes::<32>();
        let lead = bytes.iter().position(|b| *b != 0).unwrap_or(31);
        let n = 32 - lead;
        self.code.push(0x5f + n as u8);
        self.code.extend_from_slice(&bytes[lead..]);
        self
    }
    pub fn push_u(&mut self, v: u64) -> &mut Self {
        self.push(U256::from(v))
    }
    pub fn push32(&mut self, v: U256) -> &mut Self {
        self.code.push(0x7f);
        self.code.extend_from_slice(&v.to_be_bytes::<32>());
        self
    }
    pub fn push_addr(&mut self, a: Address) -> &mut Self {
        self.code.push(0x73);
        self.code.extend_from_slice(a.as_slice());
        self
    }
    pub fn new_label(&mut self) -> usize {
        self.labels.push(None);
        self.labels.len() - 1
    }
    /// PUSH2 <label>
    pub fn push_label(&mut self, l: usize) -> &mut Self {
        self.code.push(0x61);
        self.fixups.push((self.code.len(), l));
        self.code.extend_from_slice(&[0, 0]);
        self
    }
    /// JUMPDEST at label
    pub fn place(&mut self, l: usize) -> &mut Self {
        self.labels[l] = Some(self.code.len());
        self.code.push(0x5b);
        self
    }
    pub fn finish(mut self) -> Vec<u8> {
        for (pos, l) in &self.fixups {
            let t = self.labels[*l].unwrap_or(0xffff);
            self.code[*pos] = (t >> 8) as u8;
            self.code[*pos + 1] = t as u8;
        }
        self.code
    }
    pub fn len(&self) -> usize {
        self.code.len()
    }
}

/// init code that deploys `runtime`: CODECOPY the tail and RETURN it
pub fn initcode_returning(runtime: &[u8]) -> Vec<u8> {
    initcode_with_prefix(&[], runtime)
}

/// `prefix` (constructor body) followed by the CODECOPY/RETURN tail that deploys `runtime`
pub fn initcode_with_prefix(prefix: &[u8], runtime: &[u8]) -> Vec<u8> {
    let mut c = prefix.to_vec();
    let tail = initcode_returning_at(runtime, prefix.len());
    c.extend(tail);
    c
}

fn initcode_returning_at(runtime: &[u8], base: usize) -> Vec<u8> {
    let mut a = Asm::new();
    // PUSH2 len PUSH2 off PUSH1 0 CODECOPY PUSH2 len PUSH1 0 RETURN  (off patched below)
    let len = runtime.len();
    a.op(0x61).ops(&[(len >> 8) as u8, len as u8]);
    a.op(0x61).ops(&[0, 0]);
    a.push_u(0).op(0x39);
    a.op(0x61).ops(&[(len >> 8) as u8, len as u8]);
    a.push_u(0).op(0xf3);
    let mut c = a.finish();
    let off = base + c.len();
    c[4] = (off >> 8) as u8;
    c[5] = off as u8;
    c.extend_from_slice(runtime);
    c
}

// ------------------------------------------------------------------------------------------------
// value pools
// ------------------------------------------------------------------------------------------------

pub fn boundary_balance(rng: &mut Rng) -> U256 {
    match rng.below(12) {
        0 => U256::ZERO,
        1 => U256::from(1u8),
        2 => U256::from(1u8) << 64,
        3 => U256::from(1u8) << 128,
        4 => U256::from(1u8) << 255,
        5 => U256::MAX,
        6 => U256::MAX - U256::from(rng.below(1000)),
        7 => U256::from(rng.below(1_000_000)),
        _ => U256::from(10u64).pow(U256::from(18u8)) * U256::from(rng.below(1000) + 1),
    }
}

pub fn small_value(rng: &mut Rng) -> U256 {
    match rng.below(8) {
        0 | 1 | 2 => U256::ZERO,
        3 => U256::from(1u8),
        4 => U256::from(rng.below(1000)),
        5 => U256::from(10u64).pow(U256::from(18u8)),
        6 => U256::MAX,
        _ => U256::from(rng.next()),
    }
}

pub fn word(rng: &mut Rng) -> U256 {
    match rng.below(8) {
        0 => U256::ZERO,
        1 => U256::from(1u8),
        2 => U256::MAX,
        3 => U256::from(rng.below(256)),
        4 => U256::from(1u8) << (rng.below(256) as usize),
        _ => U256::from_be_bytes(rng.b32()),
    }
}

// ------------------------------------------------------------------------------------------------
// program generator
// ------------------------------------------------------------------------------------------------

/// which feature groups a shard's generator may use (swarm testing)
#[derive(Clone, Debug)]
pub struct Features {
    pub calls: bool,
    pub creates: bool,
    pub selfdestruct: bool,
    pub storage: bool,
    pub transient: bool,
    pub logs: bool,
    pub memory: bool,
    pub env: bool,
    pub ext: bool,
    pub control: bool,
    pub arith: bool,
    pub precompiles: bool,
    pub raw: bool,
    /// may programs name the sender / coinbase (fee parties) as targets
    pub fee_parties: bool,
    /// newest fork whose opcodes may be emitted deliberately (raw bytes ignore this)
    pub max_fork: SpecId,
}

impl Features {
    pub fn all(spec: SpecId) -> Self {
        Features { calls: true, creates: true, selfdestruct: true, storage: true, transient: true, logs: true, memory: true, env: true, ext: true, control: true, arith: true, precompiles: true, raw: true, fee_parties: true, max_fork: spec }
    }
    /// disable roughly a third of the groups
    pub fn swarm(rng: &mut Rng, spec: SpecId) -> Self {
        let mut f = Self::all(spec);
        let mut flip = |b: &mut bool| {
            if rng.chance(1, 3) {
                *b = false
            }
        };
        flip(&mut f.calls);
        flip(&mut f.creates);
        flip(&mut f.selfdestruct);
        flip(&mut f.storage);
        flip(&mut f.transient);
        flip(&mut f.logs);
        flip(&mut f.memory);
        flip(&mut f.env);
        flip(&mut f.ext);
        flip(&mut f.control);
        flip(&mut f.arith);
        flip(&mut f.precompiles);
        flip(&mut f.raw);
        f.fee_parties = rng.chance(1, 2);
        f
    }
}

fn pool_addr(rng: &mut Rng, f: &Features) -> Address {
    let pool = target_pool();
    loop {
        let a = if !f.precompiles { pool[rng.usize(13)] } else { *rng.pick(&pool) };
        if !f.fee_parties && (a == SENDER1 || a == SENDER2 || a == COINBASE) {
            continue;
        }
        return a;
    }
}

fn mem_off(rng: &mut Rng) -> U256 {
    match rng.below(12) {
        0..=6 => U256::from(rng.below(4) * 32),
        7 | 8 => U256::from(rng.below(300)),
        9 => U256::from(rng.below(1 << 16)),
        10 => U256::from(1u64 << 24),
        _ => word(rng),
    }
}

fn mem_len(rng: &mut Rng) -> U256 {
    match rng.below(12) {
        0..=2 => U256::ZERO,
        3..=7 => U256::from(rng.below(3) * 32 + 32),
        8 => U256::from(rng.below(200)),
        9 => U256::from(rng.below(1 << 14)),
        10 => U256::from(1u64 << 30),
        _ => word(rng),
    }
}

fn gas_arg(rng: &mut Rng) -> U256 {
    match rng.below(8) {
        0 => U256::ZERO,
        1 => U256::from(2300u64),
        2 => U256::from(rng.below(50_000)),
        3 => U256::from(100_000u64),
        4 => U256::MAX,
        5 => U256::from(u64::MAX),
        _ => U256::from(1_000_000u64),
    }
}

/// one init code from the menu; `depth` bounds nesting
pub fn gen_initcode(rng: &mut Rng, f: &Features, depth: u32) -> Vec<u8> {
    match rng.below(12) {
        0 | 1 | 2 => {
            let rt = gen_program(rng, f, depth + 1, 24);
            initcode_returning(&rt)
        }
        3 => vec![0x60, 0x00, 0x60, 0x00, 0xfd],                   // REVERT(0,0)
        4 => vec![0xfe],                                           // INVALID
        5 => vec![0x60, 0xef, 0x60, 0x00, 0x53, 0x60, 0x01, 0x60, 0x00, 0xf3], // returns 0xEF
        6 => vec![0x61, 0x60, 0x01, 0x60, 0x00, 0xf3],             // returns 24577 zero bytes
        7 => {
            let mut a = Asm::new();
            a.push_addr(pool_addr(rng, f)).op(0xff);
            a.finish()
        }
        8 => {
            let mut a = Asm::new();
            a.push(word(rng)).push_u(rng.below(3)).op(0x55);
            initcode_with_prefix(&a.finish(), &[0x60, 0x01, 0x60, 0x00, 0x55, 0x00])
        }
        9 => vec![],
        10 => vec![0x00],
        _ => {
            // init code is itself a generated program (may call, create, selfdestruct, return junk)
            gen_program(rng, f, depth + 1, 16)
        }
    }
}

fn after_result(a: &mut Asm, rng: &mut Rng, f: &Features) {
    // what to do with one value on the stack
    match rng.below(6) {
        0 | 1 if f.storage => {
            a.push_u(rng.below(4)).op(0x55);
        }
        2 if f.memory => {
            a.push_u(rng.below(4) * 32).op(0x52);
        }
        3 => { /* leave it on the stack */ }
        _ => {
            a.op(0x50);
        }
    }
}

fn emit_call(a: &mut Asm, rng: &mut Rng, f: &Features, spec: SpecId) {
    let kind = match rng.below(10) {
        0..=3 => 0xf1u8,
        4 => 0xf2,
        5 | 6 if spec >= SpecId::HOMESTEAD => 0xf4,
        7 | 8 if spec >= SpecId::BYZANTIUM => 0xfa,
        _ => 0xf1,
    };
    let target = pool_addr(rng, f);
    // args pushed in reverse: outLen outOff inLen inOff [value] addr gas
    let out_len = if rng.chance(1, 2) { U256::from(rng.below(3) * 32) } else { mem_len(rng) };
    a.push(out_len);
    a.push(mem_off(rng));
    let in_len = if rng.chance(2, 3) { U256::from(rng.below(5) * 32) } else { mem_len(rng) };
    a.push(in_len);
    a.push(mem_off(rng));
    if kind == 0xf1 || kind == 0xf2 {
        a.push(small_value(rng));
    }
    a.push_addr(target);
    if rng.chance(1, 3) {
        a.op(0x5a); // GAS
    } else {
        a.push(gas_arg(rng));
    }
    a.op(kind);
    after_result(a, rng, f);
    if spec >= SpecId::BYZANTIUM && rng.chance(1, 3) {
        // RETURNDATASIZE / RETURNDATACOPY (possibly out of bounds)
        a.op(0x3d);
        after_result(a, rng, f);
        if rng.chance(1, 2) {
            a.push(mem_len(rng)).push_u(rng.below(40)).push(mem_off(rng)).op(0x3e);
        }
    }
}

fn emit_create(a: &mut Asm, rng: &mut Rng, f: &Features, spec: SpecId, depth: u32) {
    let init = if depth >= 2 { vec![0x00] } else { gen_initcode(rng, f, depth) };
    // write init code to memory at 0 with MSTOREs of 32-byte chunks
    let mut off = 0usize;
    for chunk in init.chunks(32) {
        let mut w = [0u8; 32];
        w[..chunk.len()].copy_from_slice(chunk);
        a.push32(U256::from_be_bytes(w)).push_u(off as u64).op(0x52);
        off += 32;
    }
    let use2 = spec >= SpecId::CONSTANTINOPLE && rng.chance(1, 2);
    if use2 {
        a.push_u(rng.below(3)); // salt
    }
    let len = if rng.chance(1, 10) { mem_len(rng) } else { U256::from(init.len()) };
    a.push(len).push_u(0).push(small_value(rng));
    a.op(if use2 { 0xf5 } else { 0xf0 });
    if rng.chance(1, 3) && f.calls {
        // call what was just created: DUP1 as address
        a.op(0x80);
        a.push_u(0).push_u(0).push_u(0).push_u(0).push_u(0);
        a.op(0x85); // DUP6 -> address
        a.push_u(100_000).op(0xf1).op(0x50);
    }
    after_result(a, rng, f);
}

/// Generate one program. `budget` ~ number of statements.
pub fn gen_program(rng: &mut Rng, f: &Features, depth: u32, budget: usize) -> Vec<u8> {
    let spec = f.max_fork;
    if f.raw && rng.chance(1, 12) {
        return rng.bytes_below(120);
    }
    let mut a = Asm::new();
    let n = rng.range(1, budget as u64) as usize;
    let mut pending_label: Option<usize> = None;
    for _ in 0..n {
        match rng.below(22) {
            0 | 1 if f.storage => {
                // SSTORE ladder step
                let v = match rng.below(4) {
                    0 => U256::ZERO,
                    1 => U256::from(1u8),
                    2 => U256::from(2u8),
                    _ => word(rng),
                };
                a.push(v).push_u(rng.below(4)).op(0x55);
            }
            2 if f.storage => {
                a.push_u(rng.below(5)).op(0x54);
                after_result(&mut a, rng, f);
            }
            3 if f.transient && spec >= SpecId::CANCUN => {
                if rng.chance(1, 2) {
                    a.push(word(rng)).push_u(rng.below(3)).op(0x5d);
                } else {
                    a.push_u(rng.below(3)).op(0x5c);
                    after_result(&mut a, rng, f);
                }
            }
            4 | 5 if f.memory => match rng.below(6) {
                0 => {
                    a.push(word(rng)).push(mem_off(rng)).op(0x52);
                }
                1 => {
                    a.push(word(rng)).push(mem_off(rng)).op(0x53);
                }
                2 => {
                    a.push(mem_off(rng)).op(0x51);
                    after_result(&mut a, rng, f);
                }
                3 => {
                    a.push(mem_len(rng)).push(mem_off(rng)).op(0x20);
                    after_result(&mut a, rng, f);
                }
                4 if spec >= SpecId::CANCUN => {
                    a.push(mem_len(rng)).push(mem_off(rng)).push(mem_off(rng)).op(0x5e);
                }
                _ => {
                    a.op(0x59);
                    after_result(&mut a, rng, f);
                }
            },
            6 if f.logs => {
                let k = rng.below(5) as u8;
                for _ in 0..k {
                    a.push(word(rng));
                }
                a.push(mem_len(rng).min(U256::from(200u64))).push(mem_off(rng)).op(0xa0 + k);
            }
            7 | 8 if f.ext => {
                let t = pool_addr(rng, f);
                match rng.below(4) {
                    0 => {
                        a.push_addr(t).op(0x31);
                        after_result(&mut a, rng, f);
                    }
                    1 => {
                        a.push_addr(t).op(0x3b);
                        after_result(&mut a, rng, f);
                    }
                    2 if spec >= SpecId::CONSTANTINOPLE => {
                        a.push_addr(t).op(0x3f);
                        after_result(&mut a, rng, f);
                    }
                    _ => {
                        a.push(mem_len(rng).min(U256::from(300u64))).push_u(rng.below(40)).push(mem_off(rng)).push_addr(t).op(0x3c);
                    }
                }
            }
            9 | 10 | 11 if f.calls => emit_call(&mut a, rng, f, spec),
            12 if f.creates && depth < 3 => emit_create(&mut a, rng, f, spec, depth),
            13 if f.env => {
                let ops: &[u8] = &[0x30, 0x32, 0x33, 0x34, 0x36, 0x38, 0x3a, 0x41, 0x42, 0x43, 0x44, 0x45, 0x58, 0x5a];
                let mut o = *rng.pick(ops);
                if rng.chance(1, 4) {
                    o = match rng.below(6) {
                        0 if spec >= SpecId::ISTANBUL => 0x46,
                        1 if spec >= SpecId::ISTANBUL => 0x47,
                        2 if spec >= SpecId::LONDON => 0x48,
                        3 if spec >= SpecId::CANCUN => 0x4a,
                        4 if spec >= SpecId::SHANGHAI => 0x5f,
                        _ => o,
                    };
                }
                a.op(o);
                after_result(&mut a, rng, f);
            }
            14 if f.env => match rng.below(5) {
                0 => {
                    a.push(mem_off(rng)).op(0x35);
                    after_result(&mut a, rng, f);
                }
                1 => {
                    a.push(mem_len(rng).min(U256::from(300u64))).push_u(rng.below(80)).push(mem_off(rng)).op(0x37);
                }
                2 => {
                    a.push(mem_len(rng).min(U256::from(300u64))).push_u(rng.below(80)).push(mem_off(rng)).op(0x39);
                }
                3 => {
                    let n = match rng.below(4) {
                        0 => 999u64,
                        1 => 1000,
                        2 => 1000 - 256,
                        _ => 1000 - rng.below(300),
                    };
                    a.push_u(n).op(0x40);
                    after_result(&mut a, rng, f);
                }
                _ if spec >= SpecId::CANCUN => {
                    a.push_u(rng.below(4)).op(0x49);
                    after_result(&mut a, rng, f);
                }
                _ => {}
            },
            15 | 16 if f.arith => {
                let ops: &[u8] = &[0x01, 0x02, 0x03, 0x04, 0x05, 0x06, 0x07, 0x0a, 0x0b, 0x10, 0x11, 0x12, 0x13, 0x14, 0x16, 0x17, 0x18, 0x1a, 0x1b, 0x1c, 0x1d];
                let o = *rng.pick(ops);
                if (0x1b..=0x1d).contains(&o) && spec < SpecId::CONSTANTINOPLE {
                    continue;
                }
                a.push(word(rng)).push(word(rng)).op(o);
                after_result(&mut a, rng, f);
            }
            17 if f.control => {
                // conditional forward jump over the next statements
                if pending_label.is_none() {
                    let l = a.new_label();
                    a.push(if rng.chance(1, 2) { U256::ZERO } else { U256::from(1u8) });
                    a.push_label(l).op(0x57);
                    pending_label = Some(l);
                } else if let Some(l) = pending_label.take() {
                    a.place(l);
                }
            }
            18 if f.control => {
                // DUP / SWAP play on a few pushed words
                let k = rng.range(1, 6) as usize;
                for _ in 0..k {
                    a.push(word(rng));
                }
                let d = rng.range(1, 16) as u8;
                a.op(if rng.chance(1, 2) { 0x80 + d - 1 } else { 0x90 + d - 1 });
                for _ in 0..rng.below(k as u64 + 1) {
                    a.op(0x50);
                }
            }
            19 if f.selfdestruct && rng.chance(1, 3) => {
                let t = if rng.chance(1, 3) { None } else { Some(pool_addr(rng, f)) };
                match t {
                    Some(t) => a.push_addr(t),
                    None => a.op(0x30),
                };
                a.op(0xff);
            }
            20 if f.control && rng.chance(1, 3) => {
                // early termination
                match rng.below(5) {
                    0 => {
                        a.push(mem_len(rng).min(U256::from(100u64))).push(mem_off(rng)).op(0xf3);
                    }
                    1 if spec >= SpecId::BYZANTIUM => {
                        a.push(mem_len(rng).min(U256::from(100u64))).push(mem_off(rng)).op(0xfd);
                    }
                    2 => {
                        a.op(0xfe);
                    }
                    3 => {
                        a.op(0x00);
                    }
                    _ => {
                        a.op(rng.below(256) as u8);
                    }
                }
            }
            _ => {
                a.push(word(rng));
                after_result(&mut a, rng, f);
            }
        }
    }
    if let Some(l) = pending_label.take() {
        a.place(l);
    }
    // terminal
    match rng.below(8) {
        0 | 1 => {
            a.push_u(rng.below(3) * 32).push_u(rng.below(2) * 32).op(0xf3);
        }
        2 if spec >= SpecId::BYZANTIUM => {
            a.push_u(rng.below(3) * 32).push_u(0).op(0xfd);
        }
        3 if f.selfdestruct => {
            a.push_addr(pool_addr(rng, f)).op(0xff);
        }
        _ => {}
    }
    a.finish()
}

// ------------------------------------------------------------------------------------------------
// worlds, blocks, transactions
// ------------------------------------------------------------------------------------------------

pub fn designator(a: Address) -> Vec<u8> {
    let mut v = vec![0xef, 0x01, 0x00];
    v.extend_from_slice(a.as_slice());
    v
}

pub fn gen_world(rng: &mut Rng, f: &Features, spec: SpecId) -> World {
    let mut w = World::default();
    let eth = U256::from(10u64).pow(U256::from(18u8));
    w.accounts.insert(SENDER1, Acct { balance: eth * U256::from(1000u64), nonce: rng.below(3), ..Default::default() });
    w.accounts.insert(SENDER2, Acct { balance: if rng.chance(1, 6) { boundary_balance(rng) } else { eth * U256::from(5u64) }, nonce: if rng.chance(1, 10) { u64::MAX - rng.below(2) } else { rng.below(5) }, ..Default::default() });
    for c in CONTRACTS {
        if rng.chance(1, 8) {
            continue; // sometimes a pool contract does not exist
        }
        let mut st = BTreeMap::new();
        for k in 0..4u64 {
            if rng.chance(1, 2) {
                st.insert(U256::from(k), if rng.chance(1, 2) { U256::from(1u8) } else { word(rng) });
            }
        }
        st.retain(|_, v| !v.is_zero());
        let bal = match rng.below(6) {
            0 => U256::ZERO,
            1 => boundary_balance(rng),
            _ => U256::from(rng.below(1_000_000)),
        };
        let nonce = if rng.chance(1, 12) { u64::MAX - rng.below(2) } else { 1 + rng.below(3) };
        w.accounts.insert(c, Acct { balance: bal, nonce, code: gen_program(rng, f, 0, 14), storage: st });
    }
    if rng.chance(2, 3) {
        w.accounts.insert(EMPTY_EXISTING, Acct::default());
    }
    if rng.chance(2, 3) {
        let mut st = BTreeMap::new();
        st.insert(U256::from(rng.below(3)), U256::from(7u8));
        w.accounts.insert(STORAGE_ONLY, Acct { balance: if rng.chance(1, 2) { U256::ZERO } else { U256::from(5u8) }, nonce: 0, code: vec![], storage: st });
    }
    if spec >= SpecId::PRAGUE && rng.chance(2, 3) {
        let t = match rng.below(5) {
            0 => DELEGATED,
            1 => NONEXISTENT,
            2 => precompile(1 + rng.below(9) as u8),
            _ => *rng.pick(&CONTRACTS),
        };
        w.accounts.insert(DELEGATED, Acct { balance: U256::from(rng.below(1_000_000)), nonce: 1 + rng.below(2), code: designator(t), storage: BTreeMap::new() });
    } else if rng.chance(1, 2) {
        w.accounts.insert(DELEGATED, Acct { balance: U256::from(rng.below(1000)), nonce: rng.below(2), ..Default::default() });
    }
    if rng.chance(1, 2) {
        w.accounts.insert(COINBASE, Acct { balance: boundary_balance(rng), ..Default::default() });
    }
    w.accounts.insert(RICH, Acct { balance: if rng.chance(1, 2) { U256::MAX } else { U256::MAX - U256::from(rng.below(100_000)) }, nonce: 1, code: if rng.chance(1, 2) { vec![] } else { vec![0x00] }, storage: BTreeMap::new() });
    for n in 1000u64 - 260..1000 {
        if rng.chance(9, 10) {
            w.block_hashes.insert(n, B256::from(U256::from(n).wrapping_mul(U256::from(0x9e3779b97f4a7c15u64)) | (U256::from(1u8) << 200)));
        }
    }
    w
}

pub fn gen_block(rng: &mut Rng, spec: SpecId) -> BlockSpec {
    let mut b = BlockSpec::default();
    b.basefee = if spec >= SpecId::LONDON { *rng.pick(&[0u64, 1, 7, 1000]) } else { 0 };
    b.coinbase = match rng.below(10) {
        0 => C1,
        1 => SENDER1,
        2 => NONEXISTENT,
        _ => COINBASE,
    };
    if spec >= SpecId::CANCUN {
        b.excess_blob_gas = *rng.pick(&[0u64, 131072 * 3, 10_000_000, 60_000_000]);
    }
    b
}

/// a transaction that is meant to be valid (fees, nonce, balance fit), exercising every shape the
/// fork allows
pub fn gen_valid_tx(rng: &mut Rng, f: &Features, spec: SpecId, world: &World, block: &BlockSpec) -> TxSpec {
    let mut t = TxSpec::default();
    t.caller = SENDER1;
    t.nonce = if rng.chance(1, 2) { Some(world.accounts.get(&SENDER1).map(|a| a.nonce).unwrap_or(0)) } else { None };
    let create = f.creates && rng.chance(1, 6);
    if create {
        t.to = None;
        t.data = gen_initcode(rng, f, 0);
    } else {
        t.to = Some(match rng.below(10) {
            0 => pool_addr(rng, f),
            1 => DELEGATED,
            _ => *rng.pick(&CONTRACTS),
        });
        t.data = match rng.below(4) {
            0 => vec![],
            1 => rng.bytes_below(100),
            2 => vec![0u8; rng.usize(70)],
            _ => U256::from(rng.below(5)).to_be_bytes::<32>().to_vec(),
        };
    }
    t.value = match rng.below(5) {
        0 => U256::from(1u8),
        1 => U256::from(rng.below(1_000_000)),
        _ => U256::ZERO,
    };
    t.gas_limit = *rng.pick(&[60_000u64, 100_000, 300_000, 1_000_000, 3_000_000, 30_000_000]);
    let base = U256::from(block.basefee);
    t.gas_price = base + U256::from(*rng.pick(&[0u64, 1, 10, 1000]));
    if spec >= SpecId::LONDON && rng.chance(1, 2) {
        t.priority_fee = Some(U256::from(*rng.pick(&[0u64, 1, 5, 2000])).min(t.gas_price));
    }
    if spec >= SpecId::SPURIOUS_DRAGON && rng.chance(1, 3) {
        t.chain_id = Some(1);
    }
    if spec >= SpecId::BERLIN && rng.chance(1, 3) {
        let n = rng.range(1, 3);
        for _ in 0..n {
            let a = pool_addr(rng, f);
            let ks = (0..rng.below(3)).map(|_| U256::from(rng.below(4))).collect();
            t.access_list.push((a, ks));
        }
    }
    if spec >= SpecId::CANCUN && !create && rng.chance(1, 8) {
        let n = rng.range(1, 3);
        for i in 0..n {
            let mut h = [0u8; 32];
            h[0] = 1;
            h[31] = i as u8;
            t.blob_hashes.push(B256::from(h));
        }
        // a cap the sender can pay: the current blob gas price times 1, 2, 1000, or price + 1
        let price = crate::refevm::blob_price(spec, block.excess_blob_gas);
        t.max_fee_per_blob_gas = Some(match rng.below(4) {
            0 => price,
            1 => price + U256::from(1u8),
            2 => price * U256::from(2u8),
            _ => price * U256::from(1000u64),
        });
        if t.priority_fee.is_none() {
            t.priority_fee = Some(U256::ZERO);
        }
    }
    if spec >= SpecId::PRAGUE && !create && t.blob_hashes.is_empty() && rng.chance(1, 6) {
        let n = rng.range(1, 3);
        let mut l = vec![];
        for _ in 0..n {
            let authority = match rng.below(6) {
                0 => None,
                1 => Some(SENDER1),
                2 => Some(DELEGATED),
                3 => Some(NONEXISTENT),
                4 => Some(*rng.pick(&CONTRACTS)),
                _ => Some(SENDER2),
            };
            let anonce = authority.and_then(|a| world.accounts.get(&a)).map(|a| a.nonce).unwrap_or(0);
            l.push(AuthSpec {
                chain_id: *rng.pick(&[0u64, 1, 1, 2]),
                address: match rng.below(4) {
                    0 => Address::ZERO,
                    1 => precompile(1),
                    _ => *rng.pick(&CONTRACTS),
                },
                nonce: if rng.chance(1, 5) { anonce.wrapping_add(1) } else if authority == Some(SENDER1) { anonce + 1 } else { anonce },
                authority,
            });
        }
        t.auth_list = Some(l);
        if t.priority_fee.is_none() {
            t.priority_fee = Some(U256::ZERO);
        }
    }
    t
}

pub fn random_spec(rng: &mut Rng, include_osaka: bool) -> SpecId {
    let n = if include_osaka { 20 } else { 19 };
    // weight recent forks a bit more
    if rng.chance(1, 3) {
        *rng.pick(&[SpecId::BERLIN, SpecId::LONDON, SpecId::SHANGHAI, SpecId::CANCUN, SpecId::PRAGUE])
    } else {
        ALL_SPECS[rng.usize(n)]
    }
}

/// one generated case with 1..max_txs transactions
pub fn gen_case(rng: &mut Rng, spec: SpecId, max_txs: usize) -> Case {
    let f = Features::swarm(rng, spec);
    gen_case_with(rng, spec, max_txs, &f)
}

/// like gen_case, with the program features chosen by the caller
pub fn gen_case_with(rng: &mut Rng, spec: SpecId, max_txs: usize, f: &Features) -> Case {
    let f = f.clone();
    let world = gen_world(rng, &f, spec);
    let block = gen_block(rng, spec);
    let n = rng.range(1, max_txs as u64) as usize;
    let mut txs = vec![];
    let mut nonce = world.accounts.get(&SENDER1).map(|a| a.nonce).unwrap_or(0);
    for _ in 0..n {
        let mut t = gen_valid_tx(rng, &f, spec, &world, &block);
        if t.nonce.is_some() {
            t.nonce = Some(nonce);
        }
        nonce += 1;
        txs.push(t);
    }
    let mut case = Case { spec, world, block, txs };
    // one case in eight is a directed multi-step scenario (scenarios.rs) on top of the random world
    if spec <= SpecId::PRAGUE && rng.chance(1, 8) {
        crate::scenarios::apply(rng, &mut case);
    }
    case
}
