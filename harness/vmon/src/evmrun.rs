//! S4 RefDB / PlainRef applier, Env construction from a Case, and helpers to run transactions
//! on the real `Evm` over any database.
use crate::fw::*;
use crate::keccak::keccak256;
use crate::world::*;
use revm::primitives::{
    AccessListItem, Account, AccountInfo, Authorization, AuthorizationList, BlobExcessGasAndPrice, Bytecode, Bytes,
    EVMError, Env, EvmState, ExecutionResult, HashMap, Output, RecoveredAuthority, RecoveredAuthorization, SpecId,
    TxKind, B256, KECCAK_EMPTY, U256,
};
use revm::primitives::Address;
use revm::{Database, DatabaseCommit, DatabaseRef, Evm};
use serde_json::{json, Value};
use std::cell::RefCell;
use std::collections::BTreeMap;

// ------------------------------------------------------------------------------------------------
// RefDB — plain maps with an honest has_storage and an optional fault injector
// ------------------------------------------------------------------------------------------------

#[derive(Clone, Copy, Debug, PartialEq, Eq)]
pub enum DbMethod {
    Basic,
    CodeByHash,
    Storage,
    BlockHash,
    HasStorage,
}

#[derive(Clone, Debug, Default)]
pub struct DbStats {
    pub basic: u64,
    pub code_by_hash: u64,
    pub storage: u64,
    pub block_hash: u64,
    pub has_storage: u64,
}

#[derive(Clone, Debug)]
pub struct RefDB {
    pub world: World,
    /// code known by hash (pre-state code plus everything committed)
    pub codes: BTreeMap<B256, Vec<u8>>,
    /// spec used by the independent applier for state clearing
    pub spec: SpecId,
    /// return Err on the k-th (1-based) call of the method
    pub fault: Option<(DbMethod, u64)>,
    pub stats: RefCell<DbStats>,
    /// when true `basic` returns the code inline (Some), otherwise None (forcing code_by_hash)
    pub inline_code: bool,
}

pub fn code_hash(code: &[u8]) -> B256 {
    if code.is_empty() {
        KECCAK_EMPTY
    } else {
        B256::from(keccak256(code))
    }
}

pub fn to_bytecode(code: &[u8]) -> Bytecode {
    match Bytecode::new_raw_checked(Bytes::copy_from_slice(code)) {
        Ok(b) => b,
        Err(_) => Bytecode::new_legacy(Bytes::copy_from_slice(code)),
    }
}

impl RefDB {
    pub fn new(world: World, spec: SpecId) -> Self {
        let mut codes = BTreeMap::new();
        for a in world.accounts.values() {
            if !a.code.is_empty() {
                codes.insert(code_hash(&a.code), a.code.clone());
            }
        }
        RefDB { world, codes, spec, fault: None, stats: RefCell::new(DbStats::default()), inline_code: false }
    }
    fn tick(&self, m: DbMethod) -> Result<(), String> {
        let mut s = self.stats.borrow_mut();
        let n = match m {
            DbMethod::Basic => {
                s.basic += 1;
                s.basic
            }
            DbMethod::CodeByHash => {
                s.code_by_hash += 1;
                s.code_by_hash
            }
            DbMethod::Storage => {
                s.storage += 1;
                s.storage
            }
            DbMethod::BlockHash => {
                s.block_hash += 1;
                s.block_hash
            }
            DbMethod::HasStorage => {
                s.has_storage += 1;
                s.has_storage
            }
        };
        if let Some((fm, k)) = self.fault {
            if fm == m && k == n {
                return Err(format!("injected fault: {:?} call {}", m, n));
            }
        }
        Ok(())
    }
    pub fn info_of(&self, a: &Acct) -> AccountInfo {
        AccountInfo {
            balance: a.balance,
            nonce: a.nonce,
            code_hash: code_hash(&a.code),
            code: if self.inline_code { Some(to_bytecode(&a.code)) } else { None },
        }
    }
}

impl DatabaseRef for RefDB {
    type Error = String;
    fn basic_ref(&self, address: Address) -> Result<Option<AccountInfo>, String> {
        self.tick(DbMethod::Basic)?;
        Ok(self.world.accounts.get(&address).map(|a| self.info_of(a)))
    }
    fn code_by_hash_ref(&self, h: B256) -> Result<Bytecode, String> {
        self.tick(DbMethod::CodeByHash)?;
        if h == KECCAK_EMPTY {
            return Ok(Bytecode::default());
        }
        match self.codes.get(&h) {
            Some(c) => Ok(to_bytecode(c)),
            None => Err(format!("unknown code hash {}", hex(h.as_slice()))),
        }
    }
    fn has_storage_ref(&self, address: Address) -> Result<bool, String> {
        self.tick(DbMethod::HasStorage)?;
        Ok(self.world.accounts.get(&address).map(|a| a.storage.values().any(|v| !v.is_zero())).unwrap_or(false))
    }
    fn storage_ref(&self, address: Address, index: U256) -> Result<U256, String> {
        self.tick(DbMethod::Storage)?;
        Ok(self.world.accounts.get(&address).and_then(|a| a.storage.get(&index).copied()).unwrap_or(U256::ZERO))
    }
    fn block_hash_ref(&self, number: u64) -> Result<B256, String> {
        self.tick(DbMethod::BlockHash)?;
        Ok(self.world.block_hashes.get(&number).copied().unwrap_or(B256::ZERO))
    }
}

impl Database for RefDB {
    type Error = String;
    fn basic(&mut self, address: Address) -> Result<Option<AccountInfo>, String> {
        self.basic_ref(address)
    }
    fn code_by_hash(&mut self, h: B256) -> Result<Bytecode, String> {
        self.code_by_hash_ref(h)
    }
    fn has_storage(&mut self, address: Address) -> Result<bool, String> {
        self.has_storage_ref(address)
    }
    fn storage(&mut self, address: Address, index: U256) -> Result<U256, String> {
        self.storage_ref(address, index)
    }
    fn block_hash(&mut self, number: u64) -> Result<B256, String> {
        self.block_hash_ref(number)
    }
}

/// The independent applier of a committed `EvmState` (PlainRef, DESIGN S4): written from the
/// documented meaning of the account flags, not from CacheDB/CacheState.
pub fn apply_evm_state(world: &mut World, codes: &mut BTreeMap<B256, Vec<u8>>, state: &EvmState, spec: SpecId) {
    let state_clear = spec >= SpecId::SPURIOUS_DRAGON;
    for (addr, acc) in state.iter() {
        if !acc.is_touched() {
            continue;
        }
        if acc.is_selfdestructed() {
            world.accounts.remove(addr);
            continue;
        }
        if state_clear && acc.info.is_empty() {
            world.accounts.remove(addr);
            continue;
        }
        let e = world.accounts.entry(*addr).or_default();
        if acc.is_created() {
            e.storage.clear();
        }
        e.balance = acc.info.balance;
        e.nonce = acc.info.nonce;
        let code: Vec<u8> = match &acc.info.code {
            Some(c) => c.original_bytes().to_vec(),
            None => {
                if acc.info.code_hash == KECCAK_EMPTY || acc.info.code_hash.is_zero() {
                    vec![]
                } else {
                    codes.get(&acc.info.code_hash).cloned().unwrap_or_default()
                }
            }
        };
        if !code.is_empty() {
            codes.insert(code_hash(&code), code.clone());
        }
        e.code = code;
        for (k, slot) in acc.storage.iter() {
            if acc.is_created() || slot.is_changed() {
                if slot.present_value.is_zero() {
                    e.storage.remove(k);
                } else {
                    e.storage.insert(*k, slot.present_value);
                }
            }
        }
    }
}

impl DatabaseCommit for RefDB {
    fn commit(&mut self, changes: HashMap<Address, Account>) {
        let spec = self.spec;
        apply_evm_state(&mut self.world, &mut self.codes, &changes, spec);
    }
}

// ------------------------------------------------------------------------------------------------
// Env
// ------------------------------------------------------------------------------------------------

pub fn fill_env(env: &mut Env, spec: SpecId, block: &BlockSpec, tx: &TxSpec) {
    env.cfg.chain_id = 1;
    env.block.number = U256::from(block.number);
    env.block.coinbase = block.coinbase;
    env.block.timestamp = U256::from(block.timestamp);
    env.block.gas_limit = U256::from(block.gas_limit);
    env.block.basefee = U256::from(block.basefee);
    env.block.difficulty = block.difficulty;
    env.block.prevrandao = Some(block.prevrandao);
    env.block.blob_excess_gas_and_price = Some(BlobExcessGasAndPrice::new(block.excess_blob_gas, spec >= SpecId::PRAGUE));
    env.tx.caller = tx.caller;
    env.tx.gas_limit = tx.gas_limit;
    env.tx.gas_price = tx.gas_price;
    env.tx.transact_to = match tx.to {
        Some(a) => TxKind::Call(a),
        None => TxKind::Create,
    };
    env.tx.value = tx.value;
    env.tx.data = Bytes::copy_from_slice(&tx.data);
    env.tx.nonce = tx.nonce;
    env.tx.chain_id = tx.chain_id;
    env.tx.access_list = tx.access_list.iter().map(|(a, ks)| AccessListItem { address: *a, storage_keys: ks.iter().map(|k| B256::from(*k)).collect() }).collect();
    env.tx.gas_priority_fee = tx.priority_fee;
    env.tx.blob_hashes = tx.blob_hashes.clone();
    env.tx.max_fee_per_blob_gas = tx.max_fee_per_blob_gas;
    env.tx.authorization_list = tx.auth_list.as_ref().map(|l| {
        AuthorizationList::Recovered(
            l.iter()
                .map(|a| {
                    RecoveredAuthorization::new_unchecked(
                        Authorization { chain_id: U256::from(a.chain_id), address: a.address, nonce: a.nonce },
                        match a.authority {
                            Some(x) => RecoveredAuthority::Valid(x),
                            None => RecoveredAuthority::Invalid,
                        },
                    )
                })
                .collect(),
        )
    });
}

pub fn make_env(spec: SpecId, block: &BlockSpec, tx: &TxSpec) -> Box<Env> {
    let mut env = Box::<Env>::default();
    fill_env(&mut env, spec, block, tx);
    env
}

// ------------------------------------------------------------------------------------------------
// Outcomes
// ------------------------------------------------------------------------------------------------

#[derive(Clone, Debug, PartialEq, Eq)]
pub struct LogRec {
    pub address: Address,
    pub topics: Vec<B256>,
    pub data: Vec<u8>,
}

#[derive(Clone, Debug, PartialEq, Eq)]
pub enum TxOutcome {
    /// validation error (EVMError::Transaction / Header)
    Rejected(String),
    Executed { class: &'static str, reason: String, gas_used: u64, gas_refunded: u64, output: Vec<u8>, logs: Vec<LogRec>, created: Option<Address> },
    DbError(String),
    OtherError(String),
}

impl TxOutcome {
    pub fn class(&self) -> &'static str {
        match self {
            TxOutcome::Rejected(_) => "rejected",
            TxOutcome::Executed { class, .. } => class,
            TxOutcome::DbError(_) => "db-error",
            TxOutcome::OtherError(_) => "other-error",
        }
    }
    pub fn gas_used(&self) -> Option<u64> {
        match self {
            TxOutcome::Executed { gas_used, .. } => Some(*gas_used),
            _ => None,
        }
    }
    pub fn to_json(&self) -> Value {
        match self {
            TxOutcome::Rejected(e) => json!({"rejected": e}),
            TxOutcome::DbError(e) => json!({"db_error": e}),
            TxOutcome::OtherError(e) => json!({"other_error": e}),
            TxOutcome::Executed { class, reason, gas_used, gas_refunded, output, logs, created } => json!({
                "class": class, "reason": reason, "gas_used": gas_used, "gas_refunded": gas_refunded, "output": hex(output),
                "logs": logs.iter().map(|l| json!({"address": addr_hex(&l.address), "topics": l.topics.iter().map(|t| hex(t.as_slice())).collect::<Vec<_>>(), "data": hex(&l.data)})).collect::<Vec<_>>(),
                "created": created.map(|a| addr_hex(&a)),
            }),
        }
    }
}

pub fn outcome_of<E: core::fmt::Debug>(r: &Result<ExecutionResult, EVMError<E>>) -> TxOutcome {
    match r {
        Err(EVMError::Transaction(e)) => TxOutcome::Rejected(format!("{:?}", e)),
        Err(EVMError::Header(e)) => TxOutcome::Rejected(format!("Header::{:?}", e)),
        Err(EVMError::Database(e)) => TxOutcome::DbError(format!("{:?}", e)),
        Err(e) => TxOutcome::OtherError(format!("{:?}", e)),
        Ok(ExecutionResult::Success { reason, gas_used, gas_refunded, logs, output }) => TxOutcome::Executed {
            class: "success",
            reason: format!("{:?}", reason),
            gas_used: *gas_used,
            gas_refunded: *gas_refunded,
            output: output.data().to_vec(),
            logs: logs.iter().map(|l| LogRec { address: l.address, topics: l.data.topics().to_vec(), data: l.data.data.to_vec() }).collect(),
            created: match output {
                Output::Create(_, a) => *a,
                _ => None,
            },
        },
        Ok(ExecutionResult::Revert { gas_used, output }) => TxOutcome::Executed { class: "revert", reason: "Revert".into(), gas_used: *gas_used, gas_refunded: 0, output: output.to_vec(), logs: vec![], created: None },
        Ok(ExecutionResult::Halt { reason, gas_used }) => TxOutcome::Executed { class: "halt", reason: format!("{:?}", reason), gas_used: *gas_used, gas_refunded: 0, output: vec![], logs: vec![], created: None },
    }
}

/// Build a plain Evm (no inspector) over `db` for `spec`.
pub fn plain_evm<'a, DB: Database>(db: DB, spec: SpecId) -> Evm<'a, (), DB> {
    Evm::builder().with_db(db).with_spec_id(spec).build()
}

/// world after the history according to the independent applier, given the EvmStates returned
pub fn world_diff(a: &World, b: &World) -> Option<String> {
    let keys: std::collections::BTreeSet<_> = a.accounts.keys().chain(b.accounts.keys()).collect();
    for k in keys {
        match (a.accounts.get(k), b.accounts.get(k)) {
            (Some(x), Some(y)) => {
                if x.balance != y.balance {
                    return Some(format!("{} balance {} vs {}", addr_hex(k), x.balance, y.balance));
                }
                if x.nonce != y.nonce {
                    return Some(format!("{} nonce {} vs {}", addr_hex(k), x.nonce, y.nonce));
                }
                if x.code != y.code {
                    return Some(format!("{} code {} vs {}", addr_hex(k), hex(&x.code), hex(&y.code)));
                }
                let sk: std::collections::BTreeSet<_> = x.storage.keys().chain(y.storage.keys()).collect();
                for s in sk {
                    let (p, q) = (x.storage.get(s).copied().unwrap_or_default(), y.storage.get(s).copied().unwrap_or_default());
                    if p != q {
                        return Some(format!("{} slot {} {} vs {}", addr_hex(k), s, p, q));
                    }
                }
            }
            (Some(_), None) => return Some(format!("{} exists only on the left", addr_hex(k))),
            (None, Some(_)) => return Some(format!("{} exists only on the right", addr_hex(k))),
            _ => {}
        }
    }
    None
}

/// address of the first account that differs between two worlds
pub fn first_diff_account(a: &World, b: &World) -> Option<Address> {
    let keys: std::collections::BTreeSet<_> = a.accounts.keys().chain(b.accounts.keys()).collect();
    for k in keys {
        if a.accounts.get(k) != b.accounts.get(k) {
            return Some(*k);
        }
    }
    None
}

/// shape of an account in the pre-history world, used in signatures
pub fn account_shape(w: &World, a: &Address) -> &'static str {
    match w.accounts.get(a) {
        None => "absent-in-pre-state",
        Some(x) if x.code.is_empty() && x.nonce == 0 && x.storage.values().any(|v| !v.is_zero()) => "storage-but-no-code-and-nonce(eip7610-shape)",
        Some(x) if x.is_empty() => "empty-in-pre-state",
        Some(x) if x.code.is_empty() => "eoa-in-pre-state",
        Some(_) => "contract-in-pre-state",
    }
}

// component traits so that RefDB can sit inside DatabaseComponents
impl revm::primitives::db::StateRef for RefDB {
    type Error = String;
    fn basic(&self, address: Address) -> Result<Option<AccountInfo>, String> {
        self.basic_ref(address)
    }
    fn code_by_hash(&self, h: B256) -> Result<Bytecode, String> {
        self.code_by_hash_ref(h)
    }
    fn storage(&self, address: Address, index: U256) -> Result<U256, String> {
        self.storage_ref(address, index)
    }
}
impl revm::primitives::db::BlockHashRef for RefDB {
    type Error = String;
    fn block_hash(&self, number: u64) -> Result<B256, String> {
        self.block_hash_ref(number)
    }
}
