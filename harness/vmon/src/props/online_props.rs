//! Entry points of the properties decided by the online monitors on W.
use super::online::*;
use crate::evmrun::*;
use crate::fw::*;
use crate::interp::*;
use crate::world::*;
use revm::primitives::{SpecId, U256};
use serde_json::json;

fn finish_online(ctx: &Ctx, mut rep: Report, pid: &str, rule: &str, assumptions: Vec<String>) -> i32 {
    keep_only(&mut rep, pid);
    finish(ctx, rep, Finish { level: "exploration", rule: rule.to_string(), assumptions })
}

const W_RULE: &str = "W = generated cases (swarm-configured program generator: raw bytes, opcode-weighted statements, templates for call family / CREATE / CREATE2 / SELFDESTRUCT / SSTORE ladders / logs / precompiles / 7702 delegations; worlds of 8-14 accounts incl. balances near 2^256, nonces near 2^64, storage-only and empty accounts; legacy/2930/1559/4844/7702 transactions; 1-3 transactions per case; random SpecId). Every case runs plain and under the monitoring inspector on the real Evm (fresh Evm per transaction over one evolving RefDB); monitor verdicts are used only where both runs agree. Non-trivial = >= 5 executed instructions and >= 1 call/create; distinct by hash of (world, block, txs, spec).";

thread_local! {
    static C10_LADDER: std::cell::RefCell<Option<Report>> = const { std::cell::RefCell::new(None) };
}

fn std_assumptions() -> Vec<String> {
    vec!["the inspector callbacks are the observation points; their own fidelity is C28/C29's subject and is cross-checked by running every case without inspector as well".into()]
}

// ---------------------------------------------------------------------------------------------
// C07
// ---------------------------------------------------------------------------------------------
pub fn run_c07(ctx: &Ctx) -> i32 {
    let mut rep = Report::new();
    if replay_case(ctx, &mut rep, false) {
        return finish_online(ctx, rep, "C07", "replay", vec![]);
    }
    // depth probes
    let specs: Vec<SpecId> = if ctx.quick() { vec![SpecId::FRONTIER, SpecId::TANGERINE, SpecId::BYZANTIUM, SpecId::BERLIN, SpecId::CANCUN, SpecId::PRAGUE] } else { MAINNET_SPECS.to_vec() };
    let mut jobs = vec![];
    for s in specs {
        for (name, case) in depth_probe_cases(s) {
            jobs.push((s, name, case));
        }
    }
    let jr = &jobs;
    let nsh = 16usize;
    let r1 = par_shards(ctx, nsh, |si, _rng, rep| {
        for (j, (s, name, case)) in jr.iter().enumerate() {
            if j % nsh != si {
                continue;
            }
            rep.eval();
            rep.nontrivial(case.hash());
            let run = crate::wrun::run_history(case, None, false);
            let cj = || json!({"case": case.to_json(), "probe": name});
            if let Some((_, p)) = &run.panic {
                report_panic(rep, "C07", p, cj());
                continue;
            }
            match &run.outcomes[0] {
                TxOutcome::Executed { class: "success", output, .. } if output.len() == 32 => {
                    let d = U256::from_be_slice(output);
                    rep.cell("probe_depths", &format!("{}/{}", spec_name(*s), d));
                    rep.count("depth_probes_run");
                    if d != U256::from(1024u64) {
                        let kind = name.split('/').next().unwrap_or("?");
                        let dir = if d < U256::from(1024u64) { "less" } else { "more" };
                        rep.violation(format!("C07/max-depth/{kind}/{dir}-than-1024"), format!("probe {name} in {} reached {d} levels below the transaction frame (expected 1024)", spec_name(*s)), cj());
                    }
                }
                o => rep.inconclusive(format!("depth probe {name} in {} did not complete: {:?}", spec_name(*s), o.to_json().to_string())),
            }
            // the same probe under the monitoring inspector: depth pairing on ~1025 nested frames
            // and on every sibling kind (this is what makes the frame-end floors deterministic)
            {
                let mut r2 = Report::new();
                check_case(case, &mut r2, false, None);
                rep.merge_light(r2);
            }
        }
    });
    rep.merge(r1);
    // generated call graphs
    let n = ctx.n(12_000, 1_500_000);
    let wl = Workload { include_osaka: true, snapshots: false, max_txs: 2 };
    let r2 = run_generated(ctx, n, &wl, |_r, c| {
        // more frames: generous gas
        for t in c.txs.iter_mut() {
            t.gas_limit = t.gas_limit.max(1_000_000);
        }
    });
    rep.merge(r2);
    let probes = rep.counter("depth_probes_run");
    rep.floor("depth probes completed", probes, 10);
    for k in ["frame_end/call/ok", "frame_end/call/revert", "frame_end/call/oog", "frame_end/call/out-of-funds", "frame_end/call/precompile-oog", "frame_end/create/ok", "frame_end/create/collision", "frame_end/call/too-deep"] {
        let have = rep.counter(k);
        rep.floor(&format!("frames ended as {k}"), have, 5);
    }
    rep.sample(json!({"probe": "P: d=CALLDATALOAD(0); [d==0: K siblings]; MSTORE(0,d+1); ok=CALL(GAS-100000,self,0,0,32,0,32); ok?RETURN(0,32):(MSTORE(0,d);RETURN(0,32))", "expected_output": 1024}));
    finish_online(ctx, rep, "C07", &format!("(1) recursion probes per call kind x {{0,7,60}} earlier siblings that succeed/fail in 7 different ways x SpecIds: the transaction must return exactly 1024; (2) journal depth at every *_end notification equals the depth at the matching call/create/eofcreate notification, on the probes and on W. {W_RULE}"), std_assumptions())
}

// ---------------------------------------------------------------------------------------------
// generic helper for the W-only properties
// ---------------------------------------------------------------------------------------------
fn run_w(ctx: &Ctx, pid: &str, nq: u64, nt: u64, snapshots: bool, bias: fn(&mut Rng, &mut Case), floors: &[(&str, u64)], extra_rule: &str) -> i32 {
    let mut rep = Report::new();
    if replay_case(ctx, &mut rep, snapshots) {
        return finish_online(ctx, rep, pid, "replay", vec![]);
    }
    let n = ctx.n(nq, nt);
    let wl = Workload { include_osaka: true, snapshots, max_txs: 3 };
    rep = run_generated(ctx, n, &wl, bias);
    if pid == "C10" {
        if let Some(r) = C10_LADDER.with(|c| c.borrow_mut().take()) {
            rep.merge(r);
        }
    }
    for (k, need) in floors {
        let have = rep.counter(k);
        rep.floor(k, have, *need);
    }
    finish_online(ctx, rep, pid, &format!("{extra_rule} {W_RULE}"), std_assumptions())
}

pub fn run_c06_online(ctx: &Ctx, rep_direct: Option<Report>) -> i32 {
    let mut rep = Report::new();
    if let Some(path) = &ctx.replay {
        let v: serde_json::Value = serde_json::from_str(&std::fs::read_to_string(path).expect("replay")).expect("json");
        if v["case"]["kind"] == "api" {
            let mut kinds = Default::default();
            super::c06_journal::one(v["case"]["case_seed"].as_u64().unwrap(), &mut rep, &mut kinds);
            println!("replayed api history: {} violation(s)", rep.violations.len());
            return finish_online(ctx, rep, "C06", "replay", vec![]);
        }
    }
    let rep_direct = if ctx.replay.is_none() { Some(rep_direct.unwrap_or_else(|| super::c06_journal::run_direct(ctx))) } else { None };
    if replay_case(ctx, &mut rep, true) {
        return finish_online(ctx, rep, "C06", "replay", vec![]);
    }
    let n = ctx.n(10_000, 1_000_000);
    let wl = Workload { include_osaka: true, snapshots: true, max_txs: 2 };
    rep = run_generated(ctx, n, &wl, no_bias);
    if let Some(d) = rep_direct {
        rep.merge(d);
    }
    for k in ["reverted_frames_checked/call", "reverted_frames_checked/create"] {
        let have = rep.counter(k);
        rep.floor(k, have, 50);
    }
    finish_online(ctx, rep, "C06", &format!("(A) direct histories on JournaledState over RefDB (load, load_code, nested checkpoint/commit/revert, call-style transfers incl. self-transfers and amounts that overflow balances near 2^256, inc_nonce, set_code on code-less accounts, sstore/sload, tstore, log, selfdestruct, create_account_checkpoint, touch; nesting <= 14; 7 SpecIds) with a snapshot stack of the projection as oracle after every revert, failed transfer and failed create, and unchanged-state check on commit. (B) Online: projection pi(JournaledState) (balances, nonces, code hashes, slot values, touched/created/destroyed flags, account and slot warmth, transient storage, logs, depth) snapshotted at every call/create/eofcreate notification and compared at the matching end notification whenever the frame did not succeed; allowed differences: warmth of the callee / delegation target / created address / tx-level pre-warmed addresses, the creator's bumped nonce, the historical RIPEMD touch. {W_RULE}"), std_assumptions())
}

pub fn run_c08(ctx: &Ctx) -> i32 {
    run_w(ctx, "C08", 15_000, 2_000_000, false, |rng, c| {
        // value-bearing traffic and overflow-prone balances
        if rng.chance(1, 2) {
            for t in c.txs.iter_mut() {
                t.value = small_value(rng).min(U256::from(10u64).pow(U256::from(18u8)));
            }
        }
        // a value-bearing create transaction whose target address already holds a balance that
        // the endowment pushes past 2^256-1: the creation must fail without moving or losing ether
        if rng.chance(1, 12) {
            if let Some(t) = c.txs.first_mut() {
                let nonce = c.world.accounts.get(&t.caller).map(|a| a.nonce).unwrap_or(0);
                let target = t.caller.create(t.nonce.unwrap_or(nonce));
                t.to = None;
                t.value = U256::from(1 + rng.below(1000));
                t.data = initcode_returning(&[0x00]);
                t.auth_list = None;
                t.blob_hashes.clear();
                t.max_fee_per_blob_gas = None;
                t.gas_limit = t.gas_limit.max(200_000);
                c.world.accounts.insert(target, Acct { balance: U256::MAX - U256::from(rng.below(500)), ..Default::default() });
                c.txs.truncate(1);
            }
        }
    }, &[("c08_transactions_checked", 1000), ("c08_with_self_burn", 1), ("c08_with_destroyed_balance", 1)],
    "Identity checked after every executed transaction with exact integers: sum(balances after) + base_fee*gas_used (London+) + blob fee + ether removed by completed self-beneficiary SELFDESTRUCTs (monitor ground truth, discarded when the enclosing frame reverts) + balances of accounts deleted at the end of the transaction = sum(balances before).")
}

pub fn run_c09(ctx: &Ctx) -> i32 {
    run_w(ctx, "C09", 15_000, 2_000_000, false, |rng, c| {
        // boundary gas limits: exactly intrinsic, floor, one below
        let spec = c.spec;
        for t in c.txs.iter_mut() {
            let (i, f) = intrinsic_gas(spec, t);
            match rng.below(8) {
                0 => t.gas_limit = i.max(f) as u64,
                1 => t.gas_limit = i as u64 + 1,
                2 => t.gas_limit = (i.max(f) as u64).saturating_add(rng.below(3000)),
                3 => t.gas_price = U256::from(c.block.basefee),
                _ => {}
            }
        }
    }, &[("c09_transactions_checked", 1000), ("c09_closed_form_checked", 200), ("c09_gas_used_equals_intrinsic", 5)],
    "After every executed transaction: intrinsic (own formula per fork) <= gas_used + refund, gas_used <= gas_limit, Prague floor, refund cap q=2|5, no refund on revert/halt (via payments), halt uses the whole limit; closed-form sender payment and beneficiary reward on the sub-workload whose code/data cannot name sender or beneficiary (no ORIGIN/CALLER/COINBASE executed, no literal address).")
}

/// C10 directed sweep (OSAKA): a legacy contract STATICCALLs, with every gas amount of a ladder, an
/// EOF contract whose first instruction is a writer (EXTCALL with value to an existing / a new
/// account, TSTORE, SSTORE, LOG0, EOFCREATE). The order of the static check and the gas checks inside
/// an instruction is only observable at particular amounts of remaining gas.
fn c10_eof_gas_ladder() -> Vec<(String, Case)> {
    use revm::interpreter::opcode as op;
    let mut out = vec![];
    let push_addr = |c: &mut Vec<u8>, a: revm::primitives::Address| {
        c.push(0x73);
        c.extend_from_slice(a.as_slice());
    };
    let sub = crate::eofgen::encode(&[(0, 0x80, 0)], &[vec![op::INVALID]], &[], &[], 0);
    let writers: Vec<(&str, Vec<u8>, u16, Vec<Vec<u8>>)> = vec![
        ("EXTCALL-value-existing", { let mut c = vec![0x60, 0x01, 0x5f, 0x5f]; push_addr(&mut c, C3); c.extend_from_slice(&[op::EXTCALL, op::POP, op::STOP]); c }, 4, vec![]),
        ("EXTCALL-value-new-account", { let mut c = vec![0x60, 0x01, 0x5f, 0x5f]; push_addr(&mut c, NONEXISTENT); c.extend_from_slice(&[op::EXTCALL, op::POP, op::STOP]); c }, 4, vec![]),
        ("TSTORE", vec![0x60, 0x01, 0x5f, op::TSTORE, op::STOP], 2, vec![]),
        ("SSTORE", vec![0x60, 0x01, 0x5f, op::SSTORE, op::STOP], 2, vec![]),
        ("LOG0", vec![0x5f, 0x5f, op::LOG0, op::STOP], 2, vec![]),
        ("EOFCREATE", vec![0x5f, 0x5f, 0x5f, 0x5f, op::EOFCREATE, 0x00, op::POP, op::STOP], 4, vec![{
            // init container: RETURNCONTRACT(0, 0, 0) of a trivial runtime container
            crate::eofgen::encode(&[(0, 0x80, 2)], &[vec![0x5f, 0x5f, op::RETURNCONTRACT, 0x00]], &[sub.clone()], &[], 0)
        }]),
    ];
    let ladder: Vec<u64> = vec![0, 1, 2, 3, 50, 99, 100, 101, 200, 375, 500, 1000, 2099, 2100, 2200, 2299, 2300, 2301, 2599, 2600, 2700, 3000, 5000, 7000, 9000, 9099, 9100, 9200, 11_000, 11_399, 11_400, 11_500, 11_599, 11_600, 11_700, 12_000, 14_000, 20_000, 25_000, 32_000, 34_000, 36_600, 40_000, 60_000, 100_000];
    for (name, code, max_stack, subs) in writers {
        let eof = crate::eofgen::encode(&[(0, 0x80, max_stack)], &[code], &subs, &[], 0);
        for warm in [false, true] {
            for g in &ladder {
                let mut a = Asm::new();
                if warm {
                    // touch the callee's targets first so that the cold surcharge is out of the way
                    a.push_addr(C3).op(0x31).op(0x50).push_addr(NONEXISTENT).op(0x31).op(0x50);
                }
                a.push_u(0).push_u(0).push_u(0).push_u(0).push_addr(C2).push_u(*g).op(0xfa);
                a.push_u(1).op(0x01).push_u(0).op(0x55).op(0x00);
                let mut w = World::default();
                let eth = U256::from(10u64).pow(U256::from(18u8));
                w.accounts.insert(SENDER1, Acct { balance: eth, ..Default::default() });
                w.accounts.insert(C1, Acct { nonce: 1, code: a.finish(), ..Default::default() });
                w.accounts.insert(C2, Acct { nonce: 1, balance: U256::from(100u8), code: eof.clone(), ..Default::default() });
                w.accounts.insert(C3, Acct { nonce: 1, code: vec![0x00], ..Default::default() });
                let tx = TxSpec { to: Some(C1), gas_limit: 500_000, gas_price: U256::from(10u8), ..Default::default() };
                out.push((format!("{name}/{}/gas={g}", if warm { "warm" } else { "cold" }), Case { spec: SpecId::OSAKA, world: w, block: BlockSpec::default(), txs: vec![tx] }));
            }
        }
    }
    out
}

pub fn run_c10(ctx: &Ctx) -> i32 {
    if ctx.replay.is_none() {
        // the directed ladder runs first, in this process, and its findings are merged below
        let cases = c10_eof_gas_ladder();
        let cr = &cases;
        let r = par_shards(ctx, 16, |si, _rng, rep| {
            for (j, (name, case)) in cr.iter().enumerate() {
                if j % 16 != si {
                    continue;
                }
                rep.eval();
                rep.count("eof_static_gas_ladder_cases");
                rep.cell("eof_static_gas_ladder_writers", name.split('/').next().unwrap_or("?"));
                let st = check_case(case, rep, true, None);
                if st.nontrivial {
                    rep.nontrivial(case.hash());
                }
            }
        });
        C10_LADDER.with(|c| *c.borrow_mut() = Some(r));
    }
    run_w(ctx, "C10", 12_000, 1_500_000, true, |rng, c| {
        // route the transaction through a STATICCALL trampoline into a pool contract
        if c.spec >= SpecId::BYZANTIUM && rng.chance(2, 3) {
            let target = *rng.pick(&CONTRACTS);
            let mut a = Asm::new();
            let via = rng.below(3);
            a.push_u(32).push_u(0).push_u(0).push_u(0).push_addr(target).push_u(400_000).op(0xfa).op(0x50);
            if via == 1 {
                // second: static call into a contract that DELEGATECALLs onward
                a.push_u(0).push_u(0).push_u(0).push_u(0).push_addr(C2).push_u(300_000).op(0xfa).op(0x50);
            }
            a.op(0x00);
            c.world.accounts.insert(addr(0x57a7), Acct { nonce: 1, code: a.finish(), ..Default::default() });
            c.txs[0].to = Some(addr(0x57a7));
            c.txs[0].gas_limit = 2_000_000;
            // make sure writers are present in the callee
            if let Some(t) = c.world.accounts.get_mut(&target) {
                let mut w = Asm::new();
                match rng.below(7) {
                    0 => { w.push_u(1).push_u(0).op(0x55); }
                    1 => { w.push_u(0).push_u(0).op(0xa0); }
                    2 => { w.push_u(0).push_u(0).push_u(0).op(0xf0).op(0x50); }
                    3 => { w.push_addr(RICH).op(0xff); }
                    4 => { w.push_u(0).push_u(0).push_u(0).push_u(0).push_u(1).push_addr(C3).push_u(50_000).op(0xf1).op(0x50); }
                    5 => { w.push_u(0).push_u(0).push_u(0).push_u(0).push_addr(C4).push_u(100_000).op(0xf4).op(0x50); }
                    _ => { if c.spec >= SpecId::CANCUN { w.push_u(1).push_u(0).op(0x5d); } else { w.push_u(1).push_u(1).op(0x55); } }
                }
                let mut code = w.finish();
                code.extend_from_slice(&t.code);
                t.code = code;
                if t.balance.is_zero() { t.balance = U256::from(10u8); }
            }
        }
    }, &[("static_root_calls_checked", 300), ("static_writer_attempts/SSTORE", 50), ("static_writer_attempts/LOG", 20), ("static_writer_attempts/CALL-with-value", 10), ("static_writer_attempts/SELFDESTRUCT", 10), ("static_writer_attempts/CREATE", 10), ("eof_static_gas_ladder_cases", 500), ("static_writer_attempts/EXTCALL-with-value", 100), ("static_writer_attempts/EOFCREATE", 50)],
    "During frames with interp.is_static every attempted SSTORE/TSTORE/LOGn/CREATE/CREATE2/SELFDESTRUCT/value-CALL must end in an error at step_end; children of static frames must carry is_static; at the end of every outermost static call the projection of the journaled state (without warmth) equals the one at its start. Directed (OSAKA): a legacy STATICCALL with each gas amount of a 45-step ladder (0..100000, dense around 2300 / 2600 / 9000 / 11600 / 34000) into an EOF contract whose first instruction is EXTCALL-with-value (existing and new target) / TSTORE / SSTORE / LOG0 / EOFCREATE, cold and warm.")
}

pub fn run_c11_online(ctx: &Ctx) -> Report {
    let n = ctx.n(10_000, 1_000_000);
    let wl = Workload { include_osaka: true, snapshots: false, max_txs: 2 };
    run_generated(ctx, n, &wl, no_bias)
}

pub fn run_c13_online(ctx: &Ctx) -> Report {
    let n = ctx.n(8_000, 800_000);
    let wl = Workload { include_osaka: true, snapshots: false, max_txs: 2 };
    run_generated(ctx, n, &wl, no_bias)
}

pub fn run_c29(ctx: &Ctx) -> i32 {
    let mut rep = Report::new();
    if replay_case(ctx, &mut rep, false) {
        return finish_online(ctx, rep, "C29", "replay", vec![]);
    }
    let n = ctx.n(12_000, 1_500_000);
    let wl = Workload { include_osaka: true, snapshots: false, max_txs: 3 };
    rep = run_generated(ctx, n, &wl, no_bias);
    // second variant: inspector short-circuits every 3rd nested call / create with its own outcome
    let n2 = ctx.n(4_000, 400_000);
    let r2 = par_shards(ctx, 32, |_si, rng, rep| {
        for _ in 0..(n2 / 32).max(1) {
            let spec = random_spec(rng, true);
            let case = gen_case(rng, spec, 3);
            rep.eval();
            let st = check_case(&case, rep, false, Some(3));
            if st.nontrivial {
                rep.nontrivial(case.hash() ^ 0x5c);
            }
            rep.count("cases_with_short_circuiting_inspector");
        }
    });
    rep.merge(r2);
    // third variant: ONE Evm (and so one set of inspector input stacks) for a whole history, with a
    // database fault injected into some transactions: an aborted transaction must not unbalance
    // the notifications of the next one. Fourth variant: the inspector register is appended after a
    // register that already boxed the instruction table (every instruction must still be bracketed).
    let n3 = ctx.n(3_000, 300_000);
    let r3 = par_shards(ctx, 32, |_si, rng, rep| {
        for k in 0..(n3 / 32).max(1) {
            let spec = random_spec(rng, true);
            let mut case = if rng.chance(1, 6) { super::c26_eof::gen_eof_case(rng) } else { gen_case(rng, spec, 4) };
            // make aborted transactions likely to have frames open: several transactions, faults in all but the last
            while case.txs.len() < 3 {
                let mut t = case.txs[0].clone();
                t.nonce = None;
                case.txs.push(t);
            }
            for t in case.txs.iter_mut() {
                t.nonce = None;
            }
            let preboxed = k % 4 == 3;
            let faults: Vec<Option<(DbMethod, u64)>> = (0..case.txs.len())
                .map(|i| {
                    if !preboxed && i + 1 < case.txs.len() && rng.chance(2, 3) {
                        Some((*rng.pick(&[DbMethod::Basic, DbMethod::Basic, DbMethod::Storage, DbMethod::CodeByHash]), 1 + rng.below(12)))
                    } else {
                        None
                    }
                })
                .collect();
            rep.eval();
            let run = crate::wrun::run_reused_mon(&case, &faults, preboxed, crate::wrun::mon_cfg_for(case.spec, false));
            let cj = || json!({"case": case.to_json(), "faults": faults.iter().map(|f| f.map(|(m, k)| format!("{:?}#{k}", m))).collect::<Vec<_>>(), "instruction_table_boxed_before_inspector_register": preboxed, "mode": "one Evm reused for the whole history"});
            if let Some((i, p)) = &run.panic {
                report_panic(rep, "C29", p, json!({"case": cj(), "tx_index": i}));
                continue;
            }
            for v in &run.mon.violations {
                rep.violation(v.sig.clone(), v.what.clone(), json!({"case": cj(), "monitor": v.prop}));
            }
            rep.count(if preboxed { "cases_with_preboxed_instruction_table" } else { "cases_on_one_reused_evm_with_faults" });
            let aborted = run.outcomes.iter().filter(|o| matches!(o, TxOutcome::DbError(_))).count() as u64;
            rep.add("transactions_aborted_by_injected_db_fault", aborted);
            if aborted > 0 && run.outcomes.len() as u64 > aborted {
                rep.count("histories_continuing_after_an_aborted_transaction");
            }
            rep.add("events/step(reused)", run.mon.n_step);
            if run.mon.n_step >= 5 {
                rep.nontrivial(case.hash() ^ 0x3e);
            }
        }
    });
    rep.merge(r3);
    for (k, need) in [("events/step", 100_000u64), ("events/call", 5_000), ("events/create", 500), ("events/log", 200), ("short_circuited_calls", 100), ("short_circuited_creates", 20), ("histories_continuing_after_an_aborted_transaction", 100), ("cases_with_preboxed_instruction_table", 100), ("instructions_dispatched(H1 counter)", 100_000)] {
        let have = rep.counter(k);
        rep.floor(k, have, need);
    }
    finish_online(ctx, rep, "C29", &format!("Event grammar checked online: LIFO pairing of call/create/eofcreate with *_end of the same kind and equal inputs, nothing open at the end of a transaction, exactly one step_end between consecutive steps of a frame, initialize_interp once per frame, log notifications equal in number and content to logs appended to the journal per instruction; a second run uses an inspector that answers every 3rd nested call/create itself; a third runs whole histories on ONE Evm with database faults injected into some transactions (the next transaction's notifications must still pair up with their own inputs); a fourth appends the inspector register after a register that already boxed the instruction table. In every run the number of step and step_end notifications per transaction must equal the number of instructions actually dispatched (thread-local counter of hook H1). {W_RULE}"), std_assumptions())
}

pub fn run_c30(ctx: &Ctx) -> i32 {
    run_w(ctx, "C30", 15_000, 2_000_000, false, |rng, c| {
        // selfdestruct-heavy: prefix pool contracts with value moves and SELFDESTRUCT variants
        for a in CONTRACTS {
            if let Some(t) = c.world.accounts.get_mut(&a) {
                if !rng.chance(1, 2) {
                    continue;
                }
                let mut w = Asm::new();
                if rng.chance(1, 2) {
                    // a value transfer first (leaves a BalanceTransfer entry at the journal tail)
                    w.push_u(0).push_u(0).push_u(0).push_u(0).push_u(1).push_addr(*rng.pick(&[C2, C3, NONEXISTENT, RICH])).push_u(30_000).op(0xf1).op(0x50);
                }
                match rng.below(6) {
                    0 => { w.op(0x30).op(0xff); }
                    1 => { w.push_addr(*rng.pick(&[C1, C2, NONEXISTENT, RICH, precompile(2), EMPTY_EXISTING])).op(0xff); }
                    2 => { w.op(0xff); } // empty stack
                    3 => { w.push_addr(NONEXISTENT).op(0xff); }
                    4 => { w.op(0x33).op(0xff); }
                    _ => {}
                }
                let mut code = w.finish();
                if rng.chance(1, 2) {
                    code.extend_from_slice(&t.code);
                }
                t.code = code;
                if rng.chance(1, 2) {
                    t.balance = U256::from(rng.below(1000) + 1);
                }
            }
        }
        if rng.chance(1, 3) {
            // exact-gas failure around the selfdestruct
            c.txs[0].gas_limit = 21_000 + rng.below(40_000);
        }
    }, &[("selfdestruct_completed/other", 500), ("selfdestruct_completed/cancun-not-created-to-self", 5)],
    "Ground truth at the instruction boundary: at step of SELFDESTRUCT record (executing contract, beneficiary = top of stack, contract balance); completed <=> instruction result SelfDestruct at step_end; exactly then one notification with the same contract, beneficiary and value (for a Cancun self-beneficiary no-op either 0 or the balance is accepted as value), otherwise none.")
}

pub fn run_c28(ctx: &Ctx) -> i32 {
    super::c28_inspectors::run(ctx)
}
