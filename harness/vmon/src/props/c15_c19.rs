//! C15 C16 C17 C18 C19 — the block-state database and bundle layer against the plain reference.
use crate::evmrun::*;
use crate::fw::*;
use crate::interp::*;
use crate::statehist::*;
use crate::world::*;
use revm::db::states::bundle_state::BundleRetention;
use revm::db::{BundleState, CacheDB, OriginalValuesKnown, State};
use revm::primitives::{SpecId, B256};
use revm::{Database, DatabaseCommit};
use serde_json::{json, Value};
use std::collections::BTreeMap;

/// result of running a history on State<RefDB>
pub struct StateRun {
    pub outcomes: Vec<TxOutcome>,
    /// bundle after the history (all merges applied)
    pub bundle: BundleState,
    /// index (into ref worlds) of each merge point, in order
    pub merge_points: Vec<usize>,
    pub state: State<RefDB>,
}

fn exec_step_on_state(st: &mut State<RefDB>, h: &History, s: &Step, outcomes: &mut Vec<TxOutcome>) -> Result<(), String> {
    match s {
        Step::Tx(tx) => {
            let res = crate::wrun::transact_plain(&mut *st, h.spec, &h.block, tx);
            outcomes.push(outcome_of(&res.as_ref().map(|r| r.result.clone()).map_err(|e| e.clone())));
            if let Ok(rs) = res {
                st.commit(rs.state);
            }
        }
        Step::Increment(v) => st.increment_balances(v.iter().copied()).map_err(|e| e.to_string())?,
        Step::Drain(v) => {
            st.drain_balances(v.iter().copied()).map_err(|e| e.to_string())?;
        }
        Step::Merge(retain) => st.merge_transitions(if *retain { BundleRetention::Reverts } else { BundleRetention::PlainState }),
    }
    Ok(())
}

/// run the history on State<RefDB>; `check_reads`: compare every universe read with the
/// reference after every step (C15)
#[allow(clippy::too_many_arguments)]
fn run_on_state(h: &History, refrun: &RefRun, bundle_update: bool, prestate: Option<(BundleState, World)>, check_reads: bool, rep: &mut Report, pid: &str, variant: &str, case: &dyn Fn() -> Value) -> Option<StateRun> {
    let (pre_bundle, db_world) = match prestate {
        Some((b, w)) => (Some(b), w),
        None => (None, h.world.clone()),
    };
    let mut db = RefDB::new(db_world, h.spec);
    // codes created during the reference run are needed by code_by_hash only through the cache
    db.inline_code = false;
    let mut st = new_state(db, h.spec, bundle_update, pre_bundle);
    let mut outcomes = vec![];
    let mut merge_points = vec![];
    for (i, s) in h.steps.iter().enumerate() {
        let r = guarded(|| exec_step_on_state(&mut st, h, s, &mut outcomes));
        match r {
            Err(p) => {
                report_panic(rep, pid, &p, json!({"history": case(), "variant": variant, "step": i}));
                return None;
            }
            Ok(Err(e)) => {
                rep.inconclusive(format!("database error in history: {e}"));
                return None;
            }
            Ok(Ok(())) => {}
        }
        if matches!(s, Step::Merge(_)) {
            merge_points.push(i);
        }
        if check_reads {
            let want = &refrun.worlds[i];
            let uni = universe_of(&[want, &h.world]);
            let got = guarded(|| read_universe(&mut st, &uni, &refrun.codes));
            match got {
                Err(p) => {
                    report_panic(rep, pid, &p, json!({"history": case(), "variant": variant, "step": i, "during": "reads"}));
                    return None;
                }
                Ok(Err(e)) => {
                    rep.violation(format!("{pid}/read-error/{variant}"), format!("step {i}: read failed: {e}"), json!({"history": case(), "step": i}));
                    return None;
                }
                Ok(Ok(g)) => {
                    rep.add("universe_reads_compared", uni.values().map(|s| s.len() as u64 + 1).sum());
                    if let Some(d) = world_diff(want, &g) {
                        let kind = Plain::from_world(want).diff_kind(&Plain::from_world(&g));
                        let stepk = match s {
                            Step::Tx(_) => "tx",
                            Step::Increment(_) => "increment",
                            Step::Drain(_) => "drain",
                            Step::Merge(_) => "merge",
                        };
                        let shape = first_diff_account(want, &g).map(|a| account_shape(&h.world, &a)).unwrap_or("?");
                        rep.violation(format!("{pid}/read-differs/{variant}/{kind}/after-{stepk}/{shape}"), format!("after step {i} ({stepk}): reference vs State: {d}"), json!({"history": case(), "step": i, "variant": variant}));
                        return None;
                    }
                }
            }
        }
    }
    let bundle = st.bundle_state.clone();
    Some(StateRun { outcomes, bundle, merge_points, state: st })
}

fn status_transitions(st: &State<RefDB>, rep: &mut Report) {
    for acc in st.cache.accounts.values() {
        rep.cell("final_cache_account_status", &format!("{:?}", acc.status));
    }
    for acc in st.bundle_state.state.values() {
        rep.cell("final_bundle_account_status", &format!("{:?}", acc.status));
    }
}

fn run_on_cachedb(h: &History, rep: &mut Report, pid: &str, case: &dyn Fn() -> Value) -> Option<(Vec<TxOutcome>, CacheDB<RefDB>)> {
    let mut db = CacheDB::new(RefDB::new(h.world.clone(), h.spec));
    let mut outcomes = vec![];
    for (i, s) in h.steps.iter().enumerate() {
        if let Step::Tx(tx) = s {
            let r = guarded(|| {
                let res = crate::wrun::transact_plain(&mut db, h.spec, &h.block, tx);
                let o = outcome_of(&res.as_ref().map(|r| r.result.clone()).map_err(|e| e.clone()));
                if let Ok(rs) = res {
                    db.commit(rs.state);
                }
                o
            });
            match r {
                Ok(o) => outcomes.push(o),
                Err(p) => {
                    report_panic(rep, pid, &p, json!({"history": case(), "variant": "CacheDB", "step": i}));
                    return None;
                }
            }
        }
    }
    Some((outcomes, db))
}

fn has_non_tx_steps(h: &History) -> bool {
    h.steps.iter().any(|s| matches!(s, Step::Increment(_) | Step::Drain(_)))
}

/// everything C15..C18 decide for one history
pub fn check_history(h: &History, rep: &mut Report, which: &str) {
    let hj = || h.to_json();
    let refrun = run_reference(h);
    if let Some(p) = &refrun.panic {
        report_panic(rep, "C25", p, json!({"history": hj(), "variant": "reference"}));
        return;
    }
    if refrun.skipped {
        rep.count("histories_skipped(drain precondition)");
        return;
    }
    let s0 = Plain::from_world(&h.world);
    let sn = Plain::from_world(refrun.worlds.last().unwrap_or(&h.world));

    // ---- C15: reads on State with/without bundle update, and CacheDB results
    if which == "C15" {
        for (bu, name) in [(false, "no-bundle"), (true, "bundle-update")] {
            if let Some(sr) = run_on_state(h, &refrun, bu, None, true, rep, "C15", name, &hj) {
                rep.count(&format!("state_runs/{name}"));
                if sr.outcomes != refrun.outcomes {
                    let i = sr.outcomes.iter().zip(refrun.outcomes.iter()).position(|(a, b)| a != b).unwrap_or(0);
                    rep.violation(format!("C15/execution-result-differs/State-{name}"), format!("tx #{i}: reference {} vs State {}", refrun.outcomes[i].to_json(), sr.outcomes[i].to_json()), json!({"history": hj()}));
                }
                status_transitions(&sr.state, rep);
            }
        }
        if !has_non_tx_steps(h) {
            if let Some((outs, _cdb)) = run_on_cachedb(h, rep, "C15", &hj) {
                rep.count("cachedb_runs");
                if outs != refrun.outcomes {
                    let i = outs.iter().zip(refrun.outcomes.iter()).position(|(a, b)| a != b).unwrap_or(0);
                    // D1: CacheDB has no has_storage -> EIP-7610 collisions are invisible behind it
                    let sig = "C15/execution-result-differs/CacheDB";
                    rep.violation(sig, format!("tx #{i}: reference {} vs CacheDB {}", refrun.outcomes[i].to_json(), outs[i].to_json()), json!({"history": hj()}));
                }
            }
        }
        return;
    }

    // ---- bundle run (C16, C17, C18)
    let Some(sr) = run_on_state(h, &refrun, true, None, false, rep, which, "bundle-update", &hj) else { return };
    if sr.outcomes != refrun.outcomes {
        // execution differences belong to C15; the bundle oracles need equal executions
        rep.count("histories_skipped(execution differs from reference; see C15)");
        return;
    }
    let n_groups = sr.merge_points.len();
    rep.add("merge_groups", n_groups as u64);

    if which == "C16" {
        for (known, kn) in [(OriginalValuesKnown::Yes, "known"), (OriginalValuesKnown::No, "not-known")] {
            let cs = sr.bundle.to_plain_state(known);
            let mut p = s0.clone();
            let mut codes = refrun.codes.clone();
            // code of pre-state accounts is known to the plain database already
            apply_changeset(&mut p, &mut codes, &cs);
            rep.add("changeset_accounts", cs.accounts.len() as u64);
            rep.add("changeset_storage_entries", cs.storage.iter().map(|s| s.storage.len() as u64).sum());
            rep.add("changeset_wipes", cs.storage.iter().filter(|s| s.wipe_storage).count() as u64);
            if let Some(d) = p.diff(&sn) {
                rep.violation(format!("C16/changeset-application-differs/{kn}/{}", p.diff_kind(&sn)), format!("pre + to_plain_state({kn}) vs post: {d}"), json!({"history": hj()}));
            }
            // contracts: every code in the post state that is not in the pre state must be listed
            let pre_codes: std::collections::BTreeSet<Vec<u8>> = s0.infos.values().map(|i| i.2.clone()).collect();
            for (a, i) in sn.infos.iter() {
                if !i.2.is_empty() && !pre_codes.contains(&i.2) {
                    let hsh = code_hash(&i.2);
                    if !cs.contracts.iter().any(|(h2, _)| *h2 == hsh) {
                        rep.violation("C16/new-contract-missing-from-changeset", format!("code of {} (hash {}) is new but not in changeset.contracts", addr_hex(a), hex(hsh.as_slice())), json!({"history": hj()}));
                    }
                }
            }
        }
        return;
    }

    if which == "C17" {
        if !h.all_reverts_retained() {
            rep.count("histories_without_reverts(retention PlainState)");
            return;
        }
        // S_k = reference state at merge point k (1-based), S_0 = pre-history
        let mut snaps: Vec<Plain> = vec![s0.clone()];
        for mp in &sr.merge_points {
            snaps.push(Plain::from_world(&refrun.worlds[*mp]));
        }
        let reverts = sr.bundle.reverts.to_plain_state_reverts();
        if reverts.accounts.len() != n_groups {
            rep.violation("C17/number-of-revert-groups", format!("{} merge points but {} revert groups", n_groups, reverts.accounts.len()), json!({"history": hj()}));
            return;
        }
        // walk from the newest group down
        let mut cur = snaps[n_groups].clone();
        for g in (0..n_groups).rev() {
            apply_revert_group(&mut cur, &s0, &refrun.codes, &reverts, g);
            rep.count("revert_groups_applied");
            if let Some(d) = cur.diff(&snaps[g]) {
                let wiped = reverts.storage[g].iter().any(|s| s.wiped);
                rep.violation(format!("C17/revert-group-does-not-restore/{}/{}", cur.diff_kind(&snaps[g]), if wiped { "group-has-wipe" } else { "no-wipe" }), format!("group {} of {}: S_k + reverts vs S_k-1: {d}", g + 1, n_groups), json!({"history": hj(), "group": g}));
                return;
            }
        }
        // revert(j), then the changeset of what is left, applied to S_0, must give S_{n-j}
        // (what a bundle built from only the first n-j groups gives, by C16), under both settings
        for j in 0..=n_groups {
            for (known, kn) in [(OriginalValuesKnown::Yes, "known"), (OriginalValuesKnown::No, "not-known")] {
                let mut b = sr.bundle.clone();
                let r = guarded(|| {
                    b.revert(j);
                    b.to_plain_state(known)
                });
                match r {
                    Err(p) => {
                        report_panic(rep, "C17", &p, json!({"history": hj(), "revert_j": j}));
                        return;
                    }
                    Ok(cs) => {
                        let mut p = s0.clone();
                        let mut codes = refrun.codes.clone();
                        apply_changeset(&mut p, &mut codes, &cs);
                        rep.count("bundle_revert_j_checked");
                        let want = &snaps[n_groups - j];
                        if let Some(d) = p.diff(want) {
                            // was the differing account's storage wiped in one of the reverted groups?
                            // (BundleAccount::revert cannot rebuild original values it dropped at the wipe)
                            let a = p.diff_addr(want);
                            let crossed_wipe = a.is_some_and(|a| (n_groups - j..n_groups).any(|g| reverts.storage[g].iter().any(|s| s.wiped && s.address == a)));
                            let kind = p.diff_kind(want);
                            let sig = if crossed_wipe && kind == "storage" { format!("C17/bundle-after-revert-differs/{kn}/storage/reverted-across-a-storage-wipe-of-that-account") } else { format!("C17/bundle-after-revert-differs/{kn}/{kind}") };
                            if std::env::var("VERIF_DEBUG").is_ok() {
                                if let Some(a) = a {
                                    eprintln!("mono account {:?}", sr.bundle.state.get(&a));
                                    for g in 0..n_groups {
                                        eprintln!("revert group {g}: {:?}", sr.bundle.reverts[g].iter().find(|(x, _)| *x == a));
                                    }
                                    eprintln!("after revert({j}): {:?}", b.state.get(&a));
                                }
                            }
                            rep.violation(sig, format!("revert({j}) of {n_groups} groups: S_0 + changeset({kn}) vs S_{}: {d}", n_groups - j), json!({"history": hj(), "revert_j": j}));
                            return;
                        }
                    }
                }
            }
        }
        return;
    }

    if which == "C18" {
        if std::env::var("VERIF_DEBUG").is_ok() {
            for (i, w) in refrun.worlds.iter().enumerate() {
                for (a, acc) in w.accounts.iter() {
                    if addr_hex(a).starts_with("0xd3") || addr_hex(a).ends_with("faf8cf") {
                        eprintln!("ref after step {i}: {} bal {} nonce {} code {}B storage {:?}", addr_hex(a), acc.balance, acc.nonce, acc.code.len(), acc.storage);
                    }
                }
            }
            eprintln!("ref outcomes: {:?}", refrun.outcomes.iter().map(|o| o.to_json().to_string()).collect::<Vec<_>>());
        }
        if !h.all_reverts_retained() || n_groups < 2 {
            rep.count("histories_not_splittable");
            return;
        }
        let mut snaps: Vec<Plain> = vec![s0.clone()];
        for mp in &sr.merge_points {
            snaps.push(Plain::from_world(&refrun.worlds[*mp]));
        }
        let mono = &sr.bundle;
        for split in 1..n_groups {
          for mode in ["separate-states", "one-state-continued"] {
            let (a, b): (BundleState, BundleState) = if mode == "separate-states" {
                // A: a State over D runs groups 1..split; B: a fresh State over D' = S_split runs the rest
                let cut = sr.merge_points[split - 1];
                let h1 = History { spec: h.spec, world: h.world.clone(), block: h.block.clone(), steps: h.steps[..=cut].to_vec() };
                let h2 = History { spec: h.spec, world: h.world.clone(), block: h.block.clone(), steps: h.steps[cut + 1..].to_vec() };
                let ref1 = RefRun { outcomes: vec![], worlds: refrun.worlds[..=cut].to_vec(), codes: refrun.codes.clone(), panic: None, skipped: false };
                let ref2 = RefRun { outcomes: vec![], worlds: refrun.worlds[cut + 1..].to_vec(), codes: refrun.codes.clone(), panic: None, skipped: false };
                let Some(r1) = run_on_state(&h1, &ref1, true, None, false, rep, "C18", "split-first-half", &hj) else { return };
                let Some(r2) = run_on_state(&h2, &ref2, true, Some((BundleState::default(), refrun.worlds[cut].clone())), false, rep, "C18", "split-second-half", &hj) else { return };
                let mut outs = r1.outcomes.clone();
                outs.extend(r2.outcomes.iter().cloned());
                if outs != refrun.outcomes {
                    rep.count("splits_skipped(execution differs from reference; see C15)");
                    continue;
                }
                (r1.bundle, r2.bundle)
            } else {
                // one State runs everything; its bundle is taken after merge #split and at the end
                let db = RefDB::new(h.world.clone(), h.spec);
                let mut st = new_state(db, h.spec, true, None);
                let mut outs = vec![];
                let mut a: Option<BundleState> = None;
                let mut merges = 0;
                let mut failed = false;
                for (i, s) in h.steps.iter().enumerate() {
                    match guarded(|| exec_step_on_state(&mut st, h, s, &mut outs)) {
                        Ok(Ok(())) => {}
                        Ok(Err(_)) => {
                            failed = true;
                            break;
                        }
                        Err(p) => {
                            report_panic(rep, "C18", &p, json!({"history": hj(), "split": split, "step": i}));
                            failed = true;
                            break;
                        }
                    }
                    if matches!(s, Step::Merge(_)) {
                        merges += 1;
                        if merges == split {
                            a = Some(st.take_bundle());
                        }
                    }
                }
                if failed {
                    return;
                }
                (a.unwrap(), st.take_bundle())
            };
            let mut joined = a.clone();
            if let Err(p) = guarded(|| joined.extend(b.clone())) {
                report_panic(rep, "C18", &p, json!({"history": hj(), "split": split, "mode": mode}));
                return;
            }
            rep.count(&format!("split_points_checked/{mode}"));
            if std::env::var("VERIF_DEBUG").is_ok() {
                for (nm, bb) in [("A", &a), ("B", &b), ("J", &joined), ("M", mono)] {
                    for (ad, acc) in bb.state.iter() {
                        if !acc.storage.is_empty() || acc.was_destroyed() {
                            eprintln!("split {split} {mode} {nm}  {} status {:?} storage {:?}", addr_hex(ad), acc.status, acc.storage);
                        }
                    }
                }
            }
            // a State that keeps running after take_bundle keeps its cache statuses: an account
            // destroyed before the cut still says "destroyed" in the bundle taken later
            let sigmode = |p: &Plain, want: &Plain| -> String {
                if mode == "separate-states" {
                    String::new()
                } else {
                    let destroyed_before_cut = p.diff_addr(want).is_some_and(|x| a.state.get(&x).is_some_and(|acc| acc.was_destroyed()));
                    if destroyed_before_cut { "/one-state-continued/account-destroyed-before-take_bundle".to_string() } else { "/one-state-continued".to_string() }
                }
            };
            // same changeset application
            let mut bad = false;
            for (known, kn) in [(OriginalValuesKnown::Yes, "known"), (OriginalValuesKnown::No, "not-known")] {
                let mut p = s0.clone();
                let mut codes = refrun.codes.clone();
                apply_changeset(&mut p, &mut codes, &joined.to_plain_state(known));
                if let Some(d) = p.diff(&sn) {
                    rep.violation(format!("C18/extend/changeset-differs/{kn}/{}{}", p.diff_kind(&sn), sigmode(&p, &sn)), format!("split after group {split} ({mode}): S_0 + (A.extend(B)).changeset vs post: {d}"), json!({"history": hj(), "split": split, "mode": mode}));
                    bad = true;
                    break;
                }
            }
            if bad {
                continue;
            }
            // same per-block pre-values: revert walk
            let reverts = joined.reverts.to_plain_state_reverts();
            if reverts.accounts.len() != n_groups {
                rep.violation("C18/extend/number-of-revert-groups", format!("joined bundle has {} revert groups, monolithic {}", reverts.accounts.len(), n_groups), json!({"history": hj(), "split": split, "mode": mode}));
                return;
            }
            let mut cur = snaps[n_groups].clone();
            for g in (0..n_groups).rev() {
                apply_revert_group(&mut cur, &s0, &refrun.codes, &reverts, g);
                if let Some(d) = cur.diff(&snaps[g]) {
                    rep.violation(format!("C18/extend/revert-walk-differs/{}{}", cur.diff_kind(&snaps[g]), sigmode(&cur, &snaps[g])), format!("split after group {split} ({mode}): group {} of joined bundle does not restore S_{}: {d}", g + 1, g), json!({"history": hj(), "split": split, "group": g, "mode": mode}));
                    bad = true;
                    break;
                }
            }
            if bad {
                continue;
            }
            if mode != "separate-states" {
                continue;
            }
            // take_n_reverts
            for k in [0usize, 1, split, n_groups, n_groups + 1] {
                let mut m = mono.clone();
                let before = m.reverts.clone();
                let taken = m.take_n_reverts(k);
                let kk = k.min(n_groups);
                rep.count("take_n_reverts_checked");
                if taken.len() != kk || m.reverts.len() != n_groups - kk {
                    rep.violation("C18/take_n_reverts/sizes", format!("take_n_reverts({k}) of {n_groups}: took {} left {}", taken.len(), m.reverts.len()), json!({"history": hj(), "k": k}));
                    return;
                }
                let taken_v: Vec<_> = taken.iter().cloned().collect();
                let rest_v: Vec<_> = m.reverts.iter().cloned().collect();
                if taken_v[..] != before[..kk] || rest_v[..] != before[kk..] {
                    rep.violation("C18/take_n_reverts/content", format!("take_n_reverts({k}) did not return the first groups / leave the rest"), json!({"history": hj(), "k": k}));
                    return;
                }
            }
            // prepend_state: newer values win
            let a_b = a.clone();
            let mut newer = b.clone();
            if let Err(p) = guarded(|| newer.prepend_state(a_b.clone())) {
                report_panic(rep, "C18", &p, json!({"history": hj(), "split": split, "op": "prepend_state"}));
                return;
            }
            rep.count("prepend_state_checked");
            for (addr_, acc_b) in b.state.iter() {
                match newer.state.get(addr_) {
                    None => {
                        rep.violation("C18/prepend_state/account-lost", format!("account {} of the newer bundle vanished", addr_hex(addr_)), json!({"history": hj(), "split": split}));
                        return;
                    }
                    Some(acc_n) => {
                        if acc_n.info != acc_b.info {
                            rep.violation("C18/prepend_state/older-info-overrides-newer", format!("account {}: info after prepend differs from the newer bundle's", addr_hex(addr_)), json!({"history": hj(), "split": split}));
                            return;
                        }
                        for (k, s) in acc_b.storage.iter() {
                            if acc_n.storage.get(k).map(|x| x.present_value) != Some(s.present_value) {
                                rep.violation("C18/prepend_state/older-slot-overrides-newer", format!("account {} slot {}: newer value {} lost", addr_hex(addr_), k, s.present_value), json!({"history": hj(), "split": split}));
                                return;
                            }
                        }
                    }
                }
            }
            // observation (not a criterion): what happens to the reverts
            rep.cell("observation_prepend_state_reverts", if newer.reverts.len() == a_b.reverts.len() { "ends-with-older-bundles-reverts" } else if newer.reverts.len() == b.reverts.len() { "keeps-newer-reverts" } else { "other" });
          }
        }
    }
}

/// C19: H = H1 ++ H2 split at a merge point
pub fn check_prestate(h: &History, rep: &mut Report) {
    let hj = || h.to_json();
    let merges: Vec<usize> = h.steps.iter().enumerate().filter(|(_, s)| matches!(s, Step::Merge(_))).map(|(i, _)| i).collect();
    if merges.len() < 2 {
        rep.count("histories_not_splittable");
        return;
    }
    let refrun = run_reference(h);
    if refrun.panic.is_some() || refrun.skipped {
        return;
    }
    for (mi, cut) in merges[..merges.len() - 1].iter().enumerate() {
        let h1 = History { spec: h.spec, world: h.world.clone(), block: h.block.clone(), steps: h.steps[..=*cut].to_vec() };
        let h2 = History { spec: h.spec, world: h.world.clone(), block: h.block.clone(), steps: h.steps[*cut + 1..].to_vec() };
        let ref1 = RefRun { outcomes: vec![], worlds: refrun.worlds[..=*cut].to_vec(), codes: refrun.codes.clone(), panic: None, skipped: false };
        let Some(sr1) = run_on_state(&h1, &ref1, true, None, false, rep, "C19", "h1", &hj) else { return };
        let bundle = sr1.bundle.clone();
        // D' = D with B's changeset applied by the independent applier
        let mut p = Plain::from_world(&h.world);
        let mut codes = refrun.codes.clone();
        apply_changeset(&mut p, &mut codes, &bundle.to_plain_state(OriginalValuesKnown::Yes));
        let mut dprime = World { accounts: BTreeMap::new(), block_hashes: h.world.block_hashes.clone() };
        for (a, i) in p.infos.iter() {
            dprime.accounts.insert(*a, Acct { balance: i.0, nonce: i.1, code: i.2.clone(), storage: p.storage.get(a).cloned().unwrap_or_default() });
        }
        for (a, s) in p.storage.iter() {
            dprime.accounts.entry(*a).or_default().storage = s.clone();
        }
        // reference for H2 = tail of the full reference run
        let ref2 = RefRun { outcomes: refrun.outcomes[sr1.outcomes.len()..].to_vec(), worlds: refrun.worlds[*cut + 1..].to_vec(), codes: refrun.codes.clone(), panic: None, skipped: false };
        // State1: D + preloaded bundle ; State2: D'
        let r1 = run_on_state(&h2, &ref2, true, Some((bundle.clone(), h.world.clone())), true, rep, "C19", "preloaded-bundle", &hj);
        let r2 = run_on_state(&h2, &ref2, true, Some((BundleState::default(), dprime.clone())), true, rep, "C19", "merged-database", &hj);
        rep.count("prestate_splits_checked");
        let (Some(r1), Some(r2)) = (r1, r2) else { return };
        if r1.outcomes != r2.outcomes {
            let i = r1.outcomes.iter().zip(r2.outcomes.iter()).position(|(a, b)| a != b).unwrap_or(0);
            rep.violation("C19/execution-result-differs", format!("split {mi}: tx #{i} of H2: preloaded {} vs merged {}", r1.outcomes[i].to_json(), r2.outcomes[i].to_json()), json!({"history": hj(), "split_merge_index": mi}));
            return;
        }
        // resulting changes: State1's bundle (B + H2) on D, State2's bundle (H2) on D' -> same post
        let want = Plain::from_world(refrun.worlds.last().unwrap());
        let mut p1 = Plain::from_world(&h.world);
        let mut c1 = refrun.codes.clone();
        apply_changeset(&mut p1, &mut c1, &r1.bundle.to_plain_state(OriginalValuesKnown::Yes));
        let mut p2 = Plain::from_world(&dprime);
        let mut c2 = refrun.codes.clone();
        apply_changeset(&mut p2, &mut c2, &r2.bundle.to_plain_state(OriginalValuesKnown::Yes));
        if let Some(d) = p1.diff(&p2) {
            rep.violation(format!("C19/resulting-changes-differ/{}", p1.diff_kind(&p2)), format!("split {mi}: D + bundle(preloaded run) vs D' + bundle(merged run): {d}"), json!({"history": hj(), "split_merge_index": mi}));
            return;
        }
        if let Some(d) = p1.diff(&want) {
            rep.violation(format!("C19/post-state-differs-from-reference/{}", p1.diff_kind(&want)), format!("split {mi}: {d}"), json!({"history": hj(), "split_merge_index": mi}));
            return;
        }
    }
}

fn gen_history(rng: &mut Rng) -> History {
    // lifecycle histories need real deletion: mostly pre-Cancun specs, both state-clear settings
    if rng.chance(3, 4) {
        let spec = *rng.pick(&[SpecId::FRONTIER, SpecId::HOMESTEAD, SpecId::TANGERINE, SpecId::SPURIOUS_DRAGON, SpecId::BYZANTIUM, SpecId::PETERSBURG, SpecId::ISTANBUL, SpecId::BERLIN, SpecId::LONDON, SpecId::SHANGHAI, SpecId::CANCUN, SpecId::PRAGUE]);
        // CREATE2 needs Constantinople: older specs use W histories instead
        if spec < SpecId::CONSTANTINOPLE {
            let mut h = gen_w_history(rng, spec);
            h.spec = spec;
            return h;
        }
        if rng.chance(2, 5) && spec < SpecId::CANCUN {
            return gen_recreate_cycles(rng, spec);
        }
        if rng.chance(1, 5) && spec < SpecId::CANCUN {
            return gen_silent_recreate(rng, spec);
        }
        if rng.chance(1, 4) {
            return gen_slot_pingpong(rng, spec);
        }
        gen_lifecycle(rng, spec)
    } else {
        let spec = random_spec(rng, false);
        gen_w_history(rng, spec)
    }
}

pub fn run(ctx: &Ctx) -> i32 {
    let pid = ctx.id.clone();
    let mut rep;
    if let Some(path) = &ctx.replay {
        rep = Report::new();
        let v: Value = serde_json::from_str(&std::fs::read_to_string(path).expect("replay")).expect("json");
        let h = History::from_json(&v["case"]["history"]);
        if pid == "C19" {
            check_prestate(&h, &mut rep);
        } else {
            check_history(&h, &mut rep, &pid);
        }
        println!("replayed: {} violation(s)", rep.violations.len());
        for v in &rep.violations {
            println!("  {} — {}", v.signature, v.what);
        }
    } else {
        let n = match pid.as_str() {
            "C15" => ctx.n(3_000, 400_000),
            "C18" => ctx.n(2_000, 200_000),
            "C19" => ctx.n(1_500, 150_000),
            _ => ctx.n(4_000, 500_000),
        };
        let shards = 64;
        let pidr = &pid;
        rep = par_shards(ctx, shards, |_si, rng, rep| {
            for k in 0..(n / shards as u64).max(1) {
                let h = gen_history(rng);
                rep.eval();
                rep.cell("histories_per_spec", spec_name(h.spec));
                let txs = h.steps.iter().filter(|s| matches!(s, Step::Tx(_))).count();
                if txs >= 2 {
                    rep.nontrivial(h.hash());
                }
                if pidr == "C19" {
                    check_prestate(&h, rep);
                } else {
                    check_history(&h, rep, pidr);
                }
                if rep.samples.len() < 2 && k == 1 {
                    rep.sample(json!({"spec": spec_name(h.spec), "steps": h.to_json()["steps"]}));
                }
            }
        });
        // floors
        match pid.as_str() {
            "C15" => {
                for k in ["state_runs/no-bundle", "state_runs/bundle-update", "cachedb_runs", "universe_reads_compared"] {
                    let have = rep.counter(k);
                    rep.floor(k, have, 100);
                }
                for st in ["Destroyed", "DestroyedChanged", "InMemoryChange", "Changed", "Loaded", "LoadedNotExisting"] {
                    let have = rep.table_get("final_cache_account_status", st);
                    rep.floor(&format!("cache accounts ending as {st}"), have, 5);
                }
            }
            "C16" => {
                for k in ["changeset_accounts", "changeset_storage_entries", "changeset_wipes"] {
                    let have = rep.counter(k);
                    rep.floor(k, have, 50);
                }
            }
            "C17" => {
                for k in ["revert_groups_applied", "bundle_revert_j_checked"] {
                    let have = rep.counter(k);
                    rep.floor(k, have, 200);
                }
            }
            "C18" => {
                for k in ["split_points_checked/separate-states", "split_points_checked/one-state-continued", "take_n_reverts_checked", "prepend_state_checked"] {
                    let have = rep.counter(k);
                    rep.floor(k, have, 100);
                }
            }
            _ => {
                let have = rep.counter("prestate_splits_checked");
                rep.floor("prestate_splits_checked", have, 100);
            }
        }
    }
    super::online::keep_only(&mut rep, &pid);
    let rule = "Histories of steps {transaction, increment_balances, drain_balances, merge_transitions(Reverts|PlainState)}: (a) lifecycle histories — a CREATE2 factory, children with storage that are created, written (incl. back to original values), destroyed, re-created and destroyed again, touched or funded while empty/absent, several script calls per transaction, merge schedules per tx / every 3 / random / only at end; (b) histories from the generic W generator. Oracle: RefDB plus the independent EvmState/changeset/revert appliers (statehist.rs). Non-trivial = >= 2 transactions; distinct by history hash.";
    finish(ctx, rep, Finish { level: "exploration", rule: rule.into(), assumptions: vec!["drain_balances is only applied to existing accounts whose balance fits u128 (its documented return type)".into(), "State is configured without state clearing exactly for pre-Spurious-Dragon specs".into()] })
}
