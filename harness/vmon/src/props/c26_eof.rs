//! C26 — EOF decode/encode round trip, stable validation verdicts, and "accepted by validation =>
//! safe to execute" (no interpreter path that assumes a valid container is reached).
//! Also provides the EOF execution workload used by C25.
use crate::eofgen::*;
use crate::evmrun::*;
use crate::fw::*;
use crate::world::*;
use revm::interpreter::analysis::{validate_eof_inner, validate_raw_eof_inner, CodeType, EofError};
use revm::primitives::{Address, Bytes, Eof, SpecId, U256};
use serde_json::{json, Value};

pub const EOF_VECTOR_ROOT: &str = "/repo/tests/eof_suite/eest/eof_tests";

pub struct Vector {
    pub code: Vec<u8>,
    pub initcode: bool,
    pub expected: bool,
    pub origin: String,
}

pub fn load_vectors() -> Vec<Vector> {
    fn walk(d: &std::path::Path, out: &mut Vec<String>) {
        if let Ok(rd) = std::fs::read_dir(d) {
            let mut es: Vec<_> = rd.flatten().map(|e| e.path()).collect();
            es.sort();
            for p in es {
                if p.is_dir() {
                    walk(&p, out);
                } else if p.extension().is_some_and(|e| e == "json") {
                    out.push(p.to_string_lossy().into_owned());
                }
            }
        }
    }
    let mut files = vec![];
    walk(std::path::Path::new(EOF_VECTOR_ROOT), &mut files);
    let mut out = vec![];
    for f in files {
        let Ok(s) = std::fs::read_to_string(&f) else { continue };
        let Ok(d) = serde_json::from_str::<Value>(&s) else { continue };
        let Some(o) = d.as_object() else { continue };
        for (name, t) in o {
            let Some(vs) = t.get("vectors").and_then(|v| v.as_object()) else { continue };
            for (vi, v) in vs {
                let code = unhex(v["code"].as_str().unwrap_or("0x"));
                let initcode = v.get("containerKind").and_then(|k| k.as_str()).is_some_and(|k| k.eq_ignore_ascii_case("INITCODE"));
                let expected = v["results"].as_object().and_then(|r| r.values().next()).and_then(|r| r["result"].as_bool()).unwrap_or(false);
                out.push(Vector { code, initcode, expected, origin: format!("{}::{}[{vi}]", f.trim_start_matches("/repo/tests/"), name.rsplit("::").next().unwrap_or("")) });
            }
        }
    }
    out
}

fn err_name(e: &EofError) -> String {
    match e {
        EofError::Decode(d) => format!("decode/{d:?}"),
        EofError::Validation(v) => format!("validation/{v:?}"),
    }
}

/// decode / encode / validate properties on one byte string
pub fn check_bytes(b: &[u8], rep: &mut Report, class: &str) -> Option<bool> {
    rep.eval();
    let raw = Bytes::copy_from_slice(b);
    let case = || json!({"bytes": hex(b), "class": class});
    let dec = match guarded(|| Eof::decode(raw.clone())) {
        Err(p) => {
            report_panic(rep, "C26", &p, case());
            return None;
        }
        Ok(d) => d,
    };
    rep.cell("inputs_per_class", class);
    let mut accepted = None;
    match &dec {
        Err(e) => {
            rep.cell("decode_errors", &format!("{e:?}"));
        }
        Ok(e) => {
            rep.count("decoded_ok");
            rep.nontrivial(hash64(b));
            let enc = match guarded(|| e.encode_slow()) {
                Err(p) => {
                    report_panic(rep, "C26", &p, case());
                    return None;
                }
                Ok(x) => x,
            };
            if enc.as_ref() != b {
                rep.violation("C26/roundtrip/encode_slow-differs", format!("decode ok but encode_slow gives {} bytes vs {} input bytes (first difference at {})", enc.len(), b.len(), enc.iter().zip(b.iter()).position(|(x, y)| x != y).unwrap_or(enc.len().min(b.len()))), case());
            }
            if e.raw().as_ref() != b {
                rep.violation("C26/roundtrip/raw-differs", "Eof::raw() is not the decoded input".to_string(), case());
            }
            // decode(encode(e)) is the same container
            match guarded(|| Eof::decode(enc.clone())) {
                Ok(Ok(e2)) => {
                    if e2 != *e {
                        rep.violation("C26/roundtrip/decode-of-encode-differs", "decode(encode(e)) != e".to_string(), case());
                    }
                }
                Ok(Err(er)) => {
                    rep.violation("C26/roundtrip/encode-does-not-decode", format!("encode_slow of a decoded container fails to decode: {er:?}"), case());
                }
                Err(p) => {
                    report_panic(rep, "C26", &p, case());
                    return None;
                }
            }
            // header/body accessors stay inside the container
            let _ = guarded(|| {
                let _ = e.size();
                let _ = e.data();
                let _ = e.data_slice(0, 1 << 20);
                let _ = e.data_slice(usize::MAX - 3, 8);
                for i in 0..e.body.code_section.len() + 2 {
                    let _ = e.body.code(i);
                }
            })
            .map_err(|p| report_panic(rep, "C26", &p, case()));
        }
    }
    // verdict stability: every mode twice, and through the raw and the decoded entry points
    for (mode, mname) in [(Some(CodeType::ReturnOrStop), "runtime"), (Some(CodeType::ReturnContract), "initcode"), (None, "either")] {
        let v1 = guarded(|| validate_raw_eof_inner(raw.clone(), mode));
        let v2 = guarded(|| validate_raw_eof_inner(raw.clone(), mode));
        let (v1, v2) = match (v1, v2) {
            (Ok(a), Ok(b)) => (a, b),
            (Err(p), _) | (_, Err(p)) => {
                report_panic(rep, "C26", &p, case());
                return None;
            }
        };
        let k1 = v1.as_ref().map(|_| ()).map_err(|e| *e);
        let k2 = v2.as_ref().map(|_| ()).map_err(|e| *e);
        if k1 != k2 {
            rep.violation("C26/verdict-unstable/same-call-twice", format!("mode {mname}: {k1:?} then {k2:?}"), case());
        }
        if let Ok(e) = &dec {
            if b.len() <= 0xc000 {
                match guarded(|| validate_eof_inner(e, mode)) {
                    Ok(k3) => {
                        if k3.is_ok() != k1.is_ok() {
                            rep.violation("C26/verdict-unstable/raw-vs-decoded", format!("mode {mname}: validate_raw_eof_inner {k1:?} vs validate_eof_inner {k3:?}"), case());
                        }
                    }
                    Err(p) => {
                        report_panic(rep, "C26", &p, case());
                        return None;
                    }
                }
            }
        }
        match &k1 {
            Ok(()) => {
                rep.cell("verdicts", &format!("{mname}/accepted"));
                if mname != "either" {
                    accepted = Some(mname == "initcode");
                }
            }
            Err(e) => {
                if dec.is_ok() {
                    rep.cell("validation_errors", &err_name(e));
                }
                rep.cell("verdicts", &format!("{mname}/rejected"));
            }
        }
    }
    accepted
}

pub fn eof_addrs() -> Vec<[u8; 20]> {
    [C1, C2, C3, C4, C5, EMPTY_EXISTING, NONEXISTENT, SENDER1, Address::with_last_byte(2), Address::with_last_byte(4), Address::ZERO].iter().map(|a| a.0 .0).collect()
}

pub fn gen_valid(rng: &mut Rng, initcode: bool, tries: usize) -> Option<Vec<u8>> {
    for _ in 0..tries {
        let b = gen_container(rng, &GenCfg { n_subcontainers_max: 2, depth: 2, initcode, addrs: eof_addrs(), allow_unfilled: false });
        let mode = if initcode { CodeType::ReturnContract } else { CodeType::ReturnOrStop };
        if b.bytes.len() <= 0xc000 && validate_raw_eof_inner(Bytes::copy_from_slice(&b.bytes), Some(mode)).is_ok() {
            return Some(b.bytes);
        }
    }
    None
}

/// legacy caller: CALL(gas, target, 0, 0, 32, 0, 32) then return what came back
fn legacy_caller(target: Address) -> Vec<u8> {
    let mut a = Asm::new();
    a.push_u(32).push_u(0).push_u(32).push_u(0).push_u(0).push_addr(target).op(0x5a).op(0xf1);
    a.op(0x50).op(0x3d).push_u(0).push_u(0).op(0x3e).op(0x3d).push_u(0).op(0xf3);
    a.finish()
}

/// world with accepted runtime containers at C1..C3 and a legacy caller at C4
pub fn eof_world(rng: &mut Rng, runtime: &[Vec<u8>]) -> World {
    let mut w = World::default();
    w.accounts.insert(SENDER1, Acct { balance: U256::from(10u64).pow(U256::from(21u8)), ..Default::default() });
    for (i, a) in [C1, C2, C3].iter().enumerate() {
        if let Some(c) = runtime.get(i) {
            let mut st = std::collections::BTreeMap::new();
            for s in 0..rng.below(4) {
                st.insert(U256::from(s), U256::from(rng.below(5)));
            }
            // (a zero balance makes value-bearing EOFCREATE / EXTCALL fail before a frame exists)
            let bal = if rng.chance(1, 3) { 0 } else { rng.below(1000) };
            // (a factory whose nonce is 2^64-1 makes EOFCREATE return before a frame exists, with a
            // result class different from every other pre-frame rejection)
            let nonce = if rng.chance(1, 8) { u64::MAX } else { 1 };
            w.accounts.insert(*a, Acct { balance: U256::from(bal), nonce, code: c.clone(), storage: st });
        }
    }
    w.accounts.insert(C4, Acct { balance: U256::from(100u64), nonce: 1, code: legacy_caller(C1), ..Default::default() });
    w.accounts.insert(C5, Acct { balance: U256::from(7u64), nonce: 1, code: vec![0x60, 0x2a, 0x60, 0x00, 0x52, 0x60, 0x20, 0x60, 0x00, 0xf3], ..Default::default() });
    w.accounts.insert(EMPTY_EXISTING, Acct { balance: U256::from(1u64), ..Default::default() });
    w
}

#[derive(Default)]
pub struct ExecStats {
    pub txs: u64,
    pub panics: u64,
}

/// executes accepted containers under OSAKA; any panic (interpreter expects, debug assertions,
/// H1) is reported under `pid`
pub fn build_eof_case(rng: &mut Rng, runtime: &[Vec<u8>], initcodes: &[Vec<u8>]) -> Case {
    let spec = SpecId::OSAKA;
    let world = eof_world(rng, runtime);
    let mut block = BlockSpec::default();
    block.basefee = rng.below(20);
    let mut txs = vec![];
    let mut nonce = 0u64;
    let gases = [30_000u64, 60_000, 100_000, 250_000, 1_000_000, 5_000_000];
    for t in [C1, C2, C3, C4] {
        if !world.accounts.contains_key(&t) {
            continue;
        }
        for _ in 0..2 {
            let mut tx = TxSpec { caller: SENDER1, to: Some(t), gas_limit: *rng.pick(&gases), gas_price: U256::from(100u64), nonce: Some(nonce), ..Default::default() };
            tx.data = rng.bytes_below(100);
            if rng.chance(1, 4) {
                tx.value = U256::from(rng.below(50));
            }
            nonce += 1;
            txs.push(tx);
        }
    }
    // a create transaction whose EF00 data does not validate (rejected before any frame exists)
    if rng.chance(1, 3) {
        let base = initcodes.first().or(runtime.first()).cloned().unwrap_or_else(|| vec![0xef, 0x00, 0x01]);
        let data = mutate(rng, &base);
        if data.starts_with(&[0xef, 0x00]) {
            txs.push(TxSpec { caller: SENDER1, to: None, gas_limit: 500_000, gas_price: U256::from(100u64), nonce: Some(nonce), data, ..Default::default() });
            nonce += 1;
        }
    }
    for ic in initcodes {
        let mut data = ic.clone();
        data.extend_from_slice(&rng.bytes_below(40));
        let tx = TxSpec { caller: SENDER1, to: None, gas_limit: *rng.pick(&[200_000u64, 1_000_000, 8_000_000]), gas_price: U256::from(100u64), nonce: Some(nonce), data, ..Default::default() };
        nonce += 1;
        txs.push(tx);
    }
    Case { spec, world, block, txs }
}

/// a generated OSAKA case over accepted containers (for the online monitors)
pub fn gen_eof_case(rng: &mut Rng) -> Case {
    let mut rt = vec![];
    let mut ic = vec![];
    for _ in 0..3 {
        if let Some(c) = gen_valid(rng, false, 4) {
            rt.push(c);
        }
    }
    if rng.chance(1, 2) {
        if let Some(c) = gen_valid(rng, true, 4) {
            ic.push(c);
        }
    }
    build_eof_case(rng, &rt, &ic)
}

pub fn exec_accepted(rng: &mut Rng, rep: &mut Report, pid: &str, runtime: &[Vec<u8>], initcodes: &[Vec<u8>]) {
    let case = build_eof_case(rng, runtime, initcodes);
    let run = crate::wrun::run_history(&case, None, false);
    rep.add("eof_transactions_executed", run.outcomes.len() as u64);
    for o in &run.outcomes {
        match o {
            TxOutcome::Executed { class, reason, .. } => {
                rep.cell("eof_tx_outcomes", &format!("{class}/{reason}"));
            }
            TxOutcome::Rejected(e) => rep.cell("eof_tx_outcomes", &format!("rejected/{}", e.split(['(', '{', ' ']).next().unwrap_or(""))),
            other => {
                rep.violation(format!("{pid}/undefined-outcome/{}", other.class()), format!("transaction on validated EOF code ended with {}", other.to_json()), json!({"case": case.to_json()}));
            }
        }
    }
    if let Some((i, p)) = &run.panic {
        report_panic(rep, pid, p, json!({"case": case.to_json(), "tx_index": i, "origin": "validated EOF containers under OSAKA"}));
    }
}

/// run the shipped OSAKA state fixtures (EOF execution tests): panics only; agreement with the
/// fixtures' post-states is measured as an observation, not a criterion
pub fn run_osaka_fixtures(ctx: &Ctx, rep: &mut Report, pid: &str) {
    let files = super::c01_spec::fixture_files();
    let fr = &files;
    let nsh = 16;
    // sharded sanitizer lanes: process k of K replays every K-th file
    let (pk, pn): (usize, usize) = std::env::var("VERIF_SHARD").ok().and_then(|s| s.split_once('/').map(|(a, b)| (a.parse().unwrap_or(0), b.parse().unwrap_or(1)))).unwrap_or((0, 1));
    let r = par_shards(ctx, nsh, |si, _rng, rep| {
        for (i, f) in fr.iter().enumerate() {
            if i % nsh != si || !f.contains("eof_suite") || (i / nsh) % pn != pk {
                continue;
            }
            for fc in super::c01_spec::load_fixture_file(f) {
                if fc.case.spec != SpecId::OSAKA {
                    continue;
                }
                rep.eval();
                let run = crate::wrun::run_history(&fc.case, None, false);
                rep.count("osaka_fixture_cases_executed");
                if let Some((_, p)) = &run.panic {
                    report_panic(rep, pid, p, json!({"case": fc.case.to_json(), "origin": fc.file}));
                    continue;
                }
                rep.nontrivial(fc.case.hash());
                if let Some(post) = &fc.post {
                    let w = World { accounts: post.clone(), block_hashes: Default::default() };
                    rep.cell("observation_osaka_fixture_post_state", if world_diff(&w, &run.post).is_none() { "equal" } else { "different" });
                }
            }
        }
    });
    rep.merge(r);
}

pub fn run(ctx: &Ctx) -> i32 {
    let mut rep = Report::new();
    if let Some(path) = &ctx.replay {
        let v: Value = serde_json::from_str(&std::fs::read_to_string(path).expect("replay")).expect("json");
        if let Some(b) = v["case"]["bytes"].as_str() {
            check_bytes(&unhex(b), &mut rep, "replay");
        } else {
            let case = Case::from_json(&v["case"]["case"]);
            let run = crate::wrun::run_history(&case, None, false);
            if let Some((i, p)) = &run.panic {
                report_panic(&mut rep, "C26", p, json!({"case": case.to_json(), "tx_index": i}));
            }
        }
        println!("replayed: {} violation(s)", rep.violations.len());
        for v in &rep.violations {
            println!("  {} — {}", v.signature, v.what);
        }
        return finish(ctx, rep, Finish { level: "exploration", rule: "replay".into(), assumptions: vec![] });
    }
    let miri = ctx.lane == "miri";
    let vectors = if miri { vec![] } else { load_vectors() };
    rep.add("shipped_vectors_loaded", vectors.len() as u64);
    // (1) shipped vectors: decode/validate properties + agreement (observation)
    let vr = &vectors;
    let (pk, pn): (usize, usize) = std::env::var("VERIF_SHARD").ok().and_then(|s| s.split_once('/').map(|(a, b)| (a.parse().unwrap_or(0), b.parse().unwrap_or(1)))).unwrap_or((0, 1));
    let r = par_shards(ctx, 16, |si, rng, rep| {
        for (i, v) in vr.iter().enumerate() {
            if i % 16 != si || (i / 16) % pn != pk {
                continue;
            }
            let acc = check_bytes(&v.code, rep, "shipped-vector");
            let mode = if v.initcode { CodeType::ReturnContract } else { CodeType::ReturnOrStop };
            let verdict = validate_raw_eof_inner(Bytes::copy_from_slice(&v.code), Some(mode)).is_ok();
            rep.cell("observation_vector_agreement", if verdict == v.expected { "agrees" } else if verdict { "revm-accepts-vector-rejects" } else { "revm-rejects-vector-accepts" });
            let _ = acc;
            for _ in 0..4 {
                let m = mutate(rng, &v.code);
                check_bytes(&m, rep, "mutated-vector");
            }
            // accepted vectors are executed
            if verdict {
                if v.initcode {
                    exec_accepted(rng, rep, "C26", &[], &[v.code.clone()]);
                } else {
                    exec_accepted(rng, rep, "C26", &[v.code.clone()], &[]);
                }
            }
        }
    });
    rep.merge(r);
    // (2) generated containers, their mutations, random bytes
    let n = if miri { ctx.n(40, 120) } else { ctx.n(20_000, 1_500_000) };
    let nsh = if miri { 1 } else { 64 };
    let r = par_shards(ctx, nsh, |_si, rng, rep| {
        let mut pool_rt: Vec<Vec<u8>> = vec![];
        let mut pool_ic: Vec<Vec<u8>> = vec![];
        for k in 0..(n / nsh as u64).max(1) {
            let initcode = rng.chance(1, 3);
            let b = gen_container(rng, &GenCfg { n_subcontainers_max: 2, depth: 2, initcode, addrs: eof_addrs(), allow_unfilled: false });
            rep.cell("generated_sections", &format!("{}", b.n_sections.min(9)));
            rep.cell("generated_subcontainers", &format!("{}", b.n_sub));
            let acc = check_bytes(&b.bytes, rep, if initcode { "generated-initcode" } else { "generated-runtime" });
            let mode = if initcode { CodeType::ReturnContract } else { CodeType::ReturnOrStop };
            let ok = b.bytes.len() <= 0xc000 && validate_raw_eof_inner(Bytes::copy_from_slice(&b.bytes), Some(mode)).is_ok();
            let _ = acc;
            if ok {
                rep.count(if initcode { "generated_accepted_initcode" } else { "generated_accepted_runtime" });
                opcode_hist(&b.bytes, rep);
                if initcode {
                    pool_ic.push(b.bytes.clone());
                } else {
                    pool_rt.push(b.bytes.clone());
                }
                if rep.samples.len() < 2 && b.bytes.len() < 200 && b.n_sections > 1 {
                    rep.sample(json!({"accepted_container": hex(&b.bytes), "sections": b.n_sections, "subcontainers": b.n_sub}));
                }
            } else {
                rep.count("generated_rejected");
            }
            let m = mutate(rng, &b.bytes);
            let macc = check_bytes(&m, rep, "mutated-generated");
            if let Some(ic) = macc {
                // a mutant the validator accepts is as good as any accepted container
                rep.count("mutants_accepted");
                if ic {
                    pool_ic.push(m);
                } else {
                    pool_rt.push(m);
                }
            }
            // structured header mutations and jumps into immediates
            let hm = mutate_header(rng, &b.bytes);
            if let Some(ic) = check_bytes(&hm, rep, "header-mutated") {
                rep.count("mutants_accepted");
                if ic {
                    pool_ic.push(hm);
                } else {
                    pool_rt.push(hm);
                }
            }
            if k % 2 == 0 {
                let il = gen_immediate_landing(rng);
                if check_bytes(&il, rep, "jump-into-immediate") == Some(false) {
                    // accepted by the validator: execute it right away
                    rep.count("jump_into_immediate_accepted");
                    exec_accepted(rng, rep, "C26", &[il], &[]);
                }
            }
            if k % 4 == 0 {
                let mut r = rng.bytes_below(80);
                if rng.chance(3, 4) && r.len() >= 3 {
                    r[0] = 0xef;
                    r[1] = 0x00;
                    r[2] = 0x01;
                }
                check_bytes(&r, rep, "random-bytes");
            }
            if pool_rt.len() >= 3 || (k % 16 == 15 && (!pool_rt.is_empty() || !pool_ic.is_empty())) {
                exec_accepted(rng, rep, "C26", &pool_rt, &pool_ic);
                pool_rt.clear();
                pool_ic.clear();
            }
        }
    });
    rep.merge(r);
    if !miri {
        run_osaka_fixtures(ctx, &mut rep, "C26");
        let a = rep.counter("generated_accepted_runtime");
        rep.floor("generated runtime containers accepted by validation", a, 500);
        let b = rep.counter("generated_accepted_initcode");
        rep.floor("generated initcode containers accepted by validation", b, 100);
        let c = rep.counter("eof_transactions_executed");
        rep.floor("transactions executed on accepted containers", c, 2000);
        let d = rep.counter("decoded_ok");
        rep.floor("byte strings that decode", d, 2000);
        for op in [0xe0u8, 0xe1, 0xe2, 0xe3, 0xe4, 0xe5, 0xe6, 0xe7, 0xe8, 0xec, 0xee, 0xd0, 0xd1, 0xd2, 0xd3, 0xf7, 0xf8, 0xf9, 0xfb] {
            let have = rep.table_get("eof_opcodes_in_accepted_containers", &format!("{op:02x}"));
            rep.floor(&format!("EOF opcode 0x{op:02x} present in accepted containers"), have, 20);
        }
    }
    super::online::keep_only(&mut rep, "C26");
    finish(ctx, rep, Finish {
        level: "exploration",
        rule: "Byte strings = the shipped EOF validation vectors, 4 mutations of each, structurally generated containers (1..12 sections, CALLF/JUMPF/RETF, RJUMP/RJUMPI/RJUMPV, loops, DUPN/SWAPN/EXCHANGE, data access, nested EOFCREATE/RETURNCONTRACT sub-containers, EXT*CALL), one mutation of each, random bytes with/without the EOF magic. Per string: Eof::decode never panics; Ok(e) => encode_slow()==input, raw()==input, decode(encode(e))==e; validate_raw_eof_inner gives the same verdict twice and the same as validate_eof_inner on the decoded container, for runtime/initcode/unspecified kinds. Every accepted container (generated, accepted mutants, accepted vectors) is deployed (or sent as a create transaction) and executed under OSAKA with varied calldata, value and gas, directly and through a legacy caller; the shipped OSAKA state fixtures are executed too. Any panic refutes. Non-trivial = the string decodes; distinct by bytes.".into(),
        assumptions: vec!["agreement of the verdict with the shipped vectors is reported, not required (the property does not state conformance)".into(), "containers placed in state without validation are outside the property".into()],
    })
}

/// opcode histogram over the code sections of an accepted container (linear scan with immediates)
fn opcode_hist(b: &[u8], rep: &mut Report) {
    let Ok(e) = Eof::decode(Bytes::copy_from_slice(b)) else { return };
    for code in &e.body.code_section {
        let mut i = 0;
        while i < code.len() {
            let op = code[i];
            if op >= 0xd0 {
                rep.cell("eof_opcodes_in_accepted_containers", &format!("{op:02x}"));
            }
            let mut imm = revm::interpreter::opcode::OPCODE_INFO_JUMPTABLE[op as usize].map(|x| x.immediate_size() as usize).unwrap_or(0);
            if op == 0xe2 && i + 1 < code.len() {
                imm = 1 + (code[i + 1] as usize + 1) * 2;
            }
            i += 1 + imm;
        }
    }
    for sub in &e.body.container_section {
        opcode_hist(sub, rep);
    }
}
