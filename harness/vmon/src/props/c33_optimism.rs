//! C33 — Optimism fee accounting (lane `op`, built with revm's `optimism` feature).
//! Conservation over all accounts (sender, coinbase, the three vaults, everyone else), the amount
//! each party receives, the L1 cost against independent formulas (Bedrock, Regolith, Ecotone) and
//! against the public cost function (Fjord+), deposits: mint exactly once, mint and nonce persist
//! when the deposit fails.
use crate::evmrun::*;
use crate::fw::*;
use crate::interp::spec_name;
use crate::world::*;
use num_bigint::BigUint;
use num_traits::Zero;
use revm::optimism::{L1BlockInfo, BASE_FEE_RECIPIENT, L1_BLOCK_CONTRACT, L1_FEE_RECIPIENT, OPERATOR_FEE_RECIPIENT};
use revm::primitives::{Address, Bytes, EVMError, ExecutionResult, HaltReason, ResultAndState, SpecId, B256, U256};
use revm::{DatabaseCommit, Evm};
use serde_json::{json, Value};

const OP_SPECS: [SpecId; 8] = [SpecId::BEDROCK, SpecId::REGOLITH, SpecId::CANYON, SpecId::ECOTONE, SpecId::FJORD, SpecId::GRANITE, SpecId::HOLOCENE, SpecId::ISTHMUS];

fn op_name(s: SpecId) -> &'static str {
    match s {
        SpecId::BEDROCK => "BEDROCK",
        SpecId::REGOLITH => "REGOLITH",
        SpecId::CANYON => "CANYON",
        SpecId::ECOTONE => "ECOTONE",
        SpecId::FJORD => "FJORD",
        SpecId::GRANITE => "GRANITE",
        SpecId::HOLOCENE => "HOLOCENE",
        SpecId::ISTHMUS => "ISTHMUS",
        _ => spec_name(s),
    }
}
fn op_from_name(n: &str) -> SpecId {
    OP_SPECS.iter().copied().find(|s| op_name(*s) == n).unwrap_or(SpecId::BEDROCK)
}

#[derive(Clone, Debug)]
pub struct OpTx {
    pub tx: TxSpec,
    pub deposit: bool,
    pub mint: Option<u128>,
    pub system: Option<bool>,
    pub enveloped: Vec<u8>,
}

#[derive(Clone, Debug)]
pub struct L1Params {
    pub base_fee: U256,
    pub overhead: U256,
    pub scalar: U256,
    pub blob_base_fee: U256,
    pub base_fee_scalar: u32,
    pub blob_base_fee_scalar: u32,
    pub operator_scalar: u32,
    pub operator_constant: u64,
}

fn l1_storage(p: &L1Params) -> std::collections::BTreeMap<U256, U256> {
    let mut m = std::collections::BTreeMap::new();
    m.insert(U256::from(1u8), p.base_fee);
    m.insert(U256::from(5u8), p.overhead);
    m.insert(U256::from(6u8), p.scalar);
    m.insert(U256::from(7u8), p.blob_base_fee);
    let mut w = [0u8; 32];
    w[16..20].copy_from_slice(&p.base_fee_scalar.to_be_bytes());
    w[20..24].copy_from_slice(&p.blob_base_fee_scalar.to_be_bytes());
    m.insert(U256::from(3u8), U256::from_be_bytes(w));
    let mut w = [0u8; 32];
    w[20..24].copy_from_slice(&p.operator_scalar.to_be_bytes());
    w[24..32].copy_from_slice(&p.operator_constant.to_be_bytes());
    m.insert(U256::from(8u8), U256::from_be_bytes(w));
    m.retain(|_, v| !v.is_zero());
    m
}

fn big(x: &U256) -> BigUint {
    BigUint::from_bytes_be(&x.to_be_bytes::<32>())
}

/// independent L1 cost for the forks whose formula has no compression estimate
fn l1_cost_definition(spec: SpecId, p: &L1Params, env: &[u8]) -> Option<BigUint> {
    if env.is_empty() || env[0] == 0x7f {
        return Some(BigUint::zero());
    }
    let zeros = env.iter().filter(|b| **b == 0).count() as u64;
    let nonzeros = env.len() as u64 - zeros;
    let mut data_gas = BigUint::from(zeros * 4 + nonzeros * 16);
    let ecotone = spec >= SpecId::ECOTONE;
    let empty_scalars = p.blob_base_fee.is_zero() && p.base_fee_scalar == 0 && p.blob_base_fee_scalar == 0;
    if spec >= SpecId::FJORD {
        return None;
    }
    if ecotone && empty_scalars {
        // Ecotone with unset scalars (only the activation block, which carries no user
        // transactions): which scalar the Bedrock fallback multiplies by is not judged here
        return None;
    }
    if !ecotone {
        if spec < SpecId::REGOLITH {
            data_gas += BigUint::from(68u64 * 16);
        }
        // (data_gas + overhead) * l1_base_fee * scalar / 1e6
        return Some((data_gas + big(&p.overhead)) * big(&p.base_fee) * big(&p.scalar) / BigUint::from(1_000_000u64));
    }
    // ecotone: data_gas * (16 * base_fee * base_fee_scalar + blob_base_fee * blob_scalar) / (16 * 1e6)
    let scaled = BigUint::from(16u8) * big(&p.base_fee) * BigUint::from(p.base_fee_scalar) + big(&p.blob_base_fee) * BigUint::from(p.blob_base_fee_scalar);
    Some(data_gas * scaled / BigUint::from(16_000_000u64))
}

pub struct OpCase {
    pub spec: SpecId,
    pub world: World,
    pub block: BlockSpec,
    pub l1: L1Params,
    pub tx: OpTx,
}

impl OpCase {
    fn to_json(&self) -> Value {
        json!({"spec": op_name(self.spec), "world": self.world.to_json(), "block": self.block.to_json(), "tx": self.tx.tx.to_json(),
            "deposit": self.tx.deposit, "mint": self.tx.mint.map(|m| m.to_string()), "system": self.tx.system, "enveloped": hex(&self.tx.enveloped),
            "l1": {"base_fee": u256_hex(&self.l1.base_fee), "overhead": u256_hex(&self.l1.overhead), "scalar": u256_hex(&self.l1.scalar), "blob_base_fee": u256_hex(&self.l1.blob_base_fee),
                   "base_fee_scalar": self.l1.base_fee_scalar, "blob_base_fee_scalar": self.l1.blob_base_fee_scalar, "operator_scalar": self.l1.operator_scalar, "operator_constant": self.l1.operator_constant.to_string()}})
    }
    fn from_json(v: &Value) -> OpCase {
        let l = &v["l1"];
        OpCase {
            spec: op_from_name(v["spec"].as_str().unwrap()),
            world: World::from_json(&v["world"]),
            block: BlockSpec::from_json(&v["block"]),
            l1: L1Params {
                base_fee: parse_u256(l["base_fee"].as_str().unwrap()),
                overhead: parse_u256(l["overhead"].as_str().unwrap()),
                scalar: parse_u256(l["scalar"].as_str().unwrap()),
                blob_base_fee: parse_u256(l["blob_base_fee"].as_str().unwrap()),
                base_fee_scalar: l["base_fee_scalar"].as_u64().unwrap() as u32,
                blob_base_fee_scalar: l["blob_base_fee_scalar"].as_u64().unwrap() as u32,
                operator_scalar: l["operator_scalar"].as_u64().unwrap() as u32,
                operator_constant: l["operator_constant"].as_str().unwrap().parse().unwrap(),
            },
            tx: OpTx {
                tx: TxSpec::from_json(&v["tx"]),
                deposit: v["deposit"].as_bool().unwrap(),
                mint: v["mint"].as_str().map(|s| s.parse().unwrap()),
                system: v["system"].as_bool(),
                enveloped: unhex(v["enveloped"].as_str().unwrap()),
            },
        }
    }
}

fn transact_op(db: &mut RefDB, c: &OpCase) -> Result<ResultAndState, EVMError<String>> {
    let mut env = make_env(c.spec, &c.block, &c.tx.tx);
    env.tx.optimism.source_hash = if c.tx.deposit { Some(B256::with_last_byte(7)) } else { None };
    env.tx.optimism.mint = c.tx.mint;
    env.tx.optimism.is_system_transaction = c.tx.system;
    env.tx.optimism.enveloped_tx = Some(Bytes::copy_from_slice(&c.tx.enveloped));
    let mut evm = Evm::builder().with_db(db).with_spec_id(c.spec).with_env(env).optimism().build();
    evm.transact()
}

fn op_env(c: &OpCase, t: &OpTx) -> Box<revm::primitives::Env> {
    let mut env = make_env(c.spec, &c.block, &t.tx);
    env.tx.optimism.source_hash = if t.deposit { Some(B256::with_last_byte(7)) } else { None };
    env.tx.optimism.mint = t.mint;
    env.tx.optimism.is_system_transaction = t.system;
    env.tx.optimism.enveloped_tx = Some(Bytes::copy_from_slice(&t.enveloped));
    env
}

/// Two transactions (different enveloped bytes, so different L1 costs) on ONE Optimism Evm versus a
/// fresh Evm per transaction over an identically evolving database: the second transaction must not
/// see anything the first one cached (L1 block info, per-transaction L1 cost).
fn check_reuse(c: &OpCase, second: &OpTx, rep: &mut Report) {
    rep.eval();
    rep.count("two_transaction_sequences_on_one_evm");
    let cj = || json!({"case": c.to_json(), "second": {"tx": second.tx.to_json(), "deposit": second.deposit, "mint": second.mint.map(|m| m.to_string()), "system": second.system, "enveloped": hex(&second.enveloped)}, "mode": "one Evm for both transactions vs a fresh Evm each"});
    let r = guarded(|| {
        // reused
        let mut db_a = RefDB::new(c.world.clone(), c.spec);
        let (a1, a2) = {
            let mut evm = Evm::builder().with_db(&mut db_a).with_spec_id(c.spec).with_env(op_env(c, &c.tx)).optimism().build();
            let a1 = evm.transact();
            if let Ok(rs) = &a1 {
                use revm::DatabaseCommit;
                evm.context.evm.db.commit(rs.state.clone());
            }
            evm.context.evm.env = op_env(c, second);
            let a2 = evm.transact();
            (a1, a2)
        };
        // fresh
        let mut db_b = RefDB::new(c.world.clone(), c.spec);
        let b1 = Evm::builder().with_db(&mut db_b).with_spec_id(c.spec).with_env(op_env(c, &c.tx)).optimism().build().transact();
        if let Ok(rs) = &b1 {
            use revm::DatabaseCommit;
            db_b.commit(rs.state.clone());
        }
        let b2 = Evm::builder().with_db(&mut db_b).with_spec_id(c.spec).with_env(op_env(c, second)).optimism().build().transact();
        (a1.is_ok() == b1.is_ok(), a2, b2, db_a.world.clone(), db_b.world.clone())
    });
    let (first_same, a2, b2, wa, wb) = match r {
        Err(p) => {
            report_panic(rep, "C33", &p, cj());
            return;
        }
        Ok(x) => x,
    };
    if !first_same || world_diff(&wa, &wb).is_some() {
        rep.inconclusive("C33 reuse harness: the first transaction differed between the twins".to_string());
        return;
    }
    let fork = op_name(c.spec);
    match (a2, b2) {
        (Ok(x), Ok(y)) => {
            if x.result != y.result {
                rep.violation(format!("C33/reused-evm/second-transaction-result-differs/{fork}"), format!("reused {:?} vs fresh {:?}", outcome_of::<String>(&Ok(x.result.clone())).to_json().to_string(), outcome_of::<String>(&Ok(y.result.clone())).to_json().to_string()), cj());
                return;
            }
            let (mut wx, mut wy) = (wa.clone(), wb.clone());
            let mut cx = std::collections::BTreeMap::new();
            let mut cy = std::collections::BTreeMap::new();
            apply_evm_state(&mut wx, &mut cx, &x.state, c.spec);
            apply_evm_state(&mut wy, &mut cy, &y.state, c.spec);
            if let Some(d) = world_diff(&wy, &wx) {
                let who = [(L1_FEE_RECIPIENT, "l1-fee-vault"), (BASE_FEE_RECIPIENT, "base-fee-vault"), (OPERATOR_FEE_RECIPIENT, "operator-fee-vault"), (second.tx.caller, "sender")].iter().find(|(a, _)| wx.accounts.get(a).map(|q| q.balance) != wy.accounts.get(a).map(|q| q.balance)).map(|(_, n)| *n).unwrap_or("other");
                rep.violation(format!("C33/reused-evm/second-transaction-state-differs/{who}/{fork}"), format!("fresh vs reused after the second transaction: {d}"), cj());
                return;
            }
            rep.count("second_transactions_equal_on_reused_evm");
        }
        (Err(x), Err(y)) => {
            if format!("{x:?}") != format!("{y:?}") {
                rep.violation(format!("C33/reused-evm/second-transaction-error-differs/{fork}"), format!("reused {x:?} vs fresh {y:?}"), cj());
            }
        }
        (x, y) => {
            rep.violation(format!("C33/reused-evm/second-transaction-verdict-differs/{fork}"), format!("reused ok={} fresh ok={}", x.is_ok(), y.is_ok()), cj());
        }
    }
}

fn gen_case(rng: &mut Rng) -> OpCase {
    let spec = *rng.pick(&OP_SPECS);
    let mut f = Features::swarm(rng, spec);
    f.selfdestruct = false;
    f.fee_parties = false;
    // no COINBASE / ORIGIN / CALLER results and no raw bytes: programs cannot name a fee party
    f.env = false;
    f.raw = false;
    let mut world = gen_world(rng, &f, spec);
    // balances stay far from 2^256-1: the saturating credit of fee recipients at the maximum is
    // recorded under C08/C09 and would only repeat here
    for a in world.accounts.values_mut() {
        if a.balance > (U256::from(1u8) << 200) {
            a.balance = U256::from(1u8) << 100;
        }
    }
    // fee parameters: realistic magnitudes and zeros
    let small = |rng: &mut Rng| -> U256 { if rng.chance(1, 5) { U256::ZERO } else { U256::from(rng.below(50_000_000_000)) } };
    let l1 = L1Params {
        base_fee: small(rng),
        overhead: U256::from(rng.below(5000)),
        scalar: U256::from(rng.below(2_000_000)),
        blob_base_fee: small(rng),
        base_fee_scalar: if rng.chance(1, 5) { 0 } else { rng.below(3_000_000) as u32 },
        blob_base_fee_scalar: if rng.chance(1, 5) { 0 } else { rng.below(3_000_000) as u32 },
        operator_scalar: if rng.chance(1, 4) { 0 } else { rng.below(5_000_000) as u32 },
        operator_constant: if rng.chance(1, 3) { 0 } else { rng.below(1_000_000_000) },
    };
    world.accounts.insert(L1_BLOCK_CONTRACT, Acct { nonce: 1, code: vec![0x00], storage: l1_storage(&l1), ..Default::default() });
    for v in [L1_FEE_RECIPIENT, BASE_FEE_RECIPIENT, OPERATOR_FEE_RECIPIENT] {
        if rng.chance(1, 2) {
            world.accounts.insert(v, Acct { balance: U256::from(rng.below(1_000_000)), ..Default::default() });
        }
    }
    let block = gen_block(rng, spec);
    let mut tx = gen_valid_tx(rng, &f, spec, &world, &block);
    tx.blob_hashes.clear();
    tx.max_fee_per_blob_gas = None;
    tx.auth_list = None;
    let kind = rng.below(10);
    let deposit = kind < 3;
    let mut mint = None;
    let mut system = None;
    if deposit {
        tx.gas_price = U256::ZERO;
        tx.priority_fee = None;
        mint = match rng.below(4) {
            0 => None,
            1 => Some(0),
            2 => Some(rng.below(1_000_000_000_000) as u128),
            _ => Some((rng.next() as u128) << 32),
        };
        if rng.chance(1, 3) {
            system = Some(rng.chance(1, 2));
        }
        if rng.chance(1, 4) {
            // deposits that fail validation-like checks still have to persist mint and nonce
            tx.gas_limit = rng.below(30_000);
        }
        if rng.chance(1, 5) {
            tx.nonce = None;
        }
    } else if kind == 3 && spec < SpecId::REGOLITH {
        system = Some(false);
    }
    // the enveloped bytes: an EIP-2718-ish blob of calldata-like bytes (what the L1 cost is computed from)
    let mut enveloped = vec![*rng.pick(&[0x02u8, 0x01, 0xf8, 0x7e])];
    let n = rng.usize(400);
    for _ in 0..n {
        enveloped.push(if rng.chance(1, 3) { 0 } else { rng.below(256) as u8 });
    }
    if rng.chance(1, 12) {
        enveloped.clear();
    }
    OpCase { spec, world, block, l1, tx: OpTx { tx, deposit, mint, system, enveloped } }
}

fn code_mentions(world: &World, a: &Address) -> bool {
    world.accounts.values().any(|acc| acc.code.windows(20).any(|w| w == a.as_slice()))
}

pub fn check_case(c: &OpCase, rep: &mut Report) {
    rep.eval();
    let fork = op_name(c.spec);
    let cj = || c.to_json();
    let mut db = RefDB::new(c.world.clone(), c.spec);
    let pre = c.world.clone();
    let res = match guarded(|| transact_op(&mut db, c)) {
        Err(p) => {
            report_panic(rep, "C33", &p, cj());
            return;
        }
        Ok(r) => r,
    };
    let kind = if c.tx.deposit { "deposit" } else { "regular" };
    let caller = c.tx.tx.caller;
    let bal = |w: &World, a: &Address| big(&w.accounts.get(a).map(|x| x.balance).unwrap_or_default());
    let nonce = |w: &World, a: &Address| w.accounts.get(a).map(|x| x.nonce).unwrap_or(0);
    match res {
        Err(e) => {
            let es = format!("{e:?}");
            rep.cell(&format!("outcomes/{kind}"), &format!("rejected/{}", es.split(['(', '{', ' ']).nth(1).unwrap_or("")));
            if c.tx.deposit {
                // a deposit never fails to be included
                rep.violation(format!("C33/deposit-rejected/{fork}"), format!("deposit transaction returned an error instead of a result: {es}"), cj());
            }
        }
        Ok(rs) => {
            let (class, gas_used) = match &rs.result {
                ExecutionResult::Success { gas_used, .. } => ("success", *gas_used),
                ExecutionResult::Revert { gas_used, .. } => ("revert", *gas_used),
                ExecutionResult::Halt { gas_used, reason } => (if matches!(reason, HaltReason::FailedDeposit) { "failed-deposit" } else { "halt" }, *gas_used),
            };
            rep.cell(&format!("outcomes/{kind}"), class);
            rep.cell("cases_per_fork", fork);
            let touched: Vec<Address> = rs.state.keys().copied().collect();
            db.commit(rs.state);
            let post = db.world.clone();
            let total_pre = pre.total_balance();
            let total_post = post.total_balance();
            rep.nontrivial(hash64(c.to_json().to_string().as_bytes()));
            if c.tx.deposit {
                let mint = BigUint::from(c.tx.mint.unwrap_or(0));
                rep.count("deposits_checked");
                if total_post != &total_pre + &mint {
                    let (dir, d) = if total_post > &total_pre + &mint { ("created", &total_post - (&total_pre + &mint)) } else { ("destroyed", (&total_pre + &mint) - &total_post) };
                    rep.violation(format!("C33/deposit/mint-not-exact/{dir}/{class}/{fork}"), format!("total before {total_pre} + mint {mint} vs after {total_post}: {d} wei {dir}"), cj());
                }
                if nonce(&post, &caller) != nonce(&pre, &caller) + 1 && !(c.tx.tx.to.is_none() && class == "success") {
                    rep.violation(format!("C33/deposit/nonce-not-incremented/{class}/{fork}"), format!("sender nonce {} -> {}", nonce(&pre, &caller), nonce(&post, &caller)), cj());
                }
                if class == "failed-deposit" {
                    rep.count("failed_deposits_checked");
                    if touched != vec![caller] {
                        rep.violation(format!("C33/deposit/failed-deposit-changes-more-than-the-sender/{fork}"), format!("state of a failed deposit names {} accounts", touched.len()), cj());
                    }
                    if bal(&post, &caller) != bal(&pre, &caller) + &mint {
                        rep.violation(format!("C33/deposit/failed-deposit-balance/{fork}"), format!("sender balance {} -> {} with mint {mint}", bal(&pre, &caller), bal(&post, &caller)), cj());
                    }
                }
                // no fee party is paid by a deposit
                for (v, n) in [(L1_FEE_RECIPIENT, "l1-vault"), (BASE_FEE_RECIPIENT, "base-vault"), (OPERATOR_FEE_RECIPIENT, "operator-vault")] {
                    if bal(&post, &v) != bal(&pre, &v) && !code_mentions(&pre, &v) {
                        rep.violation(format!("C33/deposit/vault-paid/{n}/{fork}"), format!("{n} balance changed by a deposit: {} -> {}", bal(&pre, &v), bal(&post, &v)), cj());
                    }
                }
                return;
            }
            rep.count("regular_transactions_checked");
            // conservation: nothing is burned on Optimism (base fee goes to its vault)
            if total_post != total_pre {
                let (dir, d) = if total_post > total_pre { ("created", &total_post - &total_pre) } else { ("destroyed", &total_pre - &total_post) };
                let cause = if c.spec >= SpecId::ISTHMUS && c.l1.operator_scalar != 0 { "operator-fee" } else { "other" };
                rep.violation(format!("C33/regular/ether-{dir}/{cause}/{class}/{fork}"), format!("total before {total_pre} after {total_post}: {d} wei {dir} (gas_used {gas_used} of {})", c.tx.tx.gas_limit), cj());
            }
            // per-party amounts (when no program can move ether to or from the fee parties)
            let parties = [L1_FEE_RECIPIENT, BASE_FEE_RECIPIENT, OPERATOR_FEE_RECIPIENT, c.block.coinbase];
            let in_data = |a: &Address| c.tx.tx.data.windows(20).any(|w| w == a.as_slice());
            if parties.iter().any(|a| code_mentions(&pre, a) || in_data(a)) || parties.contains(&caller) || c.tx.tx.to.is_some_and(|t| parties.contains(&t)) {
                rep.count("regular_transactions_skipping_per_party_amounts");
                return;
            }
            let gu = BigUint::from(gas_used);
            let basefee = BigUint::from(c.block.basefee);
            let price = {
                // effective gas price
                let gp = big(&c.tx.tx.gas_price);
                match c.tx.tx.priority_fee {
                    Some(p) if c.spec >= SpecId::LONDON => (basefee.clone() + big(&p)).min(gp),
                    _ => gp,
                }
            };
            let tip = if c.spec >= SpecId::LONDON { &price - basefee.clone().min(price.clone()) } else { price.clone() };
            let d = |a: &Address| -> (BigUint, BigUint) { (bal(&pre, a), bal(&post, a)) };
            let (b0, b1) = d(&BASE_FEE_RECIPIENT);
            if b1 != &b0 + &basefee * &gu {
                rep.violation(format!("C33/regular/base-fee-vault-amount/{fork}"), format!("base fee vault {b0} -> {b1}, expected + basefee {basefee} * gas_used {gas_used}"), cj());
            }
            let (c0, c1) = d(&c.block.coinbase);
            if c1 != &c0 + &tip * &gu {
                rep.violation(format!("C33/regular/beneficiary-amount/{fork}"), format!("coinbase {c0} -> {c1}, expected + tip {tip} * gas_used {gas_used}"), cj());
            }
            // L1 cost
            let (l0, l1b) = d(&L1_FEE_RECIPIENT);
            let l1_paid = &l1b - &l0;
            let public = {
                let mut db2 = RefDB::new(c.world.clone(), c.spec);
                let mut info = L1BlockInfo::try_fetch(&mut db2, c.spec).expect("l1 info");
                big(&info.calculate_tx_l1_cost(&c.tx.enveloped, c.spec))
            };
            if l1_paid != public {
                rep.violation(format!("C33/regular/l1-vault-differs-from-public-cost-function/{fork}"), format!("L1 fee vault received {l1_paid}, calculate_tx_l1_cost gives {public}"), cj());
            }
            if let Some(def) = l1_cost_definition(c.spec, &c.l1, &c.tx.enveloped) {
                rep.count("l1_costs_compared_with_definition");
                if def != l1_paid {
                    rep.violation(format!("C33/regular/l1-cost-differs-from-definition/{fork}"), format!("L1 fee vault received {l1_paid}, the fork's formula gives {def} (enveloped {} bytes)", c.tx.enveloped.len()), cj());
                }
            }
            // operator fee: what the vault gets is what the sender finally pays for it
            let (o0, o1) = d(&OPERATOR_FEE_RECIPIENT);
            let op_paid = &o1 - &o0;
            let want_op = if c.spec >= SpecId::ISTHMUS { &gu * BigUint::from(c.l1.operator_scalar) / BigUint::from(1_000_000u64) + BigUint::from(c.l1.operator_constant) } else { BigUint::zero() };
            if op_paid != want_op {
                rep.violation(format!("C33/regular/operator-vault-amount/{fork}"), format!("operator fee vault received {op_paid}, expected gas_used*scalar/1e6 + constant = {want_op}"), cj());
            }
            // the sender's total debit
            let moved = if class == "success" { big(&c.tx.tx.value) } else { BigUint::zero() };
            let (s0, s1) = d(&caller);
            let want_debit = &moved + &price * &gu + &l1_paid + &op_paid;
            if s0 < s1 || &s0 - &s1 != want_debit {
                let got = if s0 >= s1 { format!("-{}", &s0 - &s1) } else { format!("+{}", &s1 - &s0) };
                let cause = if c.spec >= SpecId::ISTHMUS && c.l1.operator_scalar != 0 { "operator-fee" } else { "other" };
                rep.violation(format!("C33/regular/sender-debit/{cause}/{class}/{fork}"), format!("sender balance change {got}, expected -{want_debit} (value {moved} + gas {gas_used}*{price} + l1 {l1_paid} + operator {op_paid})"), cj());
            }
        }
    }
}

pub fn run(ctx: &Ctx) -> i32 {
    let mut rep = Report::new();
    if let Some(path) = &ctx.replay {
        let v: Value = serde_json::from_str(&std::fs::read_to_string(path).expect("replay")).expect("json");
        let c = OpCase::from_json(&v["case"]);
        check_case(&c, &mut rep);
        println!("replayed: {} violation(s)", rep.violations.len());
        for v in &rep.violations {
            println!("  {} — {}", v.signature, v.what);
        }
        return finish(ctx, rep, Finish { level: "exploration", rule: "replay".into(), assumptions: vec![] });
    }
    let n = ctx.n(20_000, 2_000_000);
    let nsh = 64;
    let r = par_shards(ctx, nsh, |_si, rng, rep| {
        for k in 0..(n / nsh as u64).max(1) {
            let c = gen_case(rng);
            check_case(&c, rep);
            if k % 4 == 0 {
                // a second transaction of another generated case on the same world
                let mut second = gen_case(rng).tx;
                second.tx.nonce = None;
                second.tx.caller = c.tx.tx.caller;
                check_reuse(&c, &second, rep);
            }
            if rep.samples.len() < 2 && k == 3 {
                rep.sample(json!({"spec": op_name(c.spec), "deposit": c.tx.deposit, "mint": c.tx.mint.map(|m| m.to_string()), "enveloped_len": c.tx.enveloped.len(), "tx": c.tx.tx.to_json()}));
            }
        }
    });
    rep.merge(r);
    for (k, need) in [("regular_transactions_checked", 2000u64), ("deposits_checked", 1000), ("failed_deposits_checked", 50), ("l1_costs_compared_with_definition", 500), ("second_transactions_equal_on_reused_evm", 500)] {
        let have = rep.counter(k);
        rep.floor(k, have, need);
    }
    for s in OP_SPECS {
        let have = rep.table_get("cases_per_fork", op_name(s));
        rep.floor(&format!("cases for {}", op_name(s)), have, 100);
    }
    finish(ctx, rep, Finish {
        level: "exploration",
        rule: "Generated worlds (W without SELFDESTRUCT and without programs naming fee parties) with an L1 block contract whose slots carry generated fee parameters (zero and realistic values of base fee, overhead, scalar, blob base fee, the packed Ecotone scalars, the Isthmus operator scalar/constant); one transaction per case under Bedrock..Isthmus with the Optimism handler: regular (with generated enveloped bytes, incl. empty and 0x7f-prefixed), deposits (mint none/0/small/2^96-ish, system flag, gas limits below the intrinsic cost, missing nonce), pre-Regolith system flags. Regular: sum of all balances before == after; base-fee vault += basefee*gas_used; coinbase += tip*gas_used; L1 vault += calculate_tx_l1_cost(enveloped) and, for Bedrock/Regolith/Canyon/Ecotone, == the fork's formula evaluated independently in BigUint; operator vault += gas_used*scalar/1e6 + constant (Isthmus); sender debit == value moved + gas_used*price + L1 cost + operator fee. Deposits: sum after == sum before + mint; nonce + 1; a failed deposit's state names only the sender with balance + mint; no vault is paid. Every fourth case continues with a second generated transaction (other enveloped bytes, so another L1 cost) on the SAME Evm and, as a twin, on a fresh Evm over the same database: result and state of the second transaction must be equal. Non-trivial = an executed transaction; distinct by case.".into(),
        assumptions: vec!["Fjord+ L1 cost (FastLZ size estimate) has no independent definition here: the amount paid is compared with the public cost function only".into(), "deposits carry gas price 0 (as the protocol builds them)".into()],
    })
}

// ------------------------------------------------------------------------------------------------
// C22, Optimism clause (lane op): with rewards disabled neither the beneficiary nor any fee vault
// is paid, everything else equals the run with rewards enabled, and the setting survives
// reconfiguration.
// ------------------------------------------------------------------------------------------------
fn transact_op_cfg(db: &mut RefDB, c: &OpCase, how: &str) -> Result<ResultAndState, EVMError<String>> {
    let mut env = make_env(c.spec, &c.block, &c.tx.tx);
    env.tx.optimism.source_hash = None;
    env.tx.optimism.mint = None;
    env.tx.optimism.is_system_transaction = None;
    env.tx.optimism.enveloped_tx = Some(Bytes::copy_from_slice(&c.tx.enveloped));
    match how {
        "enabled" => Evm::builder().with_db(db).with_spec_id(c.spec).with_env(env).optimism().build().transact(),
        "cfg-flag" => {
            env.cfg.disable_beneficiary_reward = true;
            Evm::builder().with_db(db).with_spec_id(c.spec).with_env(env).optimism().build().transact()
        }
        "handler-flag" => {
            let ctx = revm::Context::new(revm::EvmContext::new_with_env(db, env), ());
            let mut evm = Evm::new(ctx, revm::Handler::optimism_with_spec(c.spec, false));
            evm.transact()
        }
        "handler-flag+modify_spec_id" => {
            let ctx = revm::Context::new(revm::EvmContext::new_with_env(db, env), ());
            // start in another Optimism fork and switch to the case's fork
            let other = if c.spec == SpecId::BEDROCK { SpecId::REGOLITH } else { SpecId::BEDROCK };
            let mut evm = Evm::new(ctx, revm::Handler::optimism_with_spec(other, false));
            evm.modify_spec_id(c.spec);
            evm.transact()
        }
        _ => {
            let ctx = revm::Context::new(revm::EvmContext::new_with_env(db, env), ());
            let evm = Evm::new(ctx, revm::Handler::optimism_with_spec(c.spec, false));
            let mut evm = evm.modify().append_handler_register(|_h| {}).build();
            evm.transact()
        }
    }
}

pub fn run_c22_clause(ctx: &Ctx) -> i32 {
    let mut rep = Report::new();
    let replay_case: Option<(OpCase, String)> = ctx.replay.as_ref().map(|path| {
        let v: Value = serde_json::from_str(&std::fs::read_to_string(path).expect("replay")).expect("json");
        (OpCase::from_json(&v["case"]["case"]), v["case"]["how"].as_str().unwrap_or("handler-flag").to_string())
    });
    let n = if replay_case.is_some() { 1 } else { ctx.n(8_000, 600_000) };
    let nsh = if replay_case.is_some() { 1 } else { 64 };
    let rc = &replay_case;
    let r = par_shards(ctx, nsh, |_si, rng, rep| {
        for _ in 0..(n / nsh as u64).max(1) {
            let (mut c, how): (OpCase, String) = match rc {
                Some((c, h)) => (OpCase::from_json(&c.to_json()), h.clone()),
                None => (gen_case(rng), rng.pick(&["cfg-flag", "handler-flag", "handler-flag+modify_spec_id", "handler-flag+append-register"]).to_string()),
            };
            c.tx.deposit = false;
            c.tx.mint = None;
            c.tx.system = None;
            if c.tx.tx.gas_price.is_zero() {
                c.tx.tx.gas_price = U256::from(c.block.basefee + 3);
            }
            rep.eval();
            let cj = || json!({"case": c.to_json(), "how": how});
            let mut db_on = RefDB::new(c.world.clone(), c.spec);
            let mut db_off = RefDB::new(c.world.clone(), c.spec);
            let on = guarded(|| transact_op_cfg(&mut db_on, &c, "enabled"));
            let off = guarded(|| transact_op_cfg(&mut db_off, &c, &how));
            let (on, off) = match (on, off) {
                (Ok(a), Ok(b)) => (a, b),
                (Err(p), _) | (_, Err(p)) => {
                    report_panic(rep, "C22", &p, cj());
                    continue;
                }
            };
            rep.cell("op_clause_variants", &how);
            let (Ok(on), Ok(off)) = (on, off) else {
                rep.count("op_clause_rejected_transactions");
                continue;
            };
            rep.nontrivial(hash64(c.to_json().to_string().as_bytes()));
            rep.count("op_clause_executed_pairs");
            let fork = op_name(c.spec);
            if format!("{:?}", on.result) != format!("{:?}", off.result) {
                rep.violation(format!("C22/optimism/result-differs/{how}/{fork}"), "ExecutionResult differs between rewards enabled and disabled".to_string(), cj());
                continue;
            }
            db_on.commit(on.state);
            db_off.commit(off.state);
            let parties = [c.block.coinbase, L1_FEE_RECIPIENT, BASE_FEE_RECIPIENT, OPERATOR_FEE_RECIPIENT];
            let named = parties.iter().any(|a| code_mentions(&c.world, a) || c.tx.tx.data.windows(20).any(|w| w == a.as_slice())) || parties.contains(&c.tx.tx.caller) || c.tx.tx.to.is_some_and(|t| parties.contains(&t));
            for (a, name) in parties.iter().zip(["beneficiary", "l1-fee-vault", "base-fee-vault", "operator-fee-vault"]) {
                let pre = c.world.accounts.get(a).map(|x| x.balance).unwrap_or_default();
                let post = db_off.world.accounts.get(a).map(|x| x.balance).unwrap_or_default();
                if !named && post != pre {
                    rep.violation(format!("C22/optimism/{name}-paid-with-rewards-disabled/{how}/{fork}"), format!("{name} {pre} -> {post} although rewards are disabled ({how})"), cj());
                }
            }
            // every other effect identical: all accounts except the four fee parties
            let mut w_on = db_on.world.clone();
            let mut w_off = db_off.world.clone();
            for a in parties.iter() {
                w_on.accounts.remove(a);
                w_off.accounts.remove(a);
            }
            if !named {
                if let Some(d) = world_diff(&w_on, &w_off) {
                    rep.violation(format!("C22/optimism/other-effects-differ/{how}/{fork}"), format!("state apart from the fee parties differs: {d}"), cj());
                }
            }
        }
    });
    rep.merge(r);
    if replay_case.is_none() {
        let have = rep.counter("op_clause_executed_pairs");
        rep.floor("executed enabled/disabled pairs (Optimism)", have, 1000);
    } else {
        println!("replayed: {} violation(s)", rep.violations.len());
    }
    finish(ctx, rep, Finish {
        level: "exploration",
        rule: "Optimism clause of C22 (lane op): generated regular Optimism transactions (C33's generator, Bedrock..Isthmus, generated L1 fee parameters) run with rewards enabled and with rewards disabled through (a) CfgEnv::disable_beneficiary_reward, (b) Handler::optimism_with_spec(spec,false), (c) b + modify_spec_id from another fork, (d) b + modify().append_handler_register().build(): the ExecutionResult must be equal, the beneficiary and the L1-fee, base-fee and operator-fee vaults must keep their balances in the disabled run, and every other account must end equal in both runs. Non-trivial = both runs executed; distinct by case.".into(),
        assumptions: vec!["programs cannot name the fee parties".into()],
    })
}
