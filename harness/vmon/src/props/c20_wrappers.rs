//! C20 — database wrappers answer queries exactly like the data they wrap (plus committed changes).
use crate::evmrun::*;
use crate::fw::*;
use crate::interp::*;
use crate::keccak::keccak256;
use crate::statehist::*;
use crate::world::*;
use revm::db::{CacheDB, DatabaseComponents, EmptyDB, State, WrapDatabaseRef};
use revm::primitives::{Address, EvmState, SpecId, B256, KECCAK_EMPTY, U256};
use revm::{Database, DatabaseCommit, DatabaseRef};
use serde_json::{json, Value};
use std::collections::{BTreeMap, BTreeSet};

#[derive(Clone, Copy)]
struct Mode {
    /// wrapper has no state-clear notion: absent == empty, and storage of accounts the reference
    /// removed by state clearing is not compared
    absent_eq_empty: bool,
    check_has_storage: bool,
}

struct Expect<'a> {
    world: &'a World,
    codes: &'a BTreeMap<B256, Vec<u8>>,
    hashes: &'a BTreeMap<u64, B256>,
    cleared: &'a BTreeSet<Address>,
    universe: &'a BTreeMap<Address, BTreeSet<U256>>,
    numbers: &'a [u64],
}

fn norm_hash(h: B256) -> B256 {
    if h.is_zero() {
        KECCAK_EMPTY
    } else {
        h
    }
}

/// returns (kind, detail) of the first wrong answer
fn check_db<D: Database>(db: &mut D, e: &Expect, m: Mode, via_ref: Option<&dyn Fn(Address) -> Option<bool>>) -> Option<(String, String)>
where
    D::Error: core::fmt::Debug,
{
    let mut side: Vec<(String, String)> = vec![];
    let r = check_db_inner(db, e, m, &mut side);
    // a wrong has_storage answer is reported but does not stop the other comparisons
    r.or_else(|| side.into_iter().next()).map(|x| {
        let _ = via_ref;
        x
    })
}

fn check_db_inner<D: Database>(db: &mut D, e: &Expect, m: Mode, side: &mut Vec<(String, String)>) -> Option<(String, String)>
where
    D::Error: core::fmt::Debug,
{
    for (a, slots) in e.universe.iter() {
        let want = e.world.accounts.get(a);
        let got = match db.basic(*a) {
            Ok(g) => g,
            Err(er) => return Some(("basic/error".into(), format!("{} -> {:?}", addr_hex(a), er))),
        };
        match (want, &got) {
            (None, None) => {}
            (Some(w), None) => {
                if !(m.absent_eq_empty && w.is_empty()) {
                    return Some(("basic/absent-but-exists".into(), format!("{}: wrapper says absent, data has an account", addr_hex(a))));
                }
            }
            (None, Some(g)) => {
                if !(m.absent_eq_empty && g.is_empty()) {
                    return Some(("basic/exists-but-absent".into(), format!("{}: wrapper returns an account, data has none", addr_hex(a))));
                }
            }
            (Some(w), Some(g)) => {
                if g.balance != w.balance {
                    return Some(("basic/balance".into(), format!("{}: balance {} vs {}", addr_hex(a), g.balance, w.balance)));
                }
                if g.nonce != w.nonce {
                    return Some(("basic/nonce".into(), format!("{}: nonce {} vs {}", addr_hex(a), g.nonce, w.nonce)));
                }
                if norm_hash(g.code_hash) != code_hash(&w.code) {
                    return Some(("basic/code_hash".into(), format!("{}: code hash {} vs {}", addr_hex(a), hex(g.code_hash.as_slice()), hex(code_hash(&w.code).as_slice()))));
                }
                if let Some(c) = &g.code {
                    if c.original_bytes().as_ref() != w.code.as_slice() {
                        return Some(("basic/inline-code".into(), format!("{}: inline code differs", addr_hex(a))));
                    }
                }
                if !w.code.is_empty() {
                    match db.code_by_hash(code_hash(&w.code)) {
                        Ok(c) => {
                            if c.original_bytes().as_ref() != w.code.as_slice() {
                                return Some(("code_by_hash/bytes".into(), format!("{}: code_by_hash returns different bytes", addr_hex(a))));
                            }
                        }
                        Err(er) => return Some(("code_by_hash/error".into(), format!("{:?}", er))),
                    }
                }
            }
        }
        let skip_storage = m.absent_eq_empty && e.cleared.contains(a);
        if !skip_storage {
            for s in slots {
                let wv = want.and_then(|w| w.storage.get(s).copied()).unwrap_or_default();
                match db.storage(*a, *s) {
                    Ok(v) => {
                        if v != wv {
                            return Some(("storage/value".into(), format!("{} slot {}: {} vs {}", addr_hex(a), s, v, wv)));
                        }
                    }
                    Err(er) => return Some(("storage/error".into(), format!("{:?}", er))),
                }
            }
            if m.check_has_storage {
                let wh = want.map(|w| w.storage.values().any(|v| !v.is_zero())).unwrap_or(false);
                match db.has_storage(*a) {
                    Ok(h) => {
                        if h != wh && side.is_empty() {
                            side.push((format!("has_storage/answers-{}-for-account-{}", h, if wh { "with-storage" } else { "without-storage" }), format!("{}: has_storage {} but data says {}", addr_hex(a), h, wh)));
                        }
                    }
                    Err(er) => return Some(("has_storage/error".into(), format!("{:?}", er))),
                }
            }
        }
    }
    for n in e.numbers {
        let w = e.hashes.get(n).copied().unwrap_or(B256::ZERO);
        match db.block_hash(*n) {
            Ok(h) => {
                if h != w {
                    return Some(("block_hash/value".into(), format!("block {}: {} vs {}", n, hex(h.as_slice()), hex(w.as_slice()))));
                }
            }
            Err(er) => return Some(("block_hash/error".into(), format!("{:?}", er))),
        }
    }
    None
}

fn check_dbref<D: DatabaseRef>(db: &D, e: &Expect, m: Mode) -> Option<(String, String)>
where
    D::Error: core::fmt::Debug,
{
    let mut w = WrapDatabaseRef(db);
    check_db(&mut w, e, m, None).map(|(k, d)| (format!("ref/{k}"), d))
}

fn block_numbers(rng: &mut Rng) -> Vec<u64> {
    // around the 256-block window of head 1000, in an order that makes State prune, then re-query
    let mut v: Vec<u64> = (1000 - 258..=1002).collect();
    match rng.below(3) {
        0 => {}
        1 => v.reverse(),
        _ => {
            for i in (1..v.len()).rev() {
                let j = rng.usize(i + 1);
                v.swap(i, j);
            }
        }
    }
    let again: Vec<u64> = v.iter().copied().filter(|_| rng.chance(1, 3)).collect();
    v.extend(again);
    v.push(0);
    v.push(u64::MAX);
    v
}

fn one_case(rng: &mut Rng, rep: &mut Report) {
    // underlying data + a commit history produced by real execution on the reference
    let h = if rng.chance(1, 2) {
        let sp = *rng.pick(&[SpecId::PETERSBURG, SpecId::ISTANBUL, SpecId::BERLIN, SpecId::SHANGHAI, SpecId::CANCUN, SpecId::PRAGUE]);
        gen_lifecycle(rng, sp)
    } else {
        let sp = random_spec(rng, false);
        gen_w_history(rng, sp)
    };
    let hj = || h.to_json();
    rep.eval();
    rep.nontrivial(h.hash());
    // reference run collecting the committed EvmStates
    let mut refdb = RefDB::new(h.world.clone(), h.spec);
    let mut states: Vec<EvmState> = vec![];
    let mut worlds: Vec<World> = vec![h.world.clone()];
    let mut cleared: BTreeSet<Address> = BTreeSet::new();
    for s in &h.steps {
        if let Step::Tx(tx) = s {
            let r = guarded(|| crate::wrun::transact_plain(&mut refdb, h.spec, &h.block, tx));
            let Ok(r) = r else { return };
            if let Ok(rs) = r {
                // accounts the reference removes by EIP-161 state clearing although nothing destroyed
                // them: CacheDB has no state-clear notion and keeps serving their (underlying) storage.
                // Self-destructed accounts are NOT exempt: CacheDB clears their storage itself.
                if h.spec >= SpecId::SPURIOUS_DRAGON {
                    for (a, acc) in rs.state.iter() {
                        if acc.is_touched() && acc.info.is_empty() && !acc.is_selfdestructed() {
                            cleared.insert(*a);
                        }
                    }
                }
                refdb.commit(rs.state.clone());
                states.push(rs.state);
                worlds.push(refdb.world.clone());
            }
        }
    }
    let codes = refdb.codes.clone();
    let numbers = block_numbers(rng);
    let mut universe = universe_of(&worlds.iter().collect::<Vec<_>>());
    for _ in 0..3 {
        universe.entry(Address::from_slice(&rng.bytes(20))).or_default().insert(U256::from(rng.below(4)));
    }
    let empty_cleared = BTreeSet::new();
    let exact = Mode { absent_eq_empty: false, check_has_storage: true };
    let loose = Mode { absent_eq_empty: true, check_has_storage: true };
    let base = RefDB::new(h.world.clone(), h.spec);

    macro_rules! report {
        ($name:expr, $res:expr, $stage:expr) => {
            rep.cell("wrapper_checks", $name);
            match $res {
                Ok(None) => {}
                Ok(Some((k, d))) => {
                    rep.violation(format!("C20/{}/{}", $name, k), format!("{} after {} commit(s): {}", $name, $stage, d), json!({"history": hj(), "wrapper": $name, "commits": $stage}));
                }
                Err(p) => report_panic(rep, "C20", &p, json!({"history": hj(), "wrapper": $name, "commits": $stage})),
            }
        };
    }

    // --- read-only wrappers over the unchanged underlying data
    {
        let e = Expect { world: &worlds[0], codes: &codes, hashes: &h.world.block_hashes, cleared: &empty_cleared, universe: &universe, numbers: &numbers };
        let mut w1 = WrapDatabaseRef(base.clone());
        report!("WrapDatabaseRef<RefDB>", guarded(|| check_db(&mut w1, &e, exact, None)), 0);
        let mut raw = base.clone();
        let mut mr = &mut raw;
        report!("&mut RefDB", guarded(|| check_db(&mut mr, &e, exact, None)), 0);
        let mut bx: Box<dyn Database<Error = String>> = Box::new(base.clone());
        report!("Box<dyn Database>", guarded(|| check_db(&mut bx, &e, exact, None)), 0);
        let b2 = base.clone();
        let mut comp = DatabaseComponents { state: &b2, block_hash: &b2 };
        report!("DatabaseComponents(Database)", guarded(|| check_db(&mut comp, &e, exact, None)), 0);
        let comp2 = DatabaseComponents { state: &b2, block_hash: &b2 };
        report!("DatabaseComponents(DatabaseRef)", guarded(|| check_dbref(&comp2, &e, exact)), 0);
        report!("&RefDB(DatabaseRef)", guarded(|| check_dbref(&&b2, &e, exact)), 0);
        let cdb0 = CacheDB::new(base.clone());
        report!("CacheDB(DatabaseRef)", guarded(|| check_dbref(&cdb0, &e, loose)), 0);
        let mut st = State::builder().with_database(WrapDatabaseRef(&b2)).build();
        report!("State<WrapDatabaseRef<&RefDB>>", guarded(|| check_db(&mut st, &e, exact, None)), 0);
    }
    // --- committing wrappers: compare after every commit
    let mut cdb = CacheDB::new(base.clone());
    let mut cdb2 = CacheDB::new(CacheDB::new(base.clone()));
    let mut st = new_state(base.clone(), h.spec, rng.chance(1, 2), None);
    let mut wcommit = WrapDatabaseRef(base.clone());
    let mut cleared_so_far: BTreeSet<Address> = BTreeSet::new();
    for k in 0..=states.len() {
        if k > 0 {
            let s = &states[k - 1];
            for (a, acc) in s.iter() {
                if cleared.contains(a) && acc.is_touched() {
                    cleared_so_far.insert(*a);
                }
            }
            let r = guarded(|| {
                cdb.commit(s.clone());
                cdb2.commit(s.clone());
                // an execution through State would have loaded every account it reports
                for a in s.keys() {
                    let _ = st.basic(*a);
                }
                st.commit(s.clone());
                wcommit.commit(s.clone());
            });
            if let Err(p) = r {
                report_panic(rep, "C20", &p, json!({"history": hj(), "commits": k}));
                return;
            }
            rep.count("commits_applied");
        }
        let e = Expect { world: &worlds[k], codes: &codes, hashes: &h.world.block_hashes, cleared: &cleared_so_far, universe: &universe, numbers: &numbers };
        // the read-only path first (the &mut path below fills the cache as it reads)
        report!("CacheDB(DatabaseRef)", guarded(|| check_dbref(&cdb, &e, loose)), k);
        report!("CacheDB(DatabaseRef)", guarded(|| check_dbref(&cdb2, &e, loose)), k);
        report!("CacheDB<RefDB>", guarded(|| check_db(&mut cdb, &e, loose, None)), k);
        report!("CacheDB<CacheDB<RefDB>>", guarded(|| check_db(&mut cdb2, &e, loose, None)), k);
        report!("State<RefDB>", guarded(|| check_db(&mut st, &e, exact, None)), k);
        report!("WrapDatabaseRef<RefDB>+commit", guarded(|| check_db(&mut wcommit, &e, exact, None)), k);
    }
    // --- EmptyDB: documented behaviour is the underlying data
    {
        let mut edb = EmptyDB::new();
        let r = guarded(|| {
            for a in universe.keys().take(4) {
                if edb.basic(*a).unwrap().is_some() || edb.storage(*a, U256::from(1u8)).unwrap() != U256::ZERO || edb.has_storage(*a).unwrap() {
                    return Some(("EmptyDB/non-empty-answer".to_string(), format!("{}", addr_hex(a))));
                }
            }
            for n in [0u64, 1, 999, 1000, u64::MAX] {
                let want = B256::from(keccak256(n.to_string().as_bytes()));
                if edb.block_hash(n).unwrap() != want || edb.block_hash_ref(n).unwrap() != want {
                    return Some(("EmptyDB/block_hash".to_string(), format!("block {n}")));
                }
            }
            None
        });
        rep.cell("wrapper_checks", "EmptyDB");
        match r {
            Ok(None) => {}
            Ok(Some((k, d))) => rep.violation(format!("C20/{k}"), d, json!({"wrapper": "EmptyDB"})),
            Err(p) => report_panic(rep, "C20", &p, json!({"wrapper": "EmptyDB"})),
        }
    }
    if rep.samples.len() < 2 {
        rep.sample(json!({"spec": spec_name(h.spec), "commits": states.len(), "universe_addresses": universe.len(), "block_numbers_queried": numbers.len()}));
    }
}

pub fn run(ctx: &Ctx) -> i32 {
    let mut rep;
    if let Some(path) = &ctx.replay {
        // replay = regenerate nothing: the history is re-run through every wrapper
        rep = Report::new();
        let v: Value = serde_json::from_str(&std::fs::read_to_string(path).expect("replay")).expect("json");
        let seed = v["seed"].as_u64().unwrap_or(1);
        println!("C20 replays are re-derived from the recorded history with a fixed query order (seed {seed})");
        let mut rng = Rng::new(seed);
        // run one generated case with the same generator stream is not possible from the history alone; instead
        // re-check the recorded history through the committing wrappers
        let _ = &mut rng;
        let h = History::from_json(&v["case"]["history"]);
        let mut r2 = Rng::new(hash64(h.to_json().to_string().as_bytes()));
        replay_history(&h, &mut r2, &mut rep);
        println!("replayed: {} violation(s)", rep.violations.len());
        for v in &rep.violations {
            println!("  {} — {}", v.signature, v.what);
        }
    } else {
        let n = ctx.n(1_500, 150_000);
        let shards = 64;
        rep = par_shards(ctx, shards, |_si, rng, rep| {
            for _ in 0..(n / shards as u64).max(1) {
                one_case(rng, rep);
            }
        });
        for w in ["CacheDB<RefDB>", "CacheDB<CacheDB<RefDB>>", "State<RefDB>", "WrapDatabaseRef<RefDB>", "&mut RefDB", "Box<dyn Database>", "DatabaseComponents(Database)", "DatabaseComponents(DatabaseRef)", "State<WrapDatabaseRef<&RefDB>>", "EmptyDB"] {
            let have = rep.table_get("wrapper_checks", w);
            rep.floor(&format!("checks of {w}"), have, 100);
        }
        let c = rep.counter("commits_applied");
        rep.floor("commits applied", c, 500);
    }
    finish(ctx, rep, Finish {
        level: "exploration",
        rule: "underlying data = generated worlds; commit histories = the EvmStates returned by real executions (lifecycle and W histories) on the reference; after 0..n commits every wrapper is asked basic / code_by_hash / storage / has_storage for every address of the universe (pool, created, 3 unknown) x slots, and block_hash for 1000-258..1002 in forward / reverse / shuffled order with repeats (pruning) plus 0 and 2^64-1; the oracle is the plain reference with the same commits applied by the independent applier. CacheDB is compared modulo absent == empty and without the storage of accounts the reference removed by state clearing (it has no state-clear notion). Non-trivial = every history; distinct by history hash.".into(),
        assumptions: vec!["basic is called before storage for every address (the documented precondition of State::storage)".into()],
    })
}

fn replay_history(h: &History, rng: &mut Rng, rep: &mut Report) {
    // same body as one_case but with a given history: re-run generation-free parts
    let mut refdb = RefDB::new(h.world.clone(), h.spec);
    let mut states: Vec<EvmState> = vec![];
    let mut worlds: Vec<World> = vec![h.world.clone()];
    for s in &h.steps {
        if let Step::Tx(tx) = s {
            if let Ok(Ok(rs)) = guarded(|| crate::wrun::transact_plain(&mut refdb, h.spec, &h.block, tx)) {
                refdb.commit(rs.state.clone());
                states.push(rs.state);
                worlds.push(refdb.world.clone());
            }
        }
    }
    let codes = refdb.codes.clone();
    let numbers = block_numbers(rng);
    let universe = universe_of(&worlds.iter().collect::<Vec<_>>());
    let cleared = BTreeSet::new();
    let base = RefDB::new(h.world.clone(), h.spec);
    let mut cdb = CacheDB::new(base.clone());
    let mut st = new_state(base.clone(), h.spec, true, None);
    for k in 0..=states.len() {
        if k > 0 {
            cdb.commit(states[k - 1].clone());
            for a in states[k - 1].keys() {
                let _ = st.basic(*a);
            }
            st.commit(states[k - 1].clone());
        }
        let e = Expect { world: &worlds[k], codes: &codes, hashes: &h.world.block_hashes, cleared: &cleared, universe: &universe, numbers: &numbers };
        if let Some((kk, d)) = check_db(&mut st, &e, Mode { absent_eq_empty: false, check_has_storage: true }, None) {
            rep.violation(format!("C20/State<RefDB>/{kk}"), d, json!({"history": h.to_json()}));
        }
        if let Some((kk, d)) = check_db(&mut cdb, &e, Mode { absent_eq_empty: true, check_has_storage: true }, None) {
            rep.violation(format!("C20/CacheDB<RefDB>/{kk}"), d, json!({"history": h.to_json()}));
        }
    }
}
