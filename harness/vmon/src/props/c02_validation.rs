//! C02 — a transaction is rejected iff the specification rejects it, and rejection has no effect.
use crate::evmrun::*;
use crate::fw::*;
use crate::interp::*;
use crate::refevm::validate;
use crate::statehist::{new_state, read_universe, universe_of};
use crate::world::*;
use revm::db::CacheDB;
use revm::primitives::{SpecId, B256, U256};
use revm::{DatabaseCommit, Evm};
use serde_json::{json, Value};

/// a transaction whose every field sits on a boundary relative to world / block / spec
fn gen_boundary(rng: &mut Rng, spec: SpecId) -> Case {
    let f = Features::all(spec);
    let mut world = gen_world(rng, &f, spec);
    let mut block = gen_block(rng, spec);
    block.gas_limit = *rng.pick(&[30_000_000u64, 100_000, 5_000_000]);
    let mut t = TxSpec::default();
    t.caller = SENDER1;
    // sender shape
    match rng.below(10) {
        0 => world.accounts.get_mut(&SENDER1).unwrap().code = vec![0x00],
        1 => world.accounts.get_mut(&SENDER1).unwrap().code = designator(C1),
        2 => world.accounts.get_mut(&SENDER1).unwrap().nonce = u64::MAX,
        3 => world.accounts.get_mut(&SENDER1).unwrap().nonce = u64::MAX - 1,
        _ => {}
    }
    let sn = world.accounts[&SENDER1].nonce;
    t.nonce = match rng.below(8) {
        0 => None,
        1 => Some(sn.wrapping_add(1)),
        2 => Some(sn.wrapping_sub(1)),
        _ => Some(sn),
    };
    // to / data
    if rng.chance(1, 4) {
        t.to = None;
        t.data = match rng.below(5) {
            0 => vec![0x00; 49_152],
            1 => vec![0x00; 49_153],
            2 => vec![0x5b; 49_152],
            _ => vec![0x00],
        };
    } else {
        t.to = Some(*rng.pick(&[C1, C2, NONEXISTENT]));
        t.data = match rng.below(4) {
            0 => vec![],
            1 => vec![0u8; rng.usize(300)],
            2 => vec![0xffu8; rng.usize(300)],
            _ => rng.bytes_below(200),
        };
    }
    // lists by fork (and deliberately outside their fork)
    if rng.chance(1, 4) {
        t.access_list.push((C2, vec![U256::from(1u8)]));
    }
    if rng.chance(1, 4) {
        let price = crate::refevm::blob_price(spec, block.excess_blob_gas);
        let max = if spec >= SpecId::PRAGUE { 9 } else { 6 };
        let n = *rng.pick(&[0usize, 1, max, max + 1, 3]);
        for i in 0..n {
            let mut h = [0u8; 32];
            h[0] = if rng.chance(1, 12) { 2 } else { 1 };
            h[31] = i as u8;
            t.blob_hashes.push(B256::from(h));
        }
        t.max_fee_per_blob_gas = match rng.below(6) {
            0 => None,
            1 => Some(price.saturating_sub(U256::from(1u8))),
            2 => Some(price),
            3 => Some(U256::MAX),
            _ => Some(price + U256::from(10u8)),
        };
    }
    if rng.chance(1, 4) {
        t.auth_list = Some(match rng.below(4) {
            0 => vec![],
            _ => vec![AuthSpec { chain_id: 1, address: C1, nonce: 0, authority: Some(SENDER2) }],
        });
    }
    t.chain_id = *rng.pick(&[None, Some(1), Some(1), Some(2)]);
    // fees around the base fee
    let base = U256::from(block.basefee);
    t.gas_price = match rng.below(6) {
        0 => base.saturating_sub(U256::from(1u8)),
        1 => base,
        2 => base + U256::from(1u8),
        3 => U256::MAX,
        _ => base + U256::from(10u8),
    };
    t.priority_fee = match rng.below(6) {
        0 => None,
        1 => Some(U256::ZERO),
        2 => Some(t.gas_price),
        3 => Some(t.gas_price.saturating_add(U256::from(1u8))),
        _ => Some(U256::from(2u8)),
    };
    t.value = *rng.pick(&[U256::ZERO, U256::from(1u8), U256::from(1000u64)]);
    // gas limit around intrinsic / floor / block limit
    let (intr, floor) = super::online::intrinsic_gas(spec, &t);
    let need = intr.max(floor) as u64;
    t.gas_limit = match rng.below(10) {
        0 => need.saturating_sub(1),
        1 => need,
        2 => need + 1,
        3 => intr as u64,
        4 => (intr as u64).saturating_sub(1),
        5 => block.gas_limit,
        6 => block.gas_limit + 1,
        7 => 0,
        _ => need + 50_000,
    };
    // sender balance around the maximum cost
    let mut cost = U256::from(t.gas_limit).saturating_mul(t.gas_price).saturating_add(t.value);
    if let Some(mf) = t.max_fee_per_blob_gas {
        cost = cost.saturating_add(mf.saturating_mul(U256::from(131_072u64 * t.blob_hashes.len() as u64)));
    }
    world.accounts.get_mut(&SENDER1).unwrap().balance = match rng.below(6) {
        0 => cost.saturating_sub(U256::from(1u8)),
        1 => cost,
        2 => cost.saturating_add(U256::from(1u8)),
        _ => cost.saturating_add(U256::from(10u64).pow(U256::from(18u8))),
    };
    Case { spec, world, block, txs: vec![t] }
}

fn rule_of_revm_error(e: &str) -> String {
    e.split(|c: char| !c.is_ascii_alphanumeric()).next().unwrap_or("?").to_string()
}

fn check_verdict(case: &Case, rep: &mut Report) {
    rep.eval();
    let tx = &case.txs[0];
    let want = validate(&case.world, case.spec, &case.block, tx);
    let r = guarded(|| crate::wrun::transact_plain(RefDB::new(case.world.clone(), case.spec), case.spec, &case.block, tx));
    let cj = || json!({"kind": "verdict", "case": case.to_json()});
    let res = match r {
        Ok(r) => r,
        Err(p) => {
            report_panic(rep, "C02", &p, cj());
            return;
        }
    };
    let out = outcome_of(&res.map(|r| r.result));
    let rejected = matches!(out, TxOutcome::Rejected(_));
    rep.cell("reference_verdicts", want.unwrap_or("valid"));
    rep.nontrivial(case.hash());
    let era = if case.spec >= SpecId::PRAGUE { "prague" } else if case.spec >= SpecId::CANCUN { "cancun" } else if case.spec >= SpecId::LONDON { "london+" } else if case.spec >= SpecId::BERLIN { "berlin" } else { "pre-berlin" };
    match (want, rejected) {
        (None, false) | (Some(_), true) => {}
        (Some(rule), false) => {
            rep.violation(format!("C02/accepted-invalid-transaction/{rule}/{era}"), format!("the specification rejects this transaction ({rule}) but it was executed: {}", out.to_json()), cj());
        }
        (None, true) => {
            let e = if let TxOutcome::Rejected(e) = &out { rule_of_revm_error(e) } else { "?".into() };
            rep.violation(format!("C02/rejected-valid-transaction/{e}/{era}"), format!("valid transaction rejected: {}", out.to_json()), cj());
        }
    }
}

/// histories mixing rejected and accepted transactions on ONE Evm over a wrapper; control run =
/// the same history without the rejected ones
fn check_no_effect(rng: &mut Rng, rep: &mut Report) {
    let spec = random_spec(rng, false);
    let mut base = gen_case(rng, spec, 6);
    // balances of third parties stay away from 2^256-1: a credit that passes the maximum is
    // outside the specification's domain (revm wraps there and State then panics on the
    // "emptied" account — recorded under C08, selfdestruct-into-balance-that-overflows);
    // sender balances at the boundaries are part (i)'s business
    for a in base.world.accounts.values_mut() {
        if a.balance > (U256::from(1u8) << 200) {
            a.balance = U256::from(1u8) << 120;
        }
    }
    let mut txs: Vec<(TxSpec, bool)> = vec![];
    for t in &base.txs {
        txs.push((t.clone(), false));
        if rng.chance(1, 2) {
            // an invalid variant of the same transaction
            let mut b = t.clone();
            match rng.below(6) {
                0 => b.nonce = Some(u64::MAX / 2),
                1 => b.gas_limit = 20_000,
                2 => b.value = U256::MAX,
                3 => b.chain_id = Some(77),
                4 => b.gas_limit = base.block.gas_limit + 1,
                _ => b.caller = C1,
            }
            let pos = rng.usize(txs.len() + 1);
            txs.insert(pos, (b, true));
        }
    }
    rep.eval();
    let hj = || json!({"kind": "no-effect", "spec": spec_name(spec), "world": base.world.to_json(), "block": base.block.to_json(), "txs": txs.iter().map(|(t, inv)| json!({"tx": t.to_json(), "meant_invalid": inv})).collect::<Vec<_>>()});
    rep.nontrivial(hash64(hj().to_string().as_bytes()));
    for wrapper in ["CacheDB", "State"] {
        // returns (outcomes of the executed transactions, final reads, indices rejected)
        let run = |skip: &std::collections::BTreeSet<usize>| -> Result<(Vec<TxOutcome>, World, std::collections::BTreeSet<usize>), PanicInfo> {
            guarded(|| {
                let uni = universe_of(&[&base.world]);
                let codes = Default::default();
                let mut outs = vec![];
                let mut rejected = std::collections::BTreeSet::new();
                macro_rules! drive {
                    ($db:expr) => {{
                        let mut evm: Evm<'_, (), _> = Evm::builder().with_db($db).with_spec_id(spec).build();
                        for (i, (t, _)) in txs.iter().enumerate() {
                            if skip.contains(&i) {
                                continue;
                            }
                            fill_env(&mut evm.context.evm.env, spec, &base.block, t);
                            let o = outcome_of(&evm.transact_commit());
                            if matches!(o, TxOutcome::Rejected(_)) {
                                rejected.insert(i);
                            } else {
                                outs.push(o);
                            }
                        }
                        let mut db = evm.into_context().evm.inner.db;
                        let w = read_universe(&mut db, &uni, &codes).unwrap_or_default();
                        (outs, w, rejected)
                    }};
                }
                if wrapper == "CacheDB" {
                    drive!(CacheDB::new(RefDB::new(base.world.clone(), spec)))
                } else {
                    drive!(new_state(RefDB::new(base.world.clone(), spec), spec, false, None))
                }
            })
        };
        let a = run(&Default::default());
        let Ok((o1, w1, rej)) = a else {
            if let Err(p) = a {
                report_panic(rep, "C02", &p, hj());
            }
            continue;
        };
        let b = run(&rej);
        match b {
            Ok((o2, w2, rej2)) => {
                rep.add("rejected_transactions_in_histories", rej.len() as u64);
                rep.cell("no_effect_wrappers", wrapper);
                if !rej2.is_empty() {
                    rep.violation(format!("C02/rejection-changed-later-verdict/{wrapper}"), format!("a transaction accepted in the presence of rejected ones is rejected without them: {:?}", rej2), hj());
                } else if o1 != o2 {
                    let i = o1.iter().zip(o2.iter()).position(|(x, y)| x != y).unwrap_or(o1.len().min(o2.len()));
                    rep.violation(format!("C02/rejection-changed-later-transaction/{wrapper}"), format!("accepted transaction #{i} differs between the run with and the run without the rejected transactions: {} vs {}", o1.get(i).map(|x| x.to_json()).unwrap_or_default(), o2.get(i).map(|x| x.to_json()).unwrap_or_default()), hj());
                } else if let Some(d) = world_diff(&w1, &w2) {
                    rep.violation(format!("C02/rejection-changed-database/{wrapper}"), format!("final reads differ: {d}"), hj());
                }
            }
            Err(p) => report_panic(rep, "C02", &p, hj()),
        }
    }
}

pub fn run(ctx: &Ctx) -> i32 {
    let mut rep;
    if let Some(path) = &ctx.replay {
        rep = Report::new();
        let v: Value = serde_json::from_str(&std::fs::read_to_string(path).expect("replay")).expect("json");
        if v["case"]["kind"] == "verdict" {
            check_verdict(&Case::from_json(&v["case"]["case"]), &mut rep);
        } else {
            println!("no-effect histories are regenerated from the seed; rerun the check with VERIF_SEED={}", v["seed"]);
        }
        println!("replayed: {} violation(s)", rep.violations.len());
    } else {
        let n = ctx.n(40_000, 4_000_000);
        let shards = 64;
        rep = par_shards(ctx, shards, |_si, rng, rep| {
            for k in 0..(n / shards as u64).max(1) {
                let spec = random_spec(rng, false);
                let case = gen_boundary(rng, spec);
                check_verdict(&case, rep);
                if k % 8 == 0 {
                    check_no_effect(rng, rep);
                }
                if rep.samples.len() < 2 && k == 5 {
                    rep.sample(json!({"spec": spec_name(case.spec), "tx": case.txs[0].to_json(), "sender": case.world.accounts.get(&SENDER1).map(|a| json!({"balance": u256_hex(&a.balance), "nonce": a.nonce, "code": hex(&a.code)}))}));
                }
            }
        });
        for r in ["valid", "intrinsic-gas", "insufficient-funds", "nonce-mismatch", "sender-has-code", "fee-below-base-fee", "priority-above-max-fee", "gas-limit-above-block", "chain-id", "initcode-too-large", "blob-fee-cap-below-price", "too-many-blobs", "blob-create", "empty-auth-list", "auth-list-on-create", "nonce-max", "access-list-before-berlin", "blob-fields-before-cancun", "auth-list-before-prague"] {
            let have = rep.table_get("reference_verdicts", r);
            rep.floor(&format!("reference verdict {r}"), have, 5);
        }
        let rj = rep.counter("rejected_transactions_in_histories");
        rep.floor("rejected transactions inside no-effect histories", rj, 200);
    }
    finish(ctx, rep, Finish {
        level: "exploration",
        rule: "(i) transactions whose fields are drawn from value-relative boundary sets (gas limit around intrinsic / floor / block limit, fees around the base fee, priority around the cap, sender balance around the maximum cost incl. blob fee, nonce around the account nonce and 2^64-1, sender with code / designator, init code 49152/49153 bytes, access list / blob / authorization fields inside and outside their forks, blob count around the per-fork maximum, hash version byte, chain id) over FRONTIER..PRAGUE: accept/reject verdict of the real Evm versus the reference validator (one function per rule, Appendix A.3); (ii) histories mixing rejected and accepted transactions on one Evm over CacheDB<RefDB> and State<RefDB> versus the same history without the rejected ones: results of the accepted transactions and all final reads must be equal. Non-trivial: every case; distinct by case hash.".into(),
        assumptions: vec!["fields that do not exist in a fork and for which revm defines no rejection (priority fee before London, chain id before Spurious Dragon) are treated as absent rules (DESIGN A.3 domain note)".into()],
    })
}
