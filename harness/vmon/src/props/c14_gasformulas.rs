//! C14 — dynamic gas formulas equal the specification for all arguments (direct calls).
use crate::fw::*;
use crate::interp::*;
use revm_interpreter::gas;
use revm_interpreter::{AccountLoad, Eip7702CodeLoad, SStoreResult, SelfDestructResult, StateLoad};
use revm_primitives::{AccessListItem, Address, SpecId, B256, U256};
use serde_json::{json, Value};

const TWO64: u128 = 1u128 << 64;

fn words(len: u128) -> u128 {
    (len + 31) / 32
}

fn opt(x: u128) -> Option<u64> {
    if x < TWO64 {
        Some(x as u64)
    } else {
        None
    }
}

struct Ck<'a> {
    rep: &'a mut Report,
}

impl Ck<'_> {
    fn eq_opt(&mut self, f: &str, args: Value, got: Option<u64>, want: Option<u64>, nontrivial: bool) {
        self.rep.eval();
        self.rep.cell("functions", f);
        if nontrivial {
            self.rep.nontrivial(hash64(format!("{f}{args}").as_bytes()));
        }
        if got != want {
            let near = args.as_array().map(|a| a.iter().any(|x| x.as_u64().map(|l| l > u64::MAX - 31).unwrap_or(false))).unwrap_or(false);
            let kind = match (got, want) {
                (Some(_), None) => "returned-value-although-exact-cost-exceeds-64-bits",
                (None, Some(_)) => "reported-failure-although-exact-cost-fits",
                _ if near => "value/length-within-31-bytes-of-2^64",
                _ => "value",
            };
            self.rep.violation(format!("C14/{f}/{kind}"), format!("{f}{args}: got {:?}, exact {:?}", got, want), json!({"function": f, "args": args}));
        }
    }
    fn eq(&mut self, f: &str, args: Value, got: i128, want: i128, nontrivial: bool) {
        self.rep.eval();
        self.rep.cell("functions", f);
        if nontrivial {
            self.rep.nontrivial(hash64(format!("{f}{args}").as_bytes()));
        }
        if got != want {
            let near = args.as_array().map(|a| a.iter().any(|x| x.as_u64().map(|l| l > u64::MAX - 31).unwrap_or(false))).unwrap_or(false);
            self.rep.violation(format!("C14/{f}/value{}", if near { "/length-within-31-bytes-of-2^64" } else { "" }), format!("{f}{args}: got {got}, exact {want}"), json!({"function": f, "args": args}));
        }
    }
}

// ---- reference formulas (Appendix A.2) ---------------------------------------------------------

fn ref_sstore_cost(spec: SpecId, o: u8, p: u8, n: u8, gas_left: u64, cold: bool) -> Option<u64> {
    if spec >= SpecId::ISTANBUL && gas_left <= 2300 {
        return None;
    }
    if spec >= SpecId::BERLIN {
        let base = if n == p { 100 } else if o == p { if o == 0 { 20_000 } else { 2_900 } } else { 100 };
        Some(base + if cold { 2_100 } else { 0 })
    } else if spec >= SpecId::ISTANBUL {
        Some(if n == p { 800 } else if o == p { if o == 0 { 20_000 } else { 5_000 } } else { 800 })
    } else {
        Some(if p == 0 && n != 0 { 20_000 } else { 5_000 })
    }
}

fn ref_sstore_refund(spec: SpecId, o: u8, p: u8, n: u8) -> i128 {
    if spec >= SpecId::ISTANBUL {
        let clear: i128 = if spec >= SpecId::LONDON { 4_800 } else { 15_000 };
        let (sload, reset): (i128, i128) = if spec >= SpecId::BERLIN { (100, 2_900) } else { (800, 5_000) };
        if p == n {
            return 0;
        }
        if o == p {
            return if o != 0 && n == 0 { clear } else { 0 };
        }
        let mut r = 0;
        if o != 0 {
            if p == 0 {
                r -= clear;
            } else if n == 0 {
                r += clear;
            }
        }
        if o == n {
            if o == 0 {
                r += 20_000 - sload;
            } else {
                r += reset - sload;
            }
        }
        r
    } else if p != 0 && n == 0 {
        15_000
    } else {
        0
    }
}

fn ref_call_cost(spec: SpecId, value: bool, is_empty: bool, cold: bool, delegate_cold: Option<bool>) -> u64 {
    let mut g = if spec >= SpecId::BERLIN {
        (if cold { 2600 } else { 100 }) + match delegate_cold {
            Some(true) => 2600,
            Some(false) => 100,
            None => 0,
        }
    } else if spec >= SpecId::TANGERINE {
        700
    } else {
        40
    };
    if value {
        g += 9_000;
    }
    if is_empty && (spec < SpecId::SPURIOUS_DRAGON || value) {
        g += 25_000;
    }
    g
}

fn ref_selfdestruct_cost(spec: SpecId, had_value: bool, target_exists: bool, cold: bool) -> u64 {
    let mut g = 0;
    if spec >= SpecId::TANGERINE {
        g += 5_000;
        let topup = if spec >= SpecId::SPURIOUS_DRAGON { had_value && !target_exists } else { !target_exists };
        if topup {
            g += 25_000;
        }
    }
    if spec >= SpecId::BERLIN && cold {
        g += 2_600;
    }
    g
}

fn lens() -> Vec<u64> {
    let mut v = vec![0u64, 1, 31, 32, 33, 63, 64, 65, 1 << 16, (1 << 32) - 1, 1 << 32, (1 << 32) + 1, 1 << 59, (1 << 59) + 1, u64::MAX - 32, u64::MAX - 31, u64::MAX - 30, u64::MAX - 1, u64::MAX];
    for k in [5u32, 20, 40, 56, 57, 58, 60, 61, 62, 63] {
        v.push(1u64 << k);
        v.push((1u64 << k) - 1);
    }
    v
}

fn spec_checks(spec: SpecId, rep: &mut Report) {
    let mut c = Ck { rep };
    let sn = spec_name(spec);
    // SSTORE matrix: (original, present, new) in {0,a,b}^3 x cold/warm x gas {2300, 2301}
    for o in 0..3u8 {
        for p in 0..3u8 {
            for n in 0..3u8 {
                let v = |x: u8| U256::from(match x { 0 => 0u64, 1 => 0xa, _ => 0xb });
                let vals = SStoreResult { original_value: v(o), present_value: v(p), new_value: v(n) };
                for cold in [false, true] {
                    for g in [2300u64, 2301, 0, u64::MAX] {
                        c.eq_opt("sstore_cost", json!([sn, o, p, n, g, cold]), gas::sstore_cost(spec, &vals, g, cold), ref_sstore_cost(spec, o, p, n, g, cold), true);
                    }
                }
                c.eq("sstore_refund", json!([sn, o, p, n]), gas::sstore_refund(spec, &vals) as i128, ref_sstore_refund(spec, o, p, n), true);
            }
        }
    }
    // call_cost: all flags
    for value in [false, true] {
        for empty in [false, true] {
            for cold in [false, true] {
                for del in [None, Some(false), Some(true)] {
                    let al = AccountLoad { load: Eip7702CodeLoad { state_load: StateLoad::new((), cold), is_delegate_account_cold: del }, is_empty: empty };
                    c.eq("call_cost", json!([sn, value, empty, cold, del]), gas::call_cost(spec, value, al) as i128, ref_call_cost(spec, value, empty, cold, del) as i128, true);
                }
            }
        }
    }
    // selfdestruct_cost: all flags
    for had in [false, true] {
        for exists in [false, true] {
            for prev in [false, true] {
                for cold in [false, true] {
                    let r = StateLoad::new(SelfDestructResult { had_value: had, target_exists: exists, previously_destroyed: prev }, cold);
                    c.eq("selfdestruct_cost", json!([sn, had, exists, prev, cold]), gas::selfdestruct_cost(spec, r) as i128, ref_selfdestruct_cost(spec, had, exists, cold) as i128, true);
                }
            }
        }
    }
    for cold in [false, true] {
        let want = if spec >= SpecId::BERLIN { if cold { 2100 } else { 100 } } else if spec >= SpecId::ISTANBUL { 800 } else if spec >= SpecId::TANGERINE { 200 } else { 50 };
        c.eq("sload_cost", json!([sn, cold]), gas::sload_cost(spec, cold) as i128, want, true);
        c.eq("warm_cold_cost", json!([cold]), gas::warm_cold_cost(cold) as i128, if cold { 2600 } else { 100 }, true);
    }
    // exp_cost for every exponent byte length and neighbours
    for bytes in 0..=32usize {
        for e in [if bytes == 0 { U256::ZERO } else { U256::from(1u8) << (8 * bytes - 8) }, if bytes == 0 { U256::ZERO } else { (U256::from(1u8) << (8 * bytes - 1)) | U256::from(1u8) }, if bytes == 32 { U256::MAX } else { (U256::from(1u8) << (8 * bytes)) - U256::from(1u8) }] {
            let bl = (e.bit_len() as u128 + 7) / 8;
            let per = if spec >= SpecId::SPURIOUS_DRAGON { 50 } else { 10 };
            c.eq_opt("exp_cost", json!([sn, format!("{:#x}", e)]), gas::exp_cost(spec, e), opt(10 + per * bl), !e.is_zero());
        }
    }
    for len in lens() {
        let w = words(len as u128);
        for cold in [false, true] {
            let base: u128 = if spec >= SpecId::BERLIN { if cold { 2600 } else { 100 } } else if spec >= SpecId::TANGERINE { 700 } else { 20 };
            c.eq_opt("extcodecopy_cost", json!([sn, len, cold]), gas::extcodecopy_cost(spec, len, cold), opt(base + 3 * w), len > 0);
        }
    }
    // intrinsic / floor gas
    let data_mixes: Vec<(usize, usize)> = vec![(0, 0), (1, 0), (0, 1), (31, 33), (1000, 0), (0, 1000), (1 << 16, 1 << 10), (1 << 20, 0), (0, 1 << 20), (123_456, 654_321)];
    for (z, nz) in data_mixes {
        let mut data = vec![0u8; z];
        data.extend(std::iter::repeat(0x5au8).take(nz));
        for create in [false, true] {
            for (addrs, keys) in [(0usize, 0usize), (1, 0), (2, 5), (30, 100)] {
                for auths in [0u64, 1, 7] {
                    let al: Vec<AccessListItem> = (0..addrs).map(|i| AccessListItem { address: Address::with_last_byte(i as u8), storage_keys: (0..if i == 0 { keys } else { 0 }).map(|k| B256::from(U256::from(k))).collect() }).collect();
                    let got = gas::calculate_initial_tx_gas(spec, &data, create, &al, auths);
                    let mut want: u128 = 21_000 + 4 * z as u128 + nz as u128 * if spec >= SpecId::ISTANBUL { 16 } else { 68 };
                    if create && spec >= SpecId::HOMESTEAD {
                        want += 32_000;
                    }
                    if create && spec >= SpecId::SHANGHAI {
                        want += 2 * words((z + nz) as u128);
                    }
                    if spec >= SpecId::BERLIN {
                        want += 2400 * addrs as u128 + 1900 * keys as u128;
                    }
                    let mut floor = 0u128;
                    if spec >= SpecId::PRAGUE {
                        want += 25_000 * auths as u128;
                        floor = 21_000 + 10 * (z as u128 + 4 * nz as u128);
                    }
                    c.eq("calculate_initial_tx_gas.initial", json!([sn, z, nz, create, addrs, keys, auths]), got.initial_gas as i128, want as i128, z + nz > 0);
                    c.eq("calculate_initial_tx_gas.floor", json!([sn, z, nz, create, addrs, keys, auths]), got.floor_gas as i128, floor as i128, z + nz > 0);
                }
            }
        }
    }
}

fn spec_independent(rep: &mut Report) {
    let mut c = Ck { rep };
    for len in lens() {
        let w = words(len as u128);
        c.eq_opt("keccak256_cost", json!([len]), gas::keccak256_cost(len), opt(30 + 6 * w), len > 0);
        c.eq_opt("verylowcopy_cost", json!([len]), gas::verylowcopy_cost(len), opt(3 + 3 * w), len > 0);
        c.eq_opt("create2_cost", json!([len]), gas::create2_cost(len), opt(32_000 + 6 * w), len > 0);
        c.eq_opt("cost_per_word", json!([len, 3]), gas::cost_per_word(len, 3), opt(3 * w), len > 0);
        for n in 0..=4u8 {
            c.eq_opt("log_cost", json!([n, len]), gas::log_cost(n, len), opt(375 + 8 * len as u128 + 375 * n as u128), len > 0);
        }
        if 2 * w < TWO64 {
            let r = guarded(|| gas::initcode_cost(len));
            match r {
                Ok(v) => c.eq("initcode_cost", json!([len]), v as i128, (2 * w) as i128, len > 0),
                Err(p) => report_panic(c.rep, "C14", &p, json!({"function": "initcode_cost", "args": [len]})),
            }
        }
    }
    // memory_gas: exact whenever it fits
    let mut ws: Vec<u64> = vec![0, 1, 2, 31, 32, 511, 512, 513, 1 << 16, 1 << 20, (1 << 32) - 1, 1 << 32, 3_000_000_000, 97_000_000_000, (1 << 36), (1 << 36) + 12345];
    // the largest word count whose exact cost fits in 64 bits and its neighbours
    let (mut lo, mut hi) = (0u64, 1u64 << 40);
    while lo < hi {
        let mid = lo + (hi - lo + 1) / 2;
        let m = mid as u128;
        if 3 * m + m * m / 512 < TWO64 {
            lo = mid
        } else {
            hi = mid - 1
        }
    }
    for d in 0..4u64 {
        ws.push(lo - d);
    }
    for w in ws {
        let m = w as u128;
        let exact = 3 * m + m * m / 512;
        if exact < TWO64 {
            c.eq("memory_gas", json!([w]), gas::memory_gas(w) as i128, exact as i128, w > 0);
        }
    }
    c.rep.extra.insert("largest_word_count_with_representable_memory_cost".into(), json!(lo));
}

/// resize_memory with gas 2^64-1 and a size whose exact expansion cost needs more than 64 bits must
/// report failure. It may instead try to allocate: run in a child process.
fn resize_child(ctx: &Ctx) -> i32 {
    let size: usize = ctx.arg("size").unwrap().parse().unwrap();
    let mut mem = revm_interpreter::SharedMemory::new();
    mem.new_context();
    let mut g = revm_interpreter::Gas::new(u64::MAX);
    let ok = revm_interpreter::interpreter::resize_memory(&mut mem, &mut g, size);
    println!("RESIZE {ok} len={}", mem.len());
    0
}

fn resize_probe(ctx: &Ctx, rep: &mut Report) {
    let exe = std::env::current_exe().unwrap();
    for size in [usize::MAX - 31, usize::MAX - 63, 1usize << 63, (1usize << 42) + 32, 1usize << 62] {
        rep.eval();
        rep.cell("functions", "resize_memory(gas=2^64-1)");
        rep.nontrivial(hash64(format!("resize{size}").as_bytes()));
        let w = words(size as u128);
        let exact = 3 * w + w * w / 512;
        if exact < TWO64 {
            continue;
        }
        let out = std::process::Command::new(&exe).args(["C14", "--mode", "child-resize", "--size", &size.to_string(), "--lane", &ctx.lane]).output();
        let case = json!({"function": "resize_memory", "gas": "2^64-1", "size": size.to_string(), "exact_cost": exact.to_string()});
        match out {
            Err(e) => rep.inconclusive(format!("cannot spawn child: {e}")),
            Ok(o) => {
                let s = String::from_utf8_lossy(&o.stdout);
                let class = if s.contains("RESIZE false") {
                    continue;
                } else if s.contains("RESIZE true") {
                    "accepted"
                } else if o.status.code().is_some() {
                    "accepted-then-panicked"
                } else {
                    "accepted-then-aborted"
                };
                rep.violation(format!("C14/resize_memory/expansion-cost-exceeds-64-bits/{class}"), format!("resize_memory(size {size}) with gas 2^64-1: exact cost {exact} does not fit in 64 bits, but the resize was {class} (child exit {:?})", o.status.code()), case);
            }
        }
    }
}

pub fn run(ctx: &Ctx) -> i32 {
    if ctx.arg("mode") == Some("child-resize") {
        return resize_child(ctx);
    }
    let mut rep = Report::new();
    if let Some(path) = &ctx.replay {
        let v: Value = serde_json::from_str(&std::fs::read_to_string(path).expect("replay")).expect("json");
        println!("C14 cases are deterministic sweeps: re-running the sweep that contains {}", v["case"]);
    }
    for s in ALL_SPECS {
        spec_checks(s, &mut rep);
    }
    spec_independent(&mut rep);
    resize_probe(ctx, &mut rep);
    rep.exhaustive = Some(false);
    rep.extra.insert("exhaustive_subspaces".into(), json!(["SSTORE cost/refund over (orig,present,new) in {0,a,b}^3 x cold x gas{0,2300,2301,max} x 20 SpecIds", "call_cost all flag combinations", "selfdestruct_cost all flag combinations", "exp_cost every exponent byte length"]));
    rep.sample(json!({"sstore_cost": ["LONDON", 1, 1, 0, 2301, true], "expected": 5000}));
    rep.sample(json!({"keccak256_cost": [u64::MAX], "expected": "30 + 6*2^59"}));
    finish(ctx, rep, Finish {
        level: "exploration",
        rule: "direct calls of every public function in gas::calc per SpecId against formulas written from the EIPs in u128: exhaustive matrices for SSTORE cost/refund, call_cost, selfdestruct_cost, sload/warm-cold, exp_cost per exponent byte length; boundary lengths {0,1,31,32,33,2^16,2^32+-1,2^59,2^k,2^64-32..2^64-1} for copy/keccak/log/create2/initcode/extcodecopy (None iff the exact value needs more than 64 bits); memory_gas around the largest representable word count; resize_memory with gas 2^64-1 in a child process; intrinsic and floor gas over calldata mixes up to 2^20 bytes, access-list shapes, authorization counts, create flag. Non-trivial = non-degenerate argument; distinct by (function, arguments).".into(),
        assumptions: vec!["the reference formulas are Appendix A.2 of DESIGN.md".into()],
    })
}
