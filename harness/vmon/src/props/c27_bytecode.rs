//! C27 — stored bytecode keeps its original bytes and hash; EIP-7702 designators round-trip.
use crate::fw::*;
use crate::keccak::keccak256;
use revm_interpreter::analysis::to_analysed;
use revm_primitives::{Address, Bytecode, Bytes, Eip7702Bytecode, KECCAK_EMPTY};
use serde_json::{json, Value};

fn check_bytes(input: &[u8], rep: &mut Report, class: &str) {
    rep.eval();
    rep.cell("classes", class);
    if !input.is_empty() {
        rep.nontrivial(hash64(input));
    }
    let case = || json!({"kind": "bytes", "class": class, "bytes": hex(input)});
    let r = guarded(|| -> Option<(String, String)> {
        let bc = match Bytecode::new_raw_checked(Bytes::copy_from_slice(input)) {
            Ok(b) => b,
            Err(_) => return None, // rejected input: nothing stored, nothing to keep
        };
        let want_hash = if input.is_empty() { KECCAK_EMPTY.0 } else { keccak256(input) };
        let chk = |b: &Bytecode, stage: &str| -> Option<(String, String)> {
            if b.original_bytes().as_ref() != input {
                return Some((format!("{stage}/original_bytes"), format!("original_bytes() = {} for input {}", hex(b.original_bytes().as_ref()), hex(input))));
            }
            if b.original_byte_slice() != input {
                return Some((format!("{stage}/original_byte_slice"), "original_byte_slice() differs from input".into()));
            }
            if b.len() != input.len() {
                return Some((format!("{stage}/len"), format!("len() = {} for {} bytes", b.len(), input.len())));
            }
            if b.is_empty() != input.is_empty() {
                return Some((format!("{stage}/is_empty"), "is_empty() wrong".into()));
            }
            if b.hash_slow().0 != want_hash {
                return Some((format!("{stage}/hash"), format!("hash_slow() = {} expected {}", hex(&b.hash_slow().0), hex(&want_hash))));
            }
            None
        };
        if let Some(e) = chk(&bc, "raw") {
            return Some(e);
        }
        let is_legacy = matches!(bc, Bytecode::LegacyRaw(_));
        let an = to_analysed(bc.clone());
        if let Some(e) = chk(&an, "analysed") {
            return Some(e);
        }
        if is_legacy {
            // executable form = input + 33 zero bytes of padding
            let mut want = input.to_vec();
            want.extend_from_slice(&[0u8; 33]);
            if an.bytes().as_ref() != want.as_slice() || an.bytes_slice() != want.as_slice() {
                return Some(("analysed/padded-bytes".into(), format!("bytes() after analysis has len {} (input {})", an.bytes().len(), input.len())));
            }
            if !an.is_execution_ready() {
                return Some(("analysed/not-execution-ready".into(), "to_analysed result is not execution ready".into()));
            }
            // analysing twice changes nothing
            let an2 = to_analysed(an.clone());
            if an2 != an {
                return Some(("analysed/not-idempotent".into(), "to_analysed(to_analysed(x)) != to_analysed(x)".into()));
            }
        } else if an != bc {
            return Some(("analysed/non-legacy-changed".into(), "to_analysed changed an EOF/7702 bytecode".into()));
        }
        if let Bytecode::Eip7702(d) = &bc {
            // only 23-byte ef0100||address may decode
            if input.len() != 23 || input[..3] != [0xef, 0x01, 0x00] {
                return Some(("7702/accepted-malformed".into(), format!("accepted as designator: {}", hex(input))));
            }
            if d.address().as_slice() != &input[3..] {
                return Some(("7702/address".into(), "decoded address differs from bytes 3..23".into()));
            }
            if d.raw().as_ref() != input {
                return Some(("7702/raw".into(), "raw() differs from input".into()));
            }
        }
        None
    });
    match r {
        Ok(None) => {}
        Ok(Some((k, w))) => rep.violation(format!("C27/{k}"), w, case()),
        Err(p) => report_panic(rep, "C27", &p, case()),
    }
}

fn check_addr(a: [u8; 20], rep: &mut Report) {
    rep.eval();
    rep.cell("classes", "7702-from-address");
    rep.nontrivial(hash64(&a));
    let case = || json!({"kind": "address", "address": hex(&a)});
    let r = guarded(|| -> Option<(String, String)> {
        let addr = Address::from(a);
        let d = Eip7702Bytecode::new(addr);
        let mut want = vec![0xef, 0x01, 0x00];
        want.extend_from_slice(&a);
        if d.raw().as_ref() != want.as_slice() {
            return Some(("7702/encode".into(), format!("new(addr).raw() = {}", hex(d.raw().as_ref()))));
        }
        if d.address() != addr {
            return Some(("7702/address-roundtrip".into(), "new(addr).address() != addr".into()));
        }
        match Eip7702Bytecode::new_raw(Bytes::from(want.clone())) {
            Ok(d2) => {
                if d2.address() != addr || d2.raw().as_ref() != want.as_slice() {
                    return Some(("7702/decode".into(), "new_raw(encode(addr)) does not give addr back".into()));
                }
            }
            Err(e) => return Some(("7702/decode-rejected".into(), format!("well-formed designator rejected: {e:?}"))),
        }
        let b = Bytecode::new_eip7702(addr);
        if b.original_bytes().as_ref() != want.as_slice() || b.hash_slow().0 != keccak256(&want) || b.len() != 23 {
            return Some(("7702/bytecode-view".into(), "Bytecode::new_eip7702 view differs".into()));
        }
        // malformed variants must be rejected
        for (i, bad) in [
            { let mut v = want.clone(); v.push(0); v },
            want[..22].to_vec(),
            { let mut v = want.clone(); v[2] = 1; v },
            { let mut v = want.clone(); v[1] = 2; v },
            { let mut v = want.clone(); v[0] = 0xee; v },
        ].iter().enumerate() {
            if Eip7702Bytecode::new_raw(Bytes::from(bad.clone())).is_ok() {
                return Some((format!("7702/accepted-malformed-variant-{i}"), format!("accepted {}", hex(bad))));
            }
        }
        None
    });
    match r {
        Ok(None) => {}
        Ok(Some((k, w))) => rep.violation(format!("C27/{k}"), w, case()),
        Err(p) => report_panic(rep, "C27", &p, case()),
    }
}

fn gen(rng: &mut Rng) -> (Vec<u8>, &'static str) {
    match rng.below(11) {
        8 | 9 => {
            // generated EOF containers (sections, sub-containers, data) ...
            let (ic, uf) = (rng.chance(1, 3), rng.chance(1, 2));
            let b = crate::eofgen::gen_container(rng, &crate::eofgen::GenCfg { n_subcontainers_max: 2, depth: 1, initcode: ic, addrs: vec![[0x11; 20]], allow_unfilled: uf });
            (b.bytes, "eof-generated")
        }
        10 => {
            // ... and the same with part of the data section missing (decodes: data not filled)
            let b = crate::eofgen::gen_container(rng, &crate::eofgen::GenCfg { n_subcontainers_max: 1, depth: 1, initcode: false, addrs: vec![[0x11; 20]], allow_unfilled: false });
            let mut v = b.bytes;
            let cut = 1 + rng.usize(6);
            let n = v.len().saturating_sub(cut);
            v.truncate(n);
            (v, "eof-generated-truncated-data")
        }
        0 => (rng.bytes_below(200), "random"),
        1 => {
            let mut v = vec![0xef, 0x00];
            v.extend(rng.bytes_below(80));
            (v, "ef00-prefixed")
        }
        2 => {
            let mut v = vec![0xef, 0x01];
            v.extend(rng.bytes_below(40));
            (v, "ef01-prefixed")
        }
        3 => {
            let mut v = vec![0xef, 0x01, 0x00];
            v.extend(rng.bytes(20));
            (v, "7702-wellformed")
        }
        4 => {
            let mut v = vec![0xef, 0x01, rng.below(3) as u8];
            let l = 19 + rng.usize(3);
            v.extend(rng.bytes(l));
            (v, "7702-nearly")
        }
        5 => {
            // push-heavy legacy code ending in truncated push
            let mut v = rng.bytes_below(64);
            v.push(0x60 + rng.below(32) as u8);
            (v, "legacy-truncated-push")
        }
        6 => (rng.bytes_below(30_000), "random-large"),
        _ => (vec![rng.below(256) as u8; rng.usize(70)], "repeated-byte"),
    }
}

/// a minimal valid EOF container (one code section: STOP), used so the Eof arm is exercised
fn eof_minimal() -> Vec<u8> {
    unhex("ef000101000402000100010400000000800000" ).into_iter().chain([0x00]).collect()
}

pub fn run(ctx: &Ctx) -> i32 {
    let mut rep;
    if let Some(path) = &ctx.replay {
        rep = Report::new();
        let v: Value = serde_json::from_str(&std::fs::read_to_string(path).expect("replay")).expect("json");
        let c = &v["case"];
        if c["kind"] == "address" {
            let a = unhex(c["address"].as_str().unwrap());
            check_addr(a.try_into().unwrap(), &mut rep);
        } else {
            check_bytes(&unhex(c["bytes"].as_str().unwrap()), &mut rep, "replay");
        }
        println!("replayed: {} violation(s)", rep.violations.len());
    } else {
        let n = ctx.n(200_000, 6_000_000);
        let sh = 64;
        rep = par_shards(ctx, sh, |si, rng, rep| {
            for _ in 0..n / sh as u64 {
                let (b, c) = gen(rng);
                check_bytes(&b, rep, c);
                if rng.chance(1, 8) {
                    let mut a = [0u8; 20];
                    a.copy_from_slice(&rng.bytes(20));
                    if rng.chance(1, 10) {
                        a = [0; 20];
                    }
                    check_addr(a, rep);
                }
            }
            if si == 0 {
                // exhaustive over lengths 0..64 for the prefix classes
                for len in 0..=64usize {
                    for prefix in [&[][..], &[0xef, 0x00][..], &[0xef, 0x01][..], &[0xef, 0x01, 0x00][..], &[0xef][..]] {
                        let mut v = prefix.to_vec();
                        while v.len() < len {
                            v.push((v.len() * 7 + 1) as u8);
                        }
                        v.truncate(len.max(prefix.len().min(len)));
                        check_bytes(&v, rep, "length-sweep");
                    }
                }
                check_bytes(&eof_minimal(), rep, "eof-minimal");
                check_bytes(&[], rep, "empty");
                rep.sample(json!({"bytes": "0xef0100" .to_string() + &"11".repeat(20), "class": "7702-wellformed"}));
                rep.sample(json!({"bytes": "0x60", "class": "legacy-truncated-push"}));
            }
        });
        for c in ["random", "ef00-prefixed", "ef01-prefixed", "7702-wellformed", "legacy-truncated-push", "length-sweep", "7702-from-address"] {
            let have = rep.table_get("classes", c);
            rep.floor(&format!("class {c}"), have, 50);
        }
    }
    finish(ctx, rep, Finish {
        level: "exploration",
        rule: "random byte strings per class (plain, EF00.., EF01.., 23-byte designators and near misses, truncated PUSH tails, up to 30 kB, repeated bytes) plus a sweep of lengths 0..64 per prefix class and a minimal valid EOF container: whenever new_raw_checked accepts, original_bytes/original_byte_slice/len/is_empty equal the input and hash_slow equals an independent keccak-f[1600] implementation (KECCAK_EMPTY when empty); the same after to_analysed, whose bytes() must be input + 33 zero bytes and which must be idempotent; designators decode to bytes 3..23 and re-encode identically; Eip7702Bytecode::new(addr) round-trips and five malformed variants are rejected. Non-trivial = non-empty input; distinct by bytes.".into(),
        assumptions: vec!["harness keccak (validated on the empty-string and 'abc' vectors) is the hash oracle".into()],
    })
}
