//! C11 — per-frame zero-initialised memory. (A) direct histories on SharedMemory against
//! Vec<Vec<u8>> with hook H2; (B) online monitor on W (mon.rs) plus the quadratic expansion charge.
use crate::fw::*;
use revm_interpreter::{interpreter::resize_memory, Gas, SharedMemory};
use revm_primitives::{B256, U256};
use serde_json::{json, Value};

#[derive(Clone, Debug)]
enum Op {
    NewContext,
    FreeContext,
    Resize(usize),
    Set(usize, Vec<u8>),
    SetByte(usize, u8),
    SetWord(usize, [u8; 32]),
    SetU256(usize, [u8; 32]),
    SetData(usize, usize, usize, Vec<u8>),
    Copy(usize, usize, usize),
    Slice(usize, usize),
    GetByte(usize),
    GetWord(usize),
    /// interpreter-level resize with gas accounting
    ResizeWithGas(usize, u64),
}

fn gen(rng: &mut Rng, miri: bool) -> Vec<Op> {
    let n = rng.range(5, if miri { 40 } else { 120 }) as usize;
    let mut ops = vec![];
    // model sizes to keep preconditions (in-bounds) respected
    let mut lens: Vec<usize> = vec![0];
    let max = if miri { 4096 } else { 256 * 1024 };
    for _ in 0..n {
        let cur = *lens.last().unwrap();
        let op = match rng.below(16) {
            0 | 1 if lens.len() < 40 => {
                lens.push(0);
                Op::NewContext
            }
            2 if lens.len() > 1 => {
                lens.pop();
                Op::FreeContext
            }
            3 | 4 | 5 => {
                let grow = match rng.below(5) {
                    0 => 32,
                    1 => 32 * rng.usize(8),
                    2 => 32 * rng.usize(200),
                    3 => 0,
                    _ => 32 * rng.usize(max / 32 / 4),
                };
                let new = (cur + grow).min(max);
                if rng.chance(1, 3) {
                    let g = if rng.chance(1, 6) { rng.below(200) } else { u64::MAX >> 8 };
                    // the generator-side length follows the exact formula (a failed resize leaves the
                    // memory as it was; later ops must stay in bounds of what really exists)
                    let cost = memory_gas_ref(((new + 31) / 32) as u128).saturating_sub(memory_gas_ref((cur / 32) as u128));
                    if cost <= g as u128 {
                        *lens.last_mut().unwrap() = ((new + 31) / 32) * 32;
                    }
                    Op::ResizeWithGas(new, g)
                } else {
                    *lens.last_mut().unwrap() = new;
                    Op::Resize(new)
                }
            }
            _ if cur == 0 => {
                *lens.last_mut().unwrap() = 64;
                Op::Resize(64)
            }
            6 | 7 => {
                let l = rng.usize(cur.min(100) + 1);
                let off = rng.usize(cur - l + 1);
                Op::Set(off, rng.bytes(l))
            }
            8 => Op::SetByte(rng.usize(cur), rng.below(256) as u8),
            9 if cur >= 32 => Op::SetWord(rng.usize(cur - 31), rng.b32()),
            10 if cur >= 32 => Op::SetU256(rng.usize(cur - 31), rng.b32()),
            11 => {
                let l = rng.usize(cur.min(200) + 1);
                let off = rng.usize(cur - l + 1);
                let data = rng.bytes_below(150);
                let doff = match rng.below(4) {
                    0 => 0,
                    1 => data.len(),
                    2 => data.len() + rng.usize(10),
                    _ => rng.usize(data.len() + 1),
                };
                Op::SetData(off, doff, l, data)
            }
            12 => {
                let l = rng.usize(cur.min(300) + 1);
                let a = rng.usize(cur - l + 1);
                let b = rng.usize(cur - l + 1);
                Op::Copy(a, b, l)
            }
            13 => {
                let l = rng.usize(cur + 1);
                Op::Slice(rng.usize(cur - l + 1), l)
            }
            14 => Op::GetByte(rng.usize(cur)),
            _ if cur >= 32 => Op::GetWord(rng.usize(cur - 31)),
            _ => Op::GetByte(rng.usize(cur)),
        };
        ops.push(op);
    }
    ops
}

fn memory_gas_ref(words: u128) -> u128 {
    3 * words + words * words / 512
}

fn check(ops: &[Op], rep: &mut Report, case: &dyn Fn() -> Value, cnt: &mut [u64; 16]) {
    let mut mem = SharedMemory::new();
    mem.new_context();
    let mut model: Vec<Vec<u8>> = vec![vec![]];
    for (i, op) in ops.iter().enumerate() {
        let name;
        match op {
            Op::NewContext => {
                name = "new_context";
                cnt[0] += 1;
                mem.new_context();
                model.push(vec![]);
            }
            Op::FreeContext => {
                name = "free_context";
                cnt[1] += 1;
                mem.free_context();
                model.pop();
            }
            Op::Resize(n) => {
                name = "resize";
                cnt[2] += 1;
                mem.resize(*n);
                model.last_mut().unwrap().resize(*n, 0);
            }
            Op::ResizeWithGas(n, g) => {
                name = "resize_memory";
                cnt[3] += 1;
                let cur_words = (model.last().unwrap().len() / 32) as u128;
                let new_words = ((*n + 31) / 32) as u128;
                let cost = memory_gas_ref(new_words).saturating_sub(memory_gas_ref(cur_words));
                let mut gas = Gas::new(*g);
                let ok = resize_memory(&mut mem, &mut gas, *n);
                let want_ok = cost <= *g as u128;
                if ok != want_ok {
                    rep.violation("C11/resize_memory/verdict", format!("op {i}: resize to {n} with gas {g}: returned {ok}, exact expansion cost {cost}"), case());
                    return;
                }
                if ok {
                    if (gas.spent() as u128) != cost {
                        rep.violation("C11/resize_memory/charge", format!("op {i}: resize {} -> {} words charged {} expected {}", cur_words, new_words, gas.spent(), cost), case());
                        return;
                    }
                    model.last_mut().unwrap().resize((new_words as usize) * 32, 0);
                } else if gas.spent() != 0 {
                    rep.violation("C11/resize_memory/failed-charge-changed-gas", format!("op {i}: failed resize spent {}", gas.spent()), case());
                    return;
                }
            }
            Op::Set(o, v) => {
                name = "set";
                cnt[4] += 1;
                mem.set(*o, v);
                model.last_mut().unwrap()[*o..*o + v.len()].copy_from_slice(v);
            }
            Op::SetByte(o, b) => {
                name = "set_byte";
                cnt[5] += 1;
                mem.set_byte(*o, *b);
                model.last_mut().unwrap()[*o] = *b;
            }
            Op::SetWord(o, w) => {
                name = "set_word";
                cnt[6] += 1;
                mem.set_word(*o, &B256::from(*w));
                model.last_mut().unwrap()[*o..*o + 32].copy_from_slice(w);
            }
            Op::SetU256(o, w) => {
                name = "set_u256";
                cnt[7] += 1;
                mem.set_u256(*o, U256::from_be_bytes(*w));
                model.last_mut().unwrap()[*o..*o + 32].copy_from_slice(w);
            }
            Op::SetData(mo, d_off, len, data) => {
                name = "set_data";
                cnt[8] += 1;
                mem.set_data(*mo, *d_off, *len, data);
                let m = model.last_mut().unwrap();
                for k in 0..*len {
                    m[*mo + k] = data.get(*d_off + k).copied().unwrap_or(0);
                }
            }
            Op::Copy(dst, src, len) => {
                name = "copy";
                cnt[9] += 1;
                mem.copy(*dst, *src, *len);
                let m = model.last_mut().unwrap();
                let tmp = m[*src..*src + *len].to_vec();
                m[*dst..*dst + *len].copy_from_slice(&tmp);
            }
            Op::Slice(o, l) => {
                name = "slice";
                cnt[10] += 1;
                if mem.slice(*o, *l) != &model.last().unwrap()[*o..*o + *l] {
                    rep.violation("C11/slice/content", format!("op {i}: slice({o},{l}) differs from the model"), case());
                    return;
                }
            }
            Op::GetByte(o) => {
                name = "get_byte";
                cnt[11] += 1;
                if mem.get_byte(*o) != model.last().unwrap()[*o] {
                    rep.violation("C11/get_byte/content", format!("op {i}: get_byte({o})"), case());
                    return;
                }
            }
            Op::GetWord(o) => {
                name = "get_word";
                cnt[12] += 1;
                let w = mem.get_word(*o);
                let u = mem.get_u256(*o);
                let want = &model.last().unwrap()[*o..*o + 32];
                if w.as_slice() != want || u.to_be_bytes::<32>() != want {
                    rep.violation("C11/get_word/content", format!("op {i}: get_word/get_u256({o})"), case());
                    return;
                }
            }
        }
        // the current context equals the model; the length too
        let cur = model.last().unwrap();
        if mem.len() != cur.len() {
            rep.violation(format!("C11/{name}/len"), format!("op {i} {:?}: len {} model {}", short(op), mem.len(), cur.len()), case());
            return;
        }
        if mem.is_empty() != cur.is_empty() {
            rep.violation(format!("C11/{name}/is_empty"), format!("op {i}"), case());
            return;
        }
        // full compare is O(len): always for small contexts and after context switches, sampled otherwise
        if cur.len() <= 4096 || matches!(op, Op::NewContext | Op::FreeContext | Op::Resize(_) | Op::ResizeWithGas(..)) || i % 7 == 0 {
            if mem.context_memory() != cur.as_slice() {
                let at = mem.context_memory().iter().zip(cur.iter()).position(|(a, b)| a != b).unwrap_or(0);
                let kind = match op {
                    Op::NewContext => "child-context-not-empty-or-dirty",
                    Op::FreeContext => "parent-memory-changed-by-child",
                    Op::Resize(_) | Op::ResizeWithGas(..) => "grown-memory-not-zero",
                    _ => "content",
                };
                rep.violation(format!("C11/{name}/{kind}"), format!("op {i} {:?}: byte {at} is {:#04x}, model {:#04x}", short(op), mem.context_memory()[at], cur[at]), case());
                return;
            }
        }
        #[cfg(risechain_revm_verif)]
        if let Err(e) = mem.verif_invariants() {
            rep.violation(format!("C11/{name}/hook-H2"), format!("op {i}: {e}"), case());
            return;
        }
    }
}

fn short(o: &Op) -> String {
    let s = format!("{:?}", o);
    s.chars().take(60).collect()
}

fn one(case_seed: u64, miri: bool, rep: &mut Report, cnt: &mut [u64; 16]) {
    let mut rng = Rng::new(case_seed);
    let ops = gen(&mut rng, miri);
    rep.eval();
    rep.nontrivial(case_seed);
    let case = || json!({"kind": "api", "case_seed": case_seed, "miri": miri, "ops": ops.iter().map(|o| json!(short(o))).collect::<Vec<_>>()});
    if rep.samples.is_empty() {
        rep.sample(case());
    }
    let r = guarded(|| {
        let mut l = Report::new();
        check(&ops, &mut l, &case, cnt);
        l
    });
    match r {
        Ok(l) => {
            if !l.violations.is_empty() {
                rep.merge_light(l)
            }
        }
        Err(p) => report_panic(rep, "C11", &p, case()),
    }
}

const OPN: [&str; 13] = ["new_context", "free_context", "resize", "resize_memory", "set", "set_byte", "set_word", "set_u256", "set_data", "copy", "slice", "get_byte", "get_word"];

#[cfg(feature = "clibs")]
fn memory_lockstep(ctx: &Ctx) -> Report {
    use crate::world::*;
    use revm::primitives::{SpecId, U256};
    let offs: [u64; 8] = [0, 1, 31, 32, 33, 64, 0x100, 0x2000];
    let lens: [u64; 5] = [0, 1, 32, 33, 0x120];
    // (opcode, number of operands before the length-like ones) programs: the operands are pushed so
    // that the instruction sees (a, b, len) / (a, len) / (a) as the EVM defines them
    let mut cases: Vec<(String, Case)> = vec![];
    let mut mk = |name: String, code: Vec<u8>, spec: SpecId| {
        let mut w = World::default();
        w.accounts.insert(SENDER1, Acct { balance: U256::from(10u64).pow(U256::from(18u8)), ..Default::default() });
        w.accounts.insert(C1, Acct { nonce: 1, code, ..Default::default() });
        w.accounts.insert(C2, Acct { nonce: 1, code: vec![0x60, 0x2a, 0x60, 0x00, 0x52, 0x60, 0x40, 0x60, 0x00, 0xf3], ..Default::default() });
        let tx = TxSpec { to: Some(C1), gas_limit: 300_000, data: vec![0xab; 70], gas_price: U256::from(10u8), ..Default::default() };
        cases.push((name, Case { spec, world: w, block: BlockSpec::default(), txs: vec![tx] }));
    };
    for &first in &[0u64, 0x40] {
        for &a in &offs {
            for &b in &offs {
                for &l in &lens {
                    // MCOPY(dst=a, src=b, len=l), then a second one on the grown memory
                    let mut p = Asm::new();
                    if first > 0 {
                        p.push_u(1).push_u(first).op(0x52);
                    }
                    p.push_u(l).push_u(b).push_u(a).op(0x5e).push_u(l).push_u(a).push_u(b).op(0x5e).op(0x59).op(0x50).op(0x00);
                    mk(format!("MCOPY/{a}/{b}/{l}/{first}"), p.finish(), SpecId::CANCUN);
                }
            }
            for &l in &lens {
                for (opn, op, pre) in [("KECCAK256", 0x20u8, 0usize), ("RETURN", 0xf3, 0), ("REVERT", 0xfd, 0), ("LOG0", 0xa0, 0), ("CALLDATACOPY", 0x37, 1), ("CODECOPY", 0x39, 1), ("RETURNDATACOPY", 0x3e, 1)] {
                    let mut p = Asm::new();
                    if first > 0 {
                        p.push_u(1).push_u(first).op(0x52);
                    }
                    if opn == "RETURNDATACOPY" {
                        // make 64 bytes of return data first
                        p.push_u(0).push_u(0).push_u(0).push_u(0).push_u(0).push_addr(C2).push_u(50_000).op(0xf1).op(0x50);
                    }
                    p.push_u(l);
                    for _ in 0..pre {
                        p.push_u(3);
                    }
                    p.push_u(a).op(op);
                    if op == 0x20 {
                        p.op(0x50);
                    }
                    p.op(0x59).op(0x50).op(0x00);
                    mk(format!("{opn}/{a}/{l}/{first}"), p.finish(), SpecId::CANCUN);
                }
            }
            for (opn, op) in [("MLOAD", 0x51u8), ("MSTORE", 0x52), ("MSTORE8", 0x53)] {
                let mut p = Asm::new();
                if first > 0 {
                    p.push_u(1).push_u(first).op(0x52);
                }
                if op != 0x51 {
                    p.push_u(7);
                }
                p.push_u(a).op(op);
                if op == 0x51 {
                    p.op(0x50);
                }
                p.op(0x59).op(0x50).op(0x00);
                mk(format!("{opn}/{a}/{first}"), p.finish(), SpecId::CANCUN);
            }
        }
    }
    let cr = &cases;
    let mut rep = par_shards(ctx, 16, |si, _rng, rep| {
        for (j, (name, case)) in cr.iter().enumerate() {
            if j % 16 != si {
                continue;
            }
            rep.count("memory_lockstep_grid_cases");
            rep.cell("memory_lockstep_grid_opcodes", name.split('/').next().unwrap_or("?"));
            if super::c01_spec::diff_case_pid("C11", case, rep, name, None, None) {
                rep.nontrivial(case.hash());
            }
        }
    });
    // memory-heavy generated programs
    let n = ctx.n(3_000, 300_000);
    let r2 = par_shards(ctx, 32, |_si, rng, rep| {
        for _ in 0..(n / 32).max(1) {
            let spec = *rng.pick(&[SpecId::FRONTIER, SpecId::BYZANTIUM, SpecId::LONDON, SpecId::CANCUN, SpecId::PRAGUE]);
            let mut f = Features::all(spec);
            f.storage = false;
            f.selfdestruct = false;
            f.logs = rng.chance(1, 2);
            f.raw = false;
            let mut case = gen_case_with(rng, spec, 1, &f);
            case.txs.truncate(1);
            rep.count("memory_lockstep_generated_cases");
            if super::c01_spec::diff_case_pid("C11", &case, rep, "generated/memory-heavy", None, None) {
                rep.nontrivial(case.hash());
            }
        }
    });
    rep.merge(r2);
    // this property owns the memory size and its charge; anything else the comparison finds is C01's
    rep.violations.retain(|v| v.signature.contains("/lockstep/memory-size/") || v.signature.contains("/lockstep/gas/"));
    rep
}

pub fn run(ctx: &Ctx) -> i32 {
    let miri = ctx.lane == "miri";
    let mut rep;
    if let Some(path) = &ctx.replay {
        rep = Report::new();
        let v: Value = serde_json::from_str(&std::fs::read_to_string(path).expect("replay")).expect("json");
        if v["case"]["kind"] == "api" {
            let mut cnt = [0u64; 16];
            one(v["case"]["case_seed"].as_u64().unwrap(), v["case"]["miri"].as_bool().unwrap_or(false), &mut rep, &mut cnt);
        } else {
            #[cfg(feature = "clibs")]
            {
                super::online::replay_case(ctx, &mut rep, false);
                super::online::keep_only(&mut rep, "C11");
            }
        }
        println!("replayed: {} violation(s)", rep.violations.len());
    } else {
        let n = if miri { ctx.n(60, 300) } else { ctx.n(60_000, 4_000_000) };
        let shards = if miri { 1 } else { 64 };
        rep = par_shards(ctx, shards, |_si, rng, rep| {
            let mut cnt = [0u64; 16];
            for _ in 0..(n / shards as u64).max(1) {
                one(rng.next(), miri, rep, &mut cnt);
            }
            for (i, k) in OPN.iter().enumerate() {
                rep.cell_add("api_ops", k, cnt[i]);
            }
        });
        if !miri {
            for k in OPN {
                let have = rep.table_get("api_ops", k);
                rep.floor(&format!("api op {k}"), have, 500);
            }
            #[cfg(feature = "clibs")]
            {
                let r2 = super::online_props::run_c11_online(ctx);
                rep.merge(r2);
                // (C) size and charge of every memory-touching instruction: lock-step against the
                // reference EVM (memory size and gas left after every instruction) on a directed grid
                // of (destination, source, length) operands incl. destination == source and ranges
                // beyond the current size, and on memory-heavy generated programs
                let r3 = memory_lockstep(ctx);
                rep.merge(r3);
                super::online::keep_only(&mut rep, "C11");
                let calls = rep.counter("events/call");
                rep.floor("online: call notifications", calls, 2000);
            }
        }
    }
    finish(ctx, rep, Finish {
        level: "exploration",
        rule: "(A) random histories (5..120 ops) on SharedMemory: new_context/free_context (nesting <= 40), resize, resize_memory with gas (exact quadratic cost 3w + w^2/512 as BigInt-free u128 oracle: verdict, charge, no charge on failure), set/set_byte/set_word/set_u256/set_data (data offsets beyond the data)/copy (overlapping)/slice/get_*, contexts up to 256 KiB, API preconditions respected; oracle Vec<Vec<u8>> after every op plus hook H2 (checkpoint invariants). (B) online on W: first step of every frame sees empty memory, length is a multiple of 32 and never shrinks, and after every child frame the parent's memory is byte-identical outside the return window and equal to the return data inside it. (C) lock-step against the reference EVM (memory size and gas left after every instruction): a directed grid of MCOPY (destination x source x length incl. destination == source and ranges beyond the current size, twice in a row), KECCAK256 / RETURN / REVERT / LOG0 / CALLDATACOPY / CODECOPY / RETURNDATACOPY / MLOAD / MSTORE / MSTORE8 over offsets {0,1,31,32,33,64,0x100,0x2000} and lengths {0,1,32,33,0x120}, on empty and on already grown memory, plus memory-heavy generated programs. Non-trivial: every history / case as in W.".into(),
        assumptions: vec!["out-of-bounds slice/set are documented caller errors (resize_memory! precedes every access) and are not generated".into()],
    })
}
