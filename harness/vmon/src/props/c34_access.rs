//! C34 — cold and warm access is charged exactly per the access rules (Berlin..Prague).
//! Decided by gas equality with the reference EVM (which keeps accessed-address / accessed-slot
//! sets with snapshot/restore at frame boundaries and never-restored transaction-level sets) on
//! directed scenarios and on an access-heavy generated workload.
use super::c01_spec::diff_case_pid;
use crate::evmrun::*;
use crate::fw::*;
use crate::interp::*;
use crate::statehist::{child_address, factory_code, FACTORY};
use crate::world::*;
use revm::primitives::{Address, SpecId, U256};
use serde_json::{json, Value};
use std::collections::BTreeMap;

const BERLIN_PLUS: [SpecId; 9] = [SpecId::BERLIN, SpecId::LONDON, SpecId::ARROW_GLACIER, SpecId::GRAY_GLACIER, SpecId::MERGE, SpecId::SHANGHAI, SpecId::CANCUN, SpecId::PRAGUE, SpecId::PRAGUE];

fn base_world() -> World {
    let mut w = World::default();
    let eth = U256::from(10u64).pow(U256::from(18u8));
    w.accounts.insert(SENDER1, Acct { balance: eth * U256::from(1000u64), ..Default::default() });
    w
}

fn tx(to: Address) -> TxSpec {
    TxSpec { to: Some(to), gas_limit: 2_000_000, gas_price: U256::from(1000u64), nonce: Some(0), ..Default::default() }
}

fn hexaddr(s: &str) -> Address {
    parse_addr(s)
}

/// every constant address that appears in revm's sources; none of them is in the property's closed
/// list of pre-warmed addresses, so the first access must be cold
fn constant_addresses() -> Vec<(&'static str, Address)> {
    vec![
        ("BLOCKHASH_STORAGE_ADDRESS(draft-2935)", hexaddr("0x25a219378dad9b3503c8268c9ca836a52427a4fb")),
        ("eip2935-history-storage(final)", hexaddr("0x0000f90827f1c53a10cb7a02335b175320002935")),
        ("eip4788-beacon-roots", hexaddr("0x000f3df6d732807ef1319fb7b8bb8522d0beac02")),
        ("op-l1-block", hexaddr("0x4200000000000000000000000000000000000015")),
        ("op-base-fee-vault", hexaddr("0x4200000000000000000000000000000000000019")),
        ("op-l1-fee-vault", hexaddr("0x420000000000000000000000000000000000001a")),
        ("op-operator-fee-vault", hexaddr("0x420000000000000000000000000000000000001b")),
        ("zero-address", Address::ZERO),
        ("0x100-p256verify", Address::from_word(U256::from(0x100u64).into())),
    ]
}

fn directed(spec: SpecId) -> Vec<(String, Case)> {
    let mut v = vec![];
    let mut block = BlockSpec::default();
    block.basefee = if spec >= SpecId::LONDON { 7 } else { 0 };
    // (e) first access to constant addresses, through each opcode kind
    for (name, a) in constant_addresses() {
        for (opname, mk) in [("BALANCE", 0u8), ("EXTCODESIZE", 1), ("EXTCODEHASH", 2), ("CALL", 3), ("EXTCODECOPY", 4)] {
            let mut c = Asm::new();
            match mk {
                0 => {
                    c.push_addr(a).op(0x31).op(0x50);
                }
                1 => {
                    c.push_addr(a).op(0x3b).op(0x50);
                }
                2 => {
                    c.push_addr(a).op(0x3f).op(0x50);
                }
                3 => {
                    c.push_u(0).push_u(0).push_u(0).push_u(0).push_u(0).push_addr(a).push_u(10_000).op(0xf1).op(0x50);
                }
                _ => {
                    c.push_u(1).push_u(0).push_u(0).push_addr(a).op(0x3c);
                }
            }
            c.op(0x00);
            let mut w = base_world();
            w.accounts.insert(C1, Acct { nonce: 1, code: c.finish(), ..Default::default() });
            v.push((format!("first-access/{name}/{opname}"), Case { spec, world: w, block: block.clone(), txs: vec![tx(C1)] }));
        }
    }
    // (c) transaction-level warm set: coinbase, sender, recipient, precompiles, access list
    for (name, a) in [("coinbase", COINBASE), ("sender", SENDER1), ("recipient", C1), ("precompile-1", precompile(1)), ("precompile-9", precompile(9)), ("precompile-0a", precompile(10)), ("precompile-0b", precompile(11)), ("precompile-11", precompile(17)), ("address-0x12", precompile(18)), ("listed", C3), ("unlisted", C4)] {
        let mut c = Asm::new();
        c.push_addr(a).op(0x31).op(0x50).push_addr(a).op(0x31).op(0x50).op(0x00);
        let mut w = base_world();
        w.accounts.insert(C1, Acct { nonce: 1, code: c.finish(), ..Default::default() });
        let mut t = tx(C1);
        t.access_list.push((C3, vec![U256::from(1u8)]));
        v.push((format!("tx-level/{name}"), Case { spec, world: w, block: block.clone(), txs: vec![t] }));
    }
    // (b) access inside a reverting frame is forgotten; repeated
    for n in 0..4u64 {
        let mut probe = Asm::new();
        probe.push_addr(NONEXISTENT).op(0x31).op(0x50).push_u(2).op(0x54).op(0x50).push_u(0).push_u(0).op(0xfd);
        let mut m = Asm::new();
        for _ in 0..n {
            m.push_u(0).push_u(0).push_u(0).push_u(0).push_u(0).push_addr(C2).push_u(100_000).op(0xf1).op(0x50);
        }
        m.push_addr(NONEXISTENT).op(0x31).op(0x50);
        // SLOAD of C2's slot 2 from C2's own context via a non-reverting call afterwards
        m.push_u(0).push_u(0).push_u(0).push_u(0).push_u(0).push_addr(C3).push_u(100_000).op(0xf1).op(0x50).op(0x00);
        let mut w = base_world();
        w.accounts.insert(C1, Acct { nonce: 1, code: m.finish(), ..Default::default() });
        w.accounts.insert(C2, Acct { nonce: 1, code: probe.finish(), storage: [(U256::from(2u8), U256::from(5u8))].into_iter().collect(), ..Default::default() });
        let mut ok = Asm::new();
        ok.push_u(0).push_u(0).push_u(0).push_u(0).push_u(0).push_addr(C2).push_u(50_000).op(0xf1).op(0x50).op(0x00);
        w.accounts.insert(C3, Acct { nonce: 1, code: ok.finish(), ..Default::default() });
        v.push((format!("reverted-access-forgotten/x{n}"), Case { spec, world: w, block: block.clone(), txs: vec![tx(C1)] }));
    }
    // (a) access-list slot + reverted CREATE2 at that address + second CREATE2 reading the slot
    {
        // init code: SLOAD(1) POP REVERT(0,0)
        let init = vec![0x60, 0x01, 0x54, 0x50, 0x60, 0x00, 0x60, 0x00, 0xfd];
        let mut f = Asm::new();
        let mut word = [0u8; 32];
        word[..init.len()].copy_from_slice(&init);
        f.push32(U256::from_be_bytes(word)).push_u(0).op(0x52);
        for _ in 0..2 {
            f.push_u(9).push_u(init.len() as u64).push_u(0).push_u(0).op(0xf5).op(0x50);
        }
        f.op(0x00);
        let code = f.finish();
        let created = C1.create2_from_code(U256::from(9u8).to_be_bytes::<32>(), &init);
        for listed in [true, false] {
            let mut w = base_world();
            w.accounts.insert(C1, Acct { nonce: 1, code: code.clone(), ..Default::default() });
            let mut t = tx(C1);
            if listed {
                t.access_list.push((created, vec![U256::from(1u8)]));
            }
            v.push((format!("access-list-slot+reverted-create2/listed={listed}"), Case { spec, world: w, block: block.clone(), txs: vec![t] }));
        }
    }
    // (d) EIP-7702: authorities and delegation targets
    if spec >= SpecId::PRAGUE {
        for (name, target) in [("delegation-to-contract", C2), ("delegation-to-precompile", precompile(2)), ("delegation-to-self", DELEGATED), ("delegation-to-missing", NONEXISTENT)] {
            let mut c = Asm::new();
            // call the delegated account twice, then touch the target directly
            for _ in 0..2 {
                c.push_u(0).push_u(0).push_u(0).push_u(0).push_u(0).push_addr(DELEGATED).push_u(50_000).op(0xf1).op(0x50);
            }
            c.push_addr(target).op(0x31).op(0x50).push_addr(DELEGATED).op(0x3b).op(0x50).op(0x00);
            let mut w = base_world();
            w.accounts.insert(C1, Acct { nonce: 1, code: c.finish(), ..Default::default() });
            w.accounts.insert(C2, Acct { nonce: 1, code: vec![0x60, 0x01, 0x60, 0x00, 0x55, 0x00], ..Default::default() });
            w.accounts.insert(DELEGATED, Acct { nonce: 1, balance: U256::from(9u8), code: designator(target), ..Default::default() });
            v.push((format!("7702/{name}"), Case { spec, world: w.clone(), block: block.clone(), txs: vec![tx(C1)] }));
            // same, with an authorization that (re)delegates SENDER2 in this very transaction
            let mut t = tx(C1);
            t.priority_fee = Some(U256::from(1u8));
            t.auth_list = Some(vec![AuthSpec { chain_id: 1, address: target, nonce: 0, authority: Some(SENDER2) }]);
            w.accounts.insert(SENDER2, Acct { balance: U256::from(1u8), ..Default::default() });
            let mut c2 = Asm::new();
            c2.push_addr(SENDER2).op(0x31).op(0x50).push_u(0).push_u(0).push_u(0).push_u(0).push_u(0).push_addr(SENDER2).push_u(50_000).op(0xf1).op(0x50).op(0x00);
            w.accounts.insert(C1, Acct { nonce: 1, code: c2.finish(), ..Default::default() });
            v.push((format!("7702/authority-in-tx/{name}"), Case { spec, world: w, block: block.clone(), txs: vec![t] }));
        }
    }
    // created address is warm; CREATE2 twice to the same address
    {
        let mut w = base_world();
        w.accounts.insert(FACTORY, Acct { nonce: 1, balance: U256::from(10u8), code: factory_code(), ..Default::default() });
        let child = child_address(1);
        let mut c = Asm::new();
        for _ in 0..2 {
            c.push_u(1).push_u(0).op(0x52);
            c.push_u(0).push_u(0).push_u(32).push_u(0).push_u(0).push_addr(FACTORY).push_u(400_000).op(0xf1).op(0x50);
            c.push_addr(child).op(0x31).op(0x50);
        }
        c.op(0x00);
        w.accounts.insert(C1, Acct { nonce: 1, code: c.finish(), ..Default::default() });
        v.push(("create2-same-address-twice".into(), Case { spec, world: w, block: block.clone(), txs: vec![tx(C1)] }));
    }
    v
}

fn bias(rng: &mut Rng, c: &mut Case) {
    // access lists that name pool contracts and their slots; generous gas
    for t in c.txs.iter_mut() {
        if rng.chance(2, 3) {
            t.access_list.clear();
            for _ in 0..rng.range(1, 4) {
                let a = *rng.pick(&[C1, C2, C3, C4, C5, NONEXISTENT, DELEGATED, STORAGE_ONLY, precompile(2)]);
                t.access_list.push((a, (0..rng.below(4)).map(|_| U256::from(rng.below(5))).collect()));
            }
        }
        t.gas_limit = t.gas_limit.max(500_000);
    }
}

pub fn run(ctx: &Ctx) -> i32 {
    let mut rep = Report::new();
    if let Some(path) = &ctx.replay {
        let v: Value = serde_json::from_str(&std::fs::read_to_string(path).expect("replay")).expect("json");
        let case = Case::from_json(&v["case"]["case"]);
        diff_case_pid("C34", &case, &mut rep, "replay", None, None);
        println!("replayed: {} violation(s)", rep.violations.len());
        for v in &rep.violations {
            println!("  {} — {}", v.signature, v.what);
        }
    } else {
        // directed
        let mut jobs = vec![];
        for s in BERLIN_PLUS.iter().take(8) {
            for (n, c) in directed(*s) {
                jobs.push((n, c));
            }
        }
        let jr = &jobs;
        let nsh = 16;
        rep = par_shards(ctx, nsh, |si, _rng, rep| {
            for (j, (name, case)) in jr.iter().enumerate() {
                if j % nsh != si {
                    continue;
                }
                rep.cell("directed_scenarios", name.split('/').next().unwrap_or("?"));
                let mut local = Report::new();
                let ok = diff_case_pid("C34", case, &mut local, &format!("directed:{name}"), None, None);
                // put the scenario name into the signature so that different scenarios stay distinct
                for v in local.violations.iter_mut() {
                    v.signature = format!("{}/{}", v.signature.rsplit_once('/').map(|x| x.0).unwrap_or(&v.signature), name);
                }
                let _ = ok;
                rep.eval();
                rep.nontrivial(case.hash());
                rep.merge_light(local);
                rep.count("directed_cases");
            }
        });
        // generated, access-heavy
        let n = ctx.n(20_000, 3_000_000);
        let shards = 64;
        let r2 = par_shards(ctx, shards, |_si, rng, rep| {
            for _ in 0..(n / shards as u64).max(1) {
                let spec = *rng.pick(&BERLIN_PLUS);
                let mut case = gen_case(rng, spec, 1);
                bias(rng, &mut case);
                rep.cell("generated_cases_per_spec", spec_name(spec));
                if diff_case_pid("C34", &case, rep, "generated", None, None) {
                    rep.nontrivial(case.hash());
                }
            }
        });
        rep.merge(r2);
        rep.sample(json!({"scenario": "access-list-slot+reverted-create2", "what": "tx lists (created address, slot 1); factory runs CREATE2 twice with init code SLOAD(1) REVERT: both SLOADs must be warm"}));
        rep.sample(json!({"scenario": "first-access/<constant address>/<opcode>", "addresses": constant_addresses().iter().map(|(n, a)| json!([n, addr_hex(a)])).collect::<Vec<_>>()}));
        let d = rep.counter("directed_cases");
        rep.floor("directed cases", d, 400);
        let b = rep.counter("reference_comparisons");
        rep.floor("reference comparisons", b, 5000);
        // which warm/cold charging opcodes did the reference execute
        for op in ["31", "3b", "3c", "3f", "54", "55", "f1", "f2", "f4", "fa", "ff", "f0", "f5"] {
            let have = rep.table_get("opcodes_executed_by_reference/berlin+", op);
            rep.floor(&format!("opcode 0x{op} executed under Berlin+"), have, 20);
        }
    }
    finish(ctx, rep, Finish {
        level: "exploration",
        rule: "gas_used (and everything else C01 compares) of the real Evm versus the reference EVM, Berlin..Prague: (1) directed scenarios per spec — first access to every constant address that appears in revm's sources through BALANCE / EXTCODESIZE / EXTCODEHASH / CALL / EXTCODECOPY; sender, recipient, coinbase, precompiles of this and later forks, listed and unlisted addresses accessed twice; an access inside a reverting frame repeated 0..3 times before a surviving access; an access-list slot of an address that is then CREATE2-created and reverted twice; EIP-7702 delegation targets (contract, precompile, self, missing) and authorities set in the same transaction; CREATE2 to the same address twice; (2) generated programs from W with dense access lists. Non-trivial = comparison completed; distinct by case hash.".into(),
        assumptions: vec!["the reference EVM (validated on the EEST fixtures by C01) is the oracle for the exact charge".into()],
    })
}
