//! C25 — interpreting any bytecode is memory-safe and always ends with a defined outcome.
//!
//! The monitor part (this file) watches for: panics (incl. debug assertions and overflow checks in
//! lane `dbg`, and hook H1: instruction pointer inside the code buffer before every dispatch and
//! after every step), `InterpreterAction::None`, undefined transaction outcomes, gas_used above
//! the limit, and executions longer than the gas limit allows (H1's step counter). The sanitizer
//! part is the same workload run under AddressSanitizer / Miri / valgrind by tools/sanlane.py.
use crate::evmrun::*;
use crate::fw::*;
use crate::interp::*;
use crate::world::*;
use revm::interpreter::{
    interpreter::VERIF_STEPS, CallOutcome, Contract, CreateOutcome, DummyHost, Gas, InstructionResult, Interpreter, InterpreterAction, InterpreterResult, SharedMemory,
};
use revm::primitives::{Address, Bytecode, Bytes, Env, SpecId, U256};
use serde_json::{json, Value};

fn steps_now() -> u64 {
    VERIF_STEPS.with(|c| c.get())
}

/// write the case about to run where the lane runner can find it if the process dies
pub fn breadcrumb(v: impl FnOnce() -> Value) {
    thread_local! {
        static PATH: Option<String> = std::env::var("VERIF_BREADCRUMB").ok();
    }
    PATH.with(|p| {
        if let Some(p) = p {
            let _ = std::fs::write(p, v().to_string());
        }
    });
}

const GASES: [u64; 9] = [0, 1, 2, 20_999, 21_000, 30_000, 100_000, 1_000_000, 1 << 32];
/// limits that can pay for more memory than the machine has: run in child processes (an
/// allocation failure aborts the process; it is the environment's limit, not a verdict)
const GASES_HUGE: [u64; 6] = [1 << 36, 1 << 40, 1 << 48, 1 << 63, u64::MAX - 1, u64::MAX];

/// classes of raw legacy code
pub fn gen_raw_code(rng: &mut Rng) -> (Vec<u8>, &'static str) {
    match rng.below(12) {
        0 => (rng.bytes_below(40), "random-short"),
        1 => {
            // (the interpreter under Miri analyses ~1 KiB per second)
            let n = rng.usize(if cfg!(miri) { 1024 } else { 24 * 1024 });
            (rng.bytes(n), "random-long")
        }
        2 => {
            // all PUSH32
            let n = 1 + rng.usize(40);
            let mut c = vec![];
            for _ in 0..n {
                c.push(0x7f);
                c.extend_from_slice(&rng.b32());
            }
            let cut = rng.usize(33);
            c.truncate(c.len() - cut.min(c.len()));
            (c, "all-push32(truncated)")
        }
        3 => (vec![0x5b; rng.usize(if cfg!(miri) { 200 } else { 3000 })], "all-jumpdest"),
        4 => {
            // trailing truncated PUSHn for each n
            let n = 1 + rng.below(32) as u8;
            let mut c = rng.bytes_below(20);
            c.push(0x5f + n);
            let have = rng.usize(n as usize);
            c.extend(rng.bytes(have));
            (c, "trailing-truncated-push")
        }
        5 => {
            // opcode soup from defined opcodes with small pushes: runs deeper than uniform bytes
            let n = 1 + rng.usize(300);
            let mut c = vec![];
            for _ in 0..n {
                match rng.below(5) {
                    0 | 1 => {
                        c.push(0x60);
                        c.push(rng.below(256) as u8);
                    }
                    2 => c.push(0x80 + rng.below(32) as u8),
                    _ => c.push(rng.below(256) as u8),
                }
            }
            (c, "opcode-soup")
        }
        6 => {
            // jump-heavy: PUSH1 t JUMP / JUMPI with JUMPDESTs sprinkled
            let n = 2 + rng.usize(60);
            let mut c = vec![];
            for _ in 0..n {
                match rng.below(4) {
                    0 => c.push(0x5b),
                    1 => {
                        c.extend_from_slice(&[0x60, rng.below(2 * n as u64) as u8, 0x56]);
                    }
                    2 => {
                        c.extend_from_slice(&[0x60, rng.below(2) as u8, 0x60, rng.below(2 * n as u64) as u8, 0x57]);
                    }
                    _ => {
                        c.extend_from_slice(&[0x60, rng.below(256) as u8]);
                    }
                }
            }
            (c, "jump-heavy")
        }
        7 => {
            // memory / copy with extreme operands
            let mut a = Asm::new();
            let n = 1 + rng.usize(6);
            for _ in 0..n {
                let big = |rng: &mut Rng| match rng.below(6) {
                    0 => U256::MAX,
                    1 => U256::from(u64::MAX),
                    2 => U256::from(u64::MAX - 31),
                    3 => U256::from(1u64 << 32),
                    4 => U256::from(rng.below(4096)),
                    _ => U256::from(rng.below(64)),
                };
                match rng.below(7) {
                    0 => {
                        a.push(big(rng)).op(0x51).op(0x50);
                    }
                    1 => {
                        a.push(big(rng)).push(big(rng)).op(0x52);
                    }
                    2 => {
                        a.push(big(rng)).push(big(rng)).push(big(rng)).op(*rng.pick(&[0x37u8, 0x39, 0x3e, 0x5e]));
                    }
                    3 => {
                        a.push(big(rng)).push(big(rng)).op(0x20).op(0x50);
                    }
                    4 => {
                        a.push(big(rng)).push(big(rng)).op(*rng.pick(&[0xf3u8, 0xfd]));
                    }
                    5 => {
                        a.push(big(rng)).push(big(rng)).push(big(rng)).push(big(rng)).op(0x3c);
                    }
                    _ => {
                        a.push(big(rng)).push(big(rng)).op(0xa0);
                    }
                }
            }
            (a.finish(), "extreme-memory-operands")
        }
        8 => {
            // call family with extreme gas/offset operands
            let mut a = Asm::new();
            let n = 1 + rng.usize(4);
            for _ in 0..n {
                let w = |rng: &mut Rng| if rng.chance(1, 4) { word(rng) } else { U256::from(rng.below(128)) };
                let op = *rng.pick(&[0xf1u8, 0xf2, 0xf4, 0xfa, 0xf0, 0xf5]);
                let argc = match op {
                    0xf1 | 0xf2 => 7,
                    0xf4 | 0xfa => 6,
                    0xf0 => 3,
                    _ => 4,
                };
                for _ in 0..argc {
                    a.push(w(rng));
                }
                a.op(op).op(0x50);
            }
            (a.finish(), "call-family-operands")
        }
        9 => {
            // fill the stack to the limit (±2), then stack instructions at the boundary
            let n = 1022 + rng.usize(5);
            let mut c = vec![];
            for _ in 0..n {
                match rng.below(3) {
                    0 => c.push(0x5f),
                    1 => c.extend_from_slice(&[0x60, rng.below(256) as u8]),
                    _ => c.push(0x30),
                }
            }
            let m = 1 + rng.usize(6);
            for _ in 0..m {
                match rng.below(5) {
                    0 => c.push(0x80 + rng.below(16) as u8),
                    1 => c.push(0x90 + rng.below(16) as u8),
                    2 => c.push(0x50),
                    3 => c.extend_from_slice(&[0x61, 1, 2]),
                    _ => c.push(0x5f),
                }
            }
            (c, "stack-at-the-limit")
        }
        _ => {
            let spec = random_spec(rng, false);
            let f = Features::swarm(rng, spec);
            (gen_program(rng, &f, 0, 40), "generated-program")
        }
    }
}

pub struct BareOutcome {
    pub result: InstructionResult,
    pub steps: u64,
    pub resumes: u64,
}

/// run on a bare Interpreter with a DummyHost; sub-call / create actions are answered with
/// fabricated outcomes and the interpreter resumed
pub fn run_bare_resumable(spec: SpecId, bytecode: Bytecode, input: &[u8], gas: u64, is_static: bool, rng: &mut Rng) -> Result<BareOutcome, String> {
    let table = table_for(spec);
    let mut host = DummyHost::new(Env::default());
    let contract = Contract::new(Bytes::copy_from_slice(input), bytecode, None, Address::with_last_byte(0xcc), None, Address::with_last_byte(0xca), U256::from(rng.below(3)));
    let mut interp = Interpreter::new(contract, gas, is_static);
    let mut mem = SharedMemory::new();
    mem.new_context();
    let s0 = steps_now();
    let mut resumes = 0u64;
    loop {
        let act = interp.run(mem, &table, &mut host);
        mem = interp.take_memory();
        match act {
            InterpreterAction::None => return Err("Interpreter::run returned InterpreterAction::None".into()),
            InterpreterAction::Return { result } => {
                if result.gas.spent() > gas {
                    return Err(format!("gas spent {} exceeds the limit {}", result.gas.spent(), gas));
                }
                return Ok(BareOutcome { result: result.result, steps: steps_now() - s0, resumes });
            }
            InterpreterAction::Call { inputs } => {
                resumes += 1;
                let mut g = Gas::new(inputs.gas_limit);
                let _ = g.record_cost(rng.below(inputs.gas_limit.saturating_add(1)));
                let res = *rng.pick(&[InstructionResult::Return, InstructionResult::Stop, InstructionResult::Revert, InstructionResult::OutOfGas, InstructionResult::CallTooDeep, InstructionResult::OutOfFunds, InstructionResult::PrecompileError]);
                if rng.chance(1, 3) {
                    g.record_refund(rng.below(20_000) as i64);
                }
                let out = Bytes::from(rng.bytes_below(100));
                interp.insert_call_outcome(&mut mem, CallOutcome::new(InterpreterResult::new(res, out, g), inputs.return_memory_offset.clone()));
            }
            InterpreterAction::Create { inputs } => {
                resumes += 1;
                let mut g = Gas::new(inputs.gas_limit);
                let _ = g.record_cost(rng.below(inputs.gas_limit.saturating_add(1)));
                let res = *rng.pick(&[InstructionResult::Return, InstructionResult::Stop, InstructionResult::Revert, InstructionResult::OutOfGas, InstructionResult::CreateCollision, InstructionResult::CreateContractSizeLimit]);
                let addr = if res.is_ok() { Some(Address::with_last_byte(0xdd)) } else { None };
                interp.insert_create_outcome(CreateOutcome::new(InterpreterResult::new(res, Bytes::from(rng.bytes_below(60)), g), addr));
            }
            InterpreterAction::EOFCreate { inputs } => {
                resumes += 1;
                let mut g = Gas::new(inputs.gas_limit);
                let _ = g.record_cost(rng.below(inputs.gas_limit.saturating_add(1)));
                let res = *rng.pick(&[InstructionResult::ReturnContract, InstructionResult::Revert, InstructionResult::OutOfGas, InstructionResult::CreateCollision]);
                let addr = if res == InstructionResult::ReturnContract { Some(Address::with_last_byte(0xde)) } else { None };
                interp.insert_eofcreate_outcome(CreateOutcome::new(InterpreterResult::new(res, Bytes::from(rng.bytes_below(60)), g), addr));
            }
        }
        if resumes > 200_000 {
            return Err("more than 200000 sub-call resumptions".into());
        }
    }
}

fn strip_jumpdests(code: &mut [u8]) {
    for b in code.iter_mut() {
        if *b == 0x5b {
            *b = 0x01;
        }
    }
}

fn bare_case(rng: &mut Rng, rep: &mut Report) {
    let (mut code, class) = gen_raw_code(rng);
    let spec = *rng.pick(&ALL_SPECS);
    let gas = if rng.chance(1, 2) { *rng.pick(&GASES) } else { rng.below(300_000) };
    if gas > 10_000_000 {
        // loops could spin for 2^60 steps: huge limits run loop-free code (every jump is invalid)
        strip_jumpdests(&mut code);
    }
    let input = rng.bytes_below(200);
    let is_static = rng.chance(1, 5);
    let sub_seed = rng.next();
    let cj = || json!({"mode": "bare", "spec": spec_name(spec), "code": hex(&code), "input": hex(&input), "gas": gas.to_string(), "static": is_static, "sub_seed": sub_seed.to_string()});
    breadcrumb(&cj);
    run_bare_checked(spec, &code, &input, gas, is_static, sub_seed, rep, class, &cj);
}

#[allow(clippy::too_many_arguments)]
fn run_bare_checked(spec: SpecId, code: &[u8], input: &[u8], gas: u64, is_static: bool, sub_seed: u64, rep: &mut Report, class: &str, cj: &dyn Fn() -> Value) {
    rep.eval();
    let mut r2 = Rng::new(sub_seed);
    let bc = Bytecode::new_legacy(Bytes::copy_from_slice(code));
    let r = guarded(|| run_bare_resumable(spec, bc, input, gas, is_static, &mut r2));
    rep.cell("bare_cases_per_class", class);
    match r {
        Err(p) => report_panic(rep, "C25", &p, cj()),
        Ok(Err(e)) => {
            let sig = if e.contains("None") { "C25/no-outcome/InterpreterAction-None" } else if e.contains("gas spent") { "C25/gas-spent-above-limit/bare" } else { "C25/does-not-terminate/resumptions" };
            rep.violation(sig, e, cj());
        }
        Ok(Ok(o)) => {
            rep.cell("bare_results", &format!("{:?}", o.result));
            rep.add("bare_steps", o.steps);
            rep.add("bare_resumptions", o.resumes);
            if o.steps > 1 {
                rep.nontrivial(hash64(code) ^ gas ^ (spec as u64) << 56);
            }
            // every instruction that does not end the frame costs at least 1 gas
            let bound = (gas as u128) + 1 + o.resumes as u128;
            if (o.steps as u128) > bound {
                rep.violation("C25/more-steps-than-gas/bare", format!("{} instructions dispatched with gas limit {} and {} resumptions", o.steps, gas, o.resumes), cj());
            }
        }
    }
}

/// through the Evm: raw code deployed at C1 (called) or sent as init code
fn evm_case(rng: &mut Rng, rep: &mut Report) {
    let spec = *rng.pick(&ALL_SPECS);
    let f = Features::swarm(rng, spec);
    let mut world = gen_world(rng, &f, spec);
    let (code, class) = gen_raw_code(rng);
    let block = gen_block(rng, spec);
    let mut tx = gen_valid_tx(rng, &f, spec, &world, &block);
    let as_init = rng.chance(1, 4);
    if as_init {
        tx.to = None;
        tx.data = code.clone();
        tx.auth_list = None;
        tx.blob_hashes.clear();
        tx.max_fee_per_blob_gas = None;
    } else {
        let acct = world.accounts.entry(C1).or_default();
        acct.code = code.clone();
        if acct.nonce == 0 {
            acct.nonce = 1;
        }
        tx.to = Some(C1);
        tx.data = rng.bytes_below(150);
    }
    tx.gas_limit = *rng.pick(&[21_000u64, 25_000, 53_000, 60_000, 100_000, 400_000, 3_000_000, 20_000_000]);
    let case = Case { spec, world, block, txs: vec![tx] };
    let cj = || json!({"mode": "evm", "case": case.to_json(), "class": class});
    breadcrumb(&cj);
    run_evm_checked(&case, rep, class, &cj);
}

fn run_evm_checked(case: &Case, rep: &mut Report, class: &str, cj: &dyn Fn() -> Value) {
    rep.eval();
    let s0 = steps_now();
    let run = crate::wrun::run_history(case, None, false);
    let steps = steps_now() - s0;
    rep.cell("evm_cases_per_class", class);
    rep.cell("evm_cases_per_spec", spec_name(case.spec));
    if let Some((_, p)) = &run.panic {
        report_panic(rep, "C25", p, cj());
        return;
    }
    rep.add("evm_steps", steps);
    for (tx, o) in case.txs.iter().zip(run.outcomes.iter()) {
        match o {
            TxOutcome::Executed { class, reason, gas_used, .. } => {
                rep.cell("evm_outcomes", &format!("{class}/{reason}"));
                if *gas_used > tx.gas_limit {
                    rep.violation("C25/gas-used-above-limit/evm", format!("gas_used {} > gas_limit {}", gas_used, tx.gas_limit), cj());
                }
                if steps > 1 {
                    rep.nontrivial(case.hash());
                }
            }
            TxOutcome::Rejected(_) => {
                rep.cell("evm_outcomes", "rejected");
            }
            other => {
                rep.violation(format!("C25/undefined-outcome/{}", other.class()), format!("transaction ended with {}", other.to_json()), cj());
            }
        }
    }
    let total_gas: u128 = case.txs.iter().map(|t| t.gas_limit as u128).sum();
    // every frame's non-final instructions cost >= 1 gas out of the transaction's limit, and every
    // frame has at most one final instruction; frames <= 1 + calls <= 1 + gas
    if steps as u128 > 2 * total_gas + 2 {
        rep.violation("C25/more-steps-than-gas/evm", format!("{} instructions dispatched for a total gas limit of {}", steps, total_gas), cj());
    }
}

pub fn run(ctx: &Ctx) -> i32 {
    let mut rep = Report::new();
    if let Some(path) = &ctx.replay {
        let v: Value = serde_json::from_str(&std::fs::read_to_string(path).expect("replay")).expect("json");
        let c = if v.get("case").is_some() { &v["case"] } else { &v };
        match c["mode"].as_str() {
            Some("bare") => {
                let spec = spec_from_name(c["spec"].as_str().unwrap()).unwrap();
                let code = unhex(c["code"].as_str().unwrap());
                let input = unhex(c["input"].as_str().unwrap());
                let gas: u64 = c["gas"].as_str().unwrap().parse().unwrap();
                let sub: u64 = c["sub_seed"].as_str().unwrap().parse().unwrap();
                let cc = c.clone();
                run_bare_checked(spec, &code, &input, gas, c["static"].as_bool().unwrap_or(false), sub, &mut rep, "replay", &move || cc.clone());
            }
            _ => {
                let case = Case::from_json(&c["case"]);
                let cc = c.clone();
                run_evm_checked(&case, &mut rep, "replay", &move || cc.clone());
            }
        }
        println!("replayed: {} violation(s)", rep.violations.len());
        for v in &rep.violations {
            println!("  {} — {}", v.signature, v.what);
        }
        return finish(ctx, rep, Finish { level: "exploration", rule: "replay".into(), assumptions: vec![] });
    }
    if ctx.arg("mode") == Some("hugegas") {
        return hugegas_child(ctx);
    }
    let slow = matches!(ctx.lane.as_str(), "miri" | "memcheck");
    let miri = ctx.lane == "miri";
    let n_bare = if miri { ctx.n(14, 120) } else if slow { ctx.n(60, 150) } else { ctx.n(60_000, 6_000_000) };
    let n_evm = if miri { 0 } else if slow { ctx.n(20, 60) } else { ctx.n(30_000, 3_000_000) };
    let n_eof = if miri { 0 } else if slow { ctx.n(4, 12) } else { ctx.n(1_500, 150_000) };
    let nsh = if slow { 1 } else { 64 };
    let r = par_shards(ctx, nsh, |_si, rng, rep| {
        for _ in 0..(n_bare / nsh as u64).max(1) {
            bare_case(rng, rep);
        }
        for _ in 0..(n_evm / nsh as u64).max(if n_evm > 0 { 1 } else { 0 }) {
            evm_case(rng, rep);
        }
        // validated EOF containers under OSAKA
        for _ in 0..(n_eof / nsh as u64).max(if n_eof > 0 { 1 } else { 0 }) {
            let mut rt = vec![];
            let mut ic = vec![];
            for _ in 0..3 {
                if let Some(c) = super::c26_eof::gen_valid(rng, false, 4) {
                    rt.push(c);
                }
            }
            if let Some(c) = super::c26_eof::gen_valid(rng, true, 4) {
                ic.push(c);
            }
            // jumps into immediates: whatever validation accepts of these is executed
            for _ in 0..4 {
                let il = crate::eofgen::gen_immediate_landing(rng);
                if revm::interpreter::analysis::validate_raw_eof_inner(Bytes::copy_from_slice(&il), Some(revm::interpreter::analysis::CodeType::ReturnOrStop)).is_ok() {
                    rep.count("jump_into_immediate_accepted_by_validation");
                    rt.insert(0, il);
                } else {
                    rep.count("jump_into_immediate_rejected_by_validation");
                }
            }
            rep.eval();
            breadcrumb(|| json!({"mode": "eof", "runtime": rt.iter().map(|c| hex(c)).collect::<Vec<_>>(), "initcode": ic.iter().map(|c| hex(c)).collect::<Vec<_>>()}));
            super::c26_eof::exec_accepted(rng, rep, "C25", &rt, &ic);
            rep.nontrivial(rng.next());
        }
    });
    rep.merge(r);
    if !slow {
        hugegas_parent(ctx, &mut rep);
        super::c26_eof::run_osaka_fixtures(ctx, &mut rep, "C25");
        for (k, need) in [("bare_steps", 100_000u64), ("bare_resumptions", 1_000), ("evm_steps", 100_000), ("eof_transactions_executed", 1_000)] {
            let have = rep.counter(k);
            rep.floor(k, have, need);
        }
        for r in ["Stop", "Return", "Revert", "OutOfGas", "MemoryOOG", "InvalidJump", "StackUnderflow", "StackOverflow", "OpcodeNotFound", "InvalidFEOpcode"] {
            let have = rep.table_get("bare_results", r);
            rep.floor(&format!("bare runs ending in {r}"), have, if ctx.lane == "rel" { 5 } else { 1 });
        }
    }
    super::online::keep_only(&mut rep, "C25");
    finish(ctx, rep, Finish {
        level: "exploration",
        rule: "(bare) raw legacy code — uniform random bytes up to 24 KiB, all-PUSH32 with truncated tail, all-JUMPDEST, trailing truncated PUSHn for every n, opcode soup, jump-heavy code, memory/copy/call instructions with operands at 2^64 and 2^256 boundaries, generated programs — on a bare Interpreter with DummyHost, every SpecId, gas limits {0,1,2,20999,21000,30000,1e5,1e6,2^32,2^63,2^64-2,2^64-1} and random, static or not; CALL/CREATE/EOFCREATE actions are answered with fabricated outcomes (success/revert/failure, random return data, gas and refunds) and the interpreter resumed. (evm) the same code deployed and called, or sent as init code, in generated worlds for every SpecId. (eof) containers accepted by validation executed under OSAKA + the shipped OSAKA state fixtures. Refuting observations: any panic (debug assertions and overflow checks in lane dbg), hook H1 (instruction pointer and immediates inside the code buffer before every dispatch; pointer inside after every step), InterpreterAction::None, a transaction result that is neither executed nor rejected, gas spent above the limit, more dispatched instructions than the gas limit can pay for. Sanitizer lanes (asan, miri, memcheck) run the same workload in sharded processes; a sanitizer report refutes. Non-trivial = more than one instruction executed.".into(),
        assumptions: vec!["huge gas limits (> 10^7) run loop-free code (JUMPDEST bytes replaced) so the run is finite in practice".into(), "fabricated sub-call outcomes never return more gas than was forwarded".into()],
    })
}

/// child: cases skip..count with huge gas limits; progress and the current case go to --crumb
fn hugegas_child(ctx: &Ctx) -> i32 {
    let count: u64 = ctx.arg("count").and_then(|s| s.parse().ok()).unwrap_or(100);
    let skip: u64 = ctx.arg("skip").and_then(|s| s.parse().ok()).unwrap_or(0);
    let crumb = ctx.arg("crumb").unwrap_or("/dev/null").to_string();
    let out = ctx.arg("out").unwrap_or("/dev/null").to_string();
    let mut rep = Report::new();
    for i in skip..count {
        let mut rng = Rng::new(ctx.seed ^ (i + 1).wrapping_mul(0x9E3779B97F4A7C15));
        let (mut code, class) = gen_raw_code(&mut rng);
        strip_jumpdests(&mut code);
        let spec = *rng.pick(&ALL_SPECS);
        let gas = *rng.pick(&GASES_HUGE);
        let input = rng.bytes_below(100);
        let is_static = rng.chance(1, 5);
        let sub_seed = rng.next();
        let cj = || json!({"mode": "bare", "spec": spec_name(spec), "code": hex(&code), "input": hex(&input), "gas": gas.to_string(), "static": is_static, "sub_seed": sub_seed.to_string()});
        let _ = std::fs::write(&crumb, json!({"index": i, "case": cj()}).to_string());
        run_bare_checked(spec, &code, &input, gas, is_static, sub_seed, &mut rep, class, &cj);
    }
    let viol: Vec<Value> = rep.violations.iter().map(|v| json!({"signature": v.signature, "what": v.what, "case": v.case})).collect();
    let _ = std::fs::write(&out, json!({"cases": rep.evaluations, "steps": rep.counter("bare_steps"), "results": rep.tables.get("bare_results"), "violations": viol}).to_string());
    0
}

fn hugegas_parent(ctx: &Ctx, rep: &mut Report) {
    let exe = std::env::current_exe().expect("current exe");
    let count = ctx.n(800, 60_000);
    let dir = std::env::temp_dir().join(format!("vmon-c25-{}-{}", std::process::id(), ctx.seed));
    let _ = std::fs::create_dir_all(&dir);
    let workers = ctx.jobs.clamp(1, 16) as u64;
    let per = count.div_ceil(workers);
    let results: Vec<Report> = std::thread::scope(|s| {
        let hs: Vec<_> = (0..workers)
            .map(|w| {
                let exe = exe.clone();
                let dir = dir.clone();
                s.spawn(move || {
                    let mut rep = Report::new();
                    let crumb = dir.join(format!("crumb{w}.json"));
                    let out = dir.join(format!("out{w}.json"));
                    let mut skip = 0u64;
                    let seed = ctx.seed.wrapping_mul(1000).wrapping_add(w);
                    let mut restarts = 0;
                    while skip < per && restarts < 5_000 {
                        let _ = std::fs::remove_file(&out);
                        // 1 GiB per child: paid-for allocations beyond that fail at once (address-space
                        // limit; under AddressSanitizer, whose shadow needs terabytes of address space,
                        // the allocator's own size cap)
                        let limit = if ctx.lane == "asan" { "" } else { "ulimit -v 1048576; " };
                        let cmd = format!(
                            "{limit}exec {} C25 --mode hugegas --seed {} --count {} --skip {} --crumb {} --out {} --lane {} --jobs 1",
                            exe.display(), seed, per, skip, crumb.display(), out.display(), ctx.lane
                        );
                        let o = std::process::Command::new("sh").arg("-c").arg(&cmd).env("ASAN_OPTIONS", "halt_on_error=1:abort_on_error=0:detect_leaks=0:exitcode=98:allocator_may_return_null=0:max_allocation_size_mb=1024").output();
                        let Ok(o) = o else {
                            rep.inconclusive("could not spawn the huge-gas child process");
                            break;
                        };
                        if let Ok(sj) = std::fs::read_to_string(&out) {
                            // finished normally
                            let v: Value = serde_json::from_str(&sj).unwrap_or(Value::Null);
                            rep.add("hugegas_cases_completed", v["cases"].as_u64().unwrap_or(0));
                            rep.evaluations += v["cases"].as_u64().unwrap_or(0);
                            rep.add("bare_steps", v["steps"].as_u64().unwrap_or(0));
                            if let Some(t) = v["results"].as_object() {
                                for (k, n) in t {
                                    rep.cell_add("hugegas_results", k, n.as_u64().unwrap_or(0));
                                }
                            }
                            for x in v["violations"].as_array().cloned().unwrap_or_default() {
                                rep.violation(x["signature"].as_str().unwrap_or("C25/?").to_string(), x["what"].as_str().unwrap_or("").to_string(), x["case"].clone());
                            }
                            break;
                        }
                        // died: where, and why?
                        let err = String::from_utf8_lossy(&o.stderr).to_string();
                        let cr: Value = std::fs::read_to_string(&crumb).ok().and_then(|s| serde_json::from_str(&s).ok()).unwrap_or(Value::Null);
                        let idx = cr["index"].as_u64().unwrap_or(skip);
                        let alloc = err.contains("memory allocation of") || err.contains("allocator is out of memory") || err.contains("out-of-memory") || err.contains("requested allocation size");
                        if alloc {
                            rep.count("hugegas_cases_stopped_by_allocation_limit(paid for by gas; environment limit)");
                        } else {
                            let first = err.lines().find(|l| l.contains("ERROR") || l.contains("panicked") || l.contains("SUMMARY")).unwrap_or("").chars().take(160).collect::<String>();
                            let class = if err.contains("AddressSanitizer") { "asan-report" } else { "process-died" };
                            rep.violation(format!("C25/{class}/hugegas/{}", first.split_whitespace().take(4).collect::<Vec<_>>().join("-")), format!("child exited with {:?}: {}", o.status.code(), first), cr["case"].clone());
                        }
                        rep.evaluations += idx + 1 - skip;
                        skip = idx + 1;
                        restarts += 1;
                    }
                    rep
                })
            })
            .collect();
        hs.into_iter().map(|h| h.join().unwrap()).collect()
    });
    for r in results {
        rep.merge(r);
    }
    let _ = std::fs::remove_dir_all(&dir);
}
