//! C24 — the same seeded input stream through the C back ends (lane rel: secp256k1 + c-kzg) and
//! the pure-Rust ones (lane alt: k256 + kzg-rs). This module only *dumps* results; the comparison
//! (equality line by line) is done by tools/c24runner.py over the two dumps.
use super::c23_precompiles::*;
use crate::fw::*;
use revm::precompile::PrecompileSpecId;
use serde_json::{json, Value};
use std::io::Write;

/// 192-byte point-evaluation inputs shipped with the EEST fixtures (valid and invalid ones)
pub fn fixture_kzg_inputs() -> Vec<Vec<u8>> {
    let mut out = vec![];
    let mut seen = std::collections::BTreeSet::new();
    for f in super::c01_spec::fixture_files() {
        if !f.contains("point_evaluation_precompile") {
            continue;
        }
        let Ok(s) = std::fs::read_to_string(&f) else { continue };
        let Ok(d) = serde_json::from_str::<Value>(&s) else { continue };
        let Some(o) = d.as_object() else { continue };
        for t in o.values() {
            for x in t["transaction"]["data"].as_array().cloned().unwrap_or_default() {
                let b = unhex(x.as_str().unwrap_or("0x"));
                if b.len() == 192 && seen.insert(b.clone()) {
                    out.push(b);
                }
            }
        }
    }
    out
}

pub fn run(ctx: &Ctx) -> i32 {
    let out_path = ctx.arg("out").expect("C24 is driven by tools/c24runner.py: --out FILE").to_string();
    let n_ec = ctx.n(6_000, 400_000);
    let n_kzg = ctx.n(1_500, 60_000);
    let fixtures = fixture_kzg_inputs();
    let nsh = 64usize;
    let fx = &fixtures;
    // every shard produces its lines in a deterministic order; shards are concatenated in index order
    let lines: std::sync::Mutex<Vec<(usize, Vec<String>)>> = std::sync::Mutex::new(vec![]);
    let rep = par_shards(ctx, nsh, |si, rng, rep| {
        let pools = Pools::new();
        let mut my = vec![];
        let mut emit = |pc: Pc, input: &[u8], gas: u64, class: &str, rep: &mut Report| {
            rep.eval();
            let r = match guarded(|| call_real(pc, PrecompileSpecId::PRAGUE, input, gas)) {
                Ok(r) => r.to_json(),
                Err(p) => json!({"panic": format!("{} at {}", p.message, p.location)}),
            };
            rep.cell(&format!("results/{}", pc.name()), if r.get("ok").is_some() { "ok" } else { "not-ok" });
            rep.cell(&format!("classes/{}", pc.name()), class);
            if r.get("ok").is_some() {
                rep.nontrivial(hash64(input));
            }
            my.push(format!("{}\t{}\t{}\t{}\t{}", pc.name(), class, hex(input), gas, r));
        };
        for _ in 0..(n_ec / nsh as u64).max(1) {
            let (input, hint) = gen_input(Pc::Ecrecover, rng, &pools);
            emit(Pc::Ecrecover, &input, u64::MAX, hint.class, rep);
            if rng.chance(1, 8) {
                emit(Pc::Ecrecover, &input, 2999, hint.class, rep);
            }
        }
        for k in 0..(n_kzg / nsh as u64).max(1) {
            let (input, class): (Vec<u8>, &str) = if !fx.is_empty() && k % 3 != 0 {
                let base = rng.pick(fx).clone();
                if rng.chance(1, 2) {
                    (base, "fixture")
                } else {
                    let mut m = base;
                    let i = rng.usize(m.len());
                    match rng.below(3) {
                        0 => m[i] ^= 1 << rng.below(8),
                        1 => m[i] = rng.below(256) as u8,
                        _ => {
                            // keep the versioned hash consistent with a mutated commitment
                            let j = 96 + rng.usize(48);
                            m[j] ^= 1 << rng.below(8);
                            let mut vh = crate::pcref::sha256(&m[96..144]);
                            vh[0] = 1;
                            m[0..32].copy_from_slice(&vh);
                        }
                    }
                    (m, "fixture-mutated")
                }
            } else {
                let (i, h) = gen_input(Pc::Kzg, rng, &pools);
                (i, h.class)
            };
            emit(Pc::Kzg, &input, u64::MAX, class, rep);
            if rng.chance(1, 8) {
                emit(Pc::Kzg, &input, 49_999, class, rep);
            }
        }
        lines.lock().unwrap().push((si, my));
    });
    let mut all = lines.into_inner().unwrap();
    all.sort_by_key(|x| x.0);
    let mut f = std::io::BufWriter::new(std::fs::File::create(&out_path).expect("dump file"));
    for (_, ls) in all {
        for l in ls {
            writeln!(f, "{l}").unwrap();
        }
    }
    let mut rep = rep;
    rep.add("kzg_fixture_inputs", fixtures.len() as u64);
    finish(ctx, rep, Finish {
        level: "exploration",
        rule: "dump of (precompile, input, gas limit) -> result for ecrecover (the C23 generator: signatures made by the harness, high-s twins, bad v, r/s at the group-order boundaries, short/long/random inputs) and KZG point evaluation (every 192-byte input of the shipped EEST point-evaluation fixtures, their bit/byte mutations incl. commitment mutations with a recomputed versioned hash, and the C23 generator); tools/c24runner.py runs it in lanes rel (secp256k1 + c-kzg) and alt (k256 + kzg-rs) with the same seed and requires the dumps to be identical line by line. Non-trivial = a successful call; distinct by input.".into(),
        assumptions: vec![],
    })
}
