use crate::fw::*;

pub mod c01_spec;
pub mod c02_validation;
pub mod c03_arith;
pub mod c04_jump;
pub mod c06_journal;
pub mod c05_forks;
pub mod c11_memory;
pub mod c12_stack;
pub mod c14_gasformulas;
pub mod c13_gas;
pub mod c15_c19;
pub mod c20_wrappers;
pub mod c21_collision;
pub mod c22_reward;
pub mod c23_precompiles;
pub mod c24_backends;
pub mod c25_safety;
pub mod c26_eof;
pub mod c27_bytecode;
pub mod c31_reuse;
pub mod c28_inspectors;
pub mod c32_blob;
#[cfg(feature = "optimism")]
pub mod c33_optimism;
pub mod c34_access;
pub mod online;
pub mod online_props;

pub fn dispatch(ctx: &Ctx) -> i32 {
    match ctx.id.as_str() {
        "C01" => c01_spec::run(ctx),
        "C05" => c05_forks::run(ctx),
        "C11" => c11_memory::run(ctx),
        "C14" => c14_gasformulas::run(ctx),
        "C02" => c02_validation::run(ctx),
        #[cfg(feature = "optimism")]
        "C33" => c33_optimism::run(ctx),
        #[cfg(not(feature = "optimism"))]
        "C33" => {
            println!("INCONCLUSIVE property=C33 needs the op lane (vmon built with --features optimism)");
            2
        }
        "C34" => c34_access::run(ctx),
        "C03" => c03_arith::run(ctx),
        "C04" => c04_jump::run(ctx),
        "C23" => c23_precompiles::run(ctx),
        "C24" => c24_backends::run(ctx),
        "C25" => c25_safety::run(ctx),
        "C26" => c26_eof::run(ctx),
        "C27" => c27_bytecode::run(ctx),
        "C06" => online_props::run_c06_online(ctx, None),
        "C07" => online_props::run_c07(ctx),
        "C08" => online_props::run_c08(ctx),
        "C09" => online_props::run_c09(ctx),
        "C10" => online_props::run_c10(ctx),
        "C28" => online_props::run_c28(ctx),
        "C29" => online_props::run_c29(ctx),
        "C30" => online_props::run_c30(ctx),
        "C15" | "C16" | "C17" | "C18" | "C19" => c15_c19::run(ctx),
        "C20" => c20_wrappers::run(ctx),
        "C21" => c21_collision::run(ctx),
        #[cfg(feature = "optimism")]
        "C22" if ctx.lane == "op" => c33_optimism::run_c22_clause(ctx),
        "C22" => c22_reward::run(ctx),
        "C31" => c31_reuse::run(ctx),
        "C12" => c12_stack::run(ctx),
        "C13" => c13_gas::run(ctx),
        "C32" => c32_blob::run(ctx),
        other => {
            eprintln!("unknown property {other}");
            3
        }
    }
}
