use crate::fw::*;

pub mod c03_arith;
pub mod c04_jump;
pub mod c12_stack;
pub mod c13_gas;
pub mod c27_bytecode;
pub mod c32_blob;

pub fn dispatch(ctx: &Ctx) -> i32 {
    match ctx.id.as_str() {
        "C03" => c03_arith::run(ctx),
        "C04" => c04_jump::run(ctx),
        "C27" => c27_bytecode::run(ctx),
        "C12" => c12_stack::run(ctx),
        "C13" => c13_gas::run(ctx),
        "C32" => c32_blob::run(ctx),
        other => {
            eprintln!("unknown property {other}");
            3
        }
    }
}
