//! C32 — blob fee functions vs the EIP-4844 integer definitions (DESIGN 5/C32).
//! Every call of the function under test runs in a child process (this same binary, `--mode child`)
//! that announces each input before calling, so a non-returning call is attributed to its input.
use crate::fw::*;
use num_bigint::BigUint;
use num_traits::{One, Zero};
use revm_primitives::{calc_blob_gasprice, calc_excess_blob_gas, fake_exponential};
use serde_json::{json, Value};
use std::io::{BufRead, BufReader, Write};
use std::process::{Command, Stdio};
use std::sync::mpsc;
use std::time::Duration;

const FRACTION_CANCUN: u64 = 3338477;
const FRACTION_PRAGUE: u64 = 5007716;

#[derive(Clone, Debug, PartialEq)]
enum Input {
    Fe(u64, u64, u64),
    Price(u64, bool),
    Excess(u64, u64, u64),
}

impl Input {
    fn json(&self) -> Value {
        match self {
            Input::Fe(f, n, d) => json!({"fake_exponential": [f, n, d]}),
            Input::Price(e, p) => json!({"calc_blob_gasprice": [e, p]}),
            Input::Excess(a, b, t) => json!({"calc_excess_blob_gas": [a, b, t]}),
        }
    }
    fn func(&self) -> &'static str {
        match self {
            Input::Fe(..) => "fake_exponential",
            Input::Price(..) => "calc_blob_gasprice",
            Input::Excess(..) => "calc_excess_blob_gas",
        }
    }
}

enum Exact {
    Value(BigUint),
    /// a partial sum already proves the result is >= 2^128
    ExceedsU128,
}

/// EIP-4844 fake_exponential over unbounded integers. Terms are non-negative, so a partial sum is
/// a lower bound: as soon as partial/denominator >= 2^128 the verdict "does not fit" is exact.
fn exact_fe(f: u64, n: u64, d: u64) -> Exact {
    let two128 = BigUint::one() << 128;
    let den = BigUint::from(d);
    let num = BigUint::from(n);
    let mut i = BigUint::one();
    let mut output = BigUint::zero();
    let mut accum = BigUint::from(f) * &den;
    let bound = &two128 * &den;
    while !accum.is_zero() {
        output += &accum;
        if output >= bound {
            return Exact::ExceedsU128;
        }
        accum = (&accum * &num) / (&den * &i);
        i += 1u32;
    }
    Exact::Value(output / den)
}

fn fits_price(excess: u64, frac: u64) -> bool {
    matches!(exact_fe(1, excess, frac), Exact::Value(_))
}

fn price_at_least(excess: u64, frac: u64, k: u32) -> bool {
    match exact_fe(1, excess, frac) {
        Exact::ExceedsU128 => true,
        Exact::Value(v) => v >= (BigUint::one() << k),
    }
}

fn b64(rng: &mut Rng) -> u64 {
    match rng.below(10) {
        0 => 0,
        1 => 1,
        2 => 2,
        3 => u64::MAX,
        4 => u64::MAX - 1,
        5 => 1 << 63,
        6 => (1u64 << rng.below(64)).wrapping_sub(rng.below(2)),
        7 => rng.below(1 << 20),
        _ => rng.next() >> rng.below(64),
    }
}

/// deterministic input list for (seed, tier)
fn inputs(ctx: &Ctx) -> (Vec<Input>, usize) {
    let mut rng = Rng::new(ctx.seed ^ 0xC32);
    let mut v = vec![];
    let mut heavy = 0usize;
    for (frac, prague) in [(FRACTION_CANCUN, false), (FRACTION_PRAGUE, true)] {
        // dense low range
        let step = if ctx.quick() { 257 } else { 17 };
        let mut e = 0u64;
        while e < (1 << 22) {
            v.push(Input::Price(e, prague));
            e += step;
        }
        // mainnet-like multiples of GAS_PER_BLOB
        for k in 0..2000u64 {
            v.push(Input::Price(k * 131072, prague));
        }
        // every excess where the exact price crosses a power of two, with both neighbours
        for k in 1..=128u32 {
            let (mut lo, mut hi) = (0u64, frac.saturating_mul(95));
            // smallest excess with price >= 2^k
            while lo < hi {
                let mid = lo + (hi - lo) / 2;
                if price_at_least(mid, frac, k) {
                    hi = mid
                } else {
                    lo = mid + 1
                }
            }
            for d in [-2i64, -1, 0, 1, 2] {
                v.push(Input::Price(lo.wrapping_add(d as u64), prague));
            }
        }
        // largest excess whose exact price fits u128, and its neighbours
        let (mut lo, mut hi) = (0u64, frac.saturating_mul(95));
        while lo < hi {
            let mid = lo + (hi - lo + 1) / 2;
            if fits_price(mid, frac) {
                lo = mid
            } else {
                hi = mid - 1
            }
        }
        for d in -40i64..=40 {
            v.push(Input::Price(lo.wrapping_add(d as u64), prague));
        }
        // range between "intermediates start to exceed 128 bits" and "result stops fitting"
        let n = ctx.n(3_000, 200_000);
        for _ in 0..n {
            v.push(Input::Price(rng.range(frac * 40, lo + 1000), prague));
        }
        for _ in 0..n {
            v.push(Input::Price(rng.below(lo + 1), prague));
        }
        // far beyond: the exact value does not fit; a returned value would be a wrapped one. These may
        // not return in the unchecked build (each costs one watchdog period), so only a few.
        for e in [1u64 << 32, 1 << 40, u64::MAX] {
            v.push(Input::Price(e, prague));
            heavy += 1;
        }
    }
    // arbitrary (factor, numerator, denominator)
    let n = ctx.n(40_000, 2_000_000);
    for _ in 0..n {
        let d = b64(&mut rng).max(1);
        let f = b64(&mut rng);
        let nmr = match rng.below(4) {
            0 => b64(&mut rng),
            1 => (d as u128 * rng.below(90) as u128).min(u64::MAX as u128) as u64,
            2 => (d as u128 * rng.below(200) as u128 / (1 + rng.below(8)) as u128).min(u64::MAX as u128) as u64,
            _ => rng.below(d.saturating_mul(2).max(1)),
        };
        // numerator/denominator > 300 with a large numerator can spin in the unchecked build: keep few
        if (nmr / d) > 300 && nmr > (1 << 40) {
            if heavy >= 12 {
                continue;
            }
            heavy += 1;
        }
        v.push(Input::Fe(f, nmr, d));
    }
    // calc_excess_blob_gas boundary triples
    let n = ctx.n(40_000, 2_000_000);
    for _ in 0..n {
        v.push(Input::Excess(b64(&mut rng), b64(&mut rng), b64(&mut rng)));
    }
    for (a, b, t) in [(u64::MAX, 2, 10), (u64::MAX, 1, 1), (u64::MAX, u64::MAX, u64::MAX), (1 << 63, 1 << 63, 1), (0, 0, 0), (5, 5, 11)] {
        v.push(Input::Excess(a, b, t));
    }
    (v, heavy)
}

fn call(i: &Input) -> u128 {
    match i {
        Input::Fe(f, n, d) => fake_exponential(*f, *n, *d),
        Input::Price(e, p) => calc_blob_gasprice(*e, *p),
        Input::Excess(a, b, t) => calc_excess_blob_gas(*a, *b, *t) as u128,
    }
}

fn write_inputs(path: &str, v: &[Input]) {
    let mut s = String::with_capacity(v.len() * 40);
    for i in v {
        match i {
            Input::Fe(f, n, d) => s.push_str(&format!("F {f} {n} {d}\n")),
            Input::Price(e, p) => s.push_str(&format!("P {e} {}\n", *p as u8)),
            Input::Excess(a, b, t) => s.push_str(&format!("X {a} {b} {t}\n")),
        }
    }
    std::fs::write(path, s).expect("write inputs file");
}

fn read_inputs(path: &str) -> Vec<Input> {
    let s = std::fs::read_to_string(path).expect("inputs file");
    s.lines()
        .map(|l| {
            let p: Vec<&str> = l.split(' ').collect();
            let u = |i: usize| p[i].parse::<u64>().unwrap();
            match p[0] {
                "F" => Input::Fe(u(1), u(2), u(3)),
                "P" => Input::Price(u(1), u(2) == 1),
                _ => Input::Excess(u(1), u(2), u(3)),
            }
        })
        .collect()
}

fn child(ctx: &Ctx) -> i32 {
    let v = read_inputs(ctx.arg("inputs").expect("--inputs"));
    let from: usize = ctx.arg("from").unwrap().parse().unwrap();
    let to: usize = ctx.arg("to").unwrap().parse().unwrap();
    let stride: usize = ctx.arg("stride").unwrap().parse().unwrap();
    let out = std::io::stdout();
    let mut idx = from;
    while idx < to.min(v.len()) {
        {
            let mut o = out.lock();
            writeln!(o, "S {idx}").unwrap();
            o.flush().unwrap();
        }
        let r = guarded(|| call(&v[idx]));
        let mut o = out.lock();
        match r {
            Ok(x) => writeln!(o, "R {idx} {x}").unwrap(),
            Err(p) => writeln!(o, "P {idx} {}", p.location).unwrap(),
        }
        idx += stride;
    }
    let mut o = out.lock();
    writeln!(o, "E").unwrap();
    o.flush().unwrap();
    0
}

#[derive(Debug)]
enum Obs {
    Ret(u128),
    Panic(String),
    NoReturn,
}

/// Run inputs with index = from, from+stride, ... in child processes; restart after a hang.
fn observe(ctx: &Ctx, inputs_path: &str, total: usize, from0: usize, stride: usize, watchdog_s: u64, sink: &mut dyn FnMut(usize, Obs)) -> Result<(), String> {
    let exe = std::env::current_exe().map_err(|e| e.to_string())?;
    let mut from = from0;
    let watchdog = Duration::from_secs(watchdog_s);
    let idle_limit = Duration::from_secs(180);
    while from < total {
        let mut ch = Command::new(&exe)
            .args(["C32", "--mode", "child", "--tier", if ctx.quick() { "quick" } else { "thorough" }, "--seed", &ctx.seed.to_string(), "--lane", &ctx.lane, "--inputs", inputs_path, "--from", &from.to_string(), "--to", &total.to_string(), "--stride", &stride.to_string()])
            .stdout(Stdio::piped())
            .stderr(Stdio::null())
            .spawn()
            .map_err(|e| e.to_string())?;
        let stdout = ch.stdout.take().unwrap();
        let (tx, rx) = mpsc::channel::<String>();
        let t = std::thread::spawn(move || {
            for l in BufReader::new(stdout).lines() {
                match l {
                    Ok(l) => {
                        if tx.send(l).is_err() {
                            break;
                        }
                    }
                    Err(_) => break,
                }
            }
        });
        let mut current: Option<usize> = None;
        let mut done = false;
        loop {
            // the watchdog applies only while a call is announced; otherwise the child is between
            // calls (start-up, scheduling on a loaded machine) and gets a generous idle limit
            let wait = if current.is_some() { watchdog } else { idle_limit };
            match rx.recv_timeout(wait) {
                Ok(l) => {
                    let mut it = l.split(' ');
                    match it.next() {
                        Some("S") => current = Some(it.next().unwrap().parse().unwrap()),
                        Some("R") => {
                            let idx: usize = it.next().unwrap().parse().unwrap();
                            let val: u128 = it.next().unwrap().parse().unwrap();
                            sink(idx, Obs::Ret(val));
                            current = None;
                            from = idx + stride;
                        }
                        Some("P") => {
                            let idx: usize = it.next().unwrap().parse().unwrap();
                            sink(idx, Obs::Panic(it.next().unwrap_or("?").to_string()));
                            current = None;
                            from = idx + stride;
                        }
                        Some("E") => {
                            done = true;
                            break;
                        }
                        _ => {}
                    }
                }
                Err(mpsc::RecvTimeoutError::Timeout) => {
                    let _ = ch.kill();
                    if let Some(idx) = current {
                        sink(idx, Obs::NoReturn);
                        from = idx + stride;
                    } else {
                        let _ = ch.wait();
                        return Err("child silent without an announced input".into());
                    }
                    break;
                }
                Err(mpsc::RecvTimeoutError::Disconnected) => {
                    // child died without E: abort/signal while computing `current`
                    if let Some(idx) = current {
                        sink(idx, Obs::Panic("process-abort".into()));
                        from = idx + stride;
                    } else {
                        let _ = ch.wait();
                        return Err("child exited unexpectedly".into());
                    }
                    break;
                }
            }
        }
        let _ = ch.wait();
        drop(rx);
        let _ = t.join();
        if done {
            break;
        }
    }
    Ok(())
}

fn representable(inp: &Input) -> bool {
    match inp {
        Input::Fe(f, n, d) => matches!(exact_fe(*f, *n, *d), Exact::Value(_)),
        Input::Price(e, p) => matches!(exact_fe(1, *e, if *p { FRACTION_PRAGUE } else { FRACTION_CANCUN }), Exact::Value(_)),
        Input::Excess(a, b, t) => ((*a as u128 + *b as u128).saturating_sub(*t as u128)) <= u64::MAX as u128,
    }
}

fn judge(inp: &Input, obs: Obs, rep: &mut Report, lane: &str) {
    rep.eval();
    rep.cell("calls", inp.func());
    let case = || json!({"input": inp.json(), "lane": lane});
    let (exact, fits): (Option<BigUint>, bool) = match inp {
        Input::Fe(f, n, d) => match exact_fe(*f, *n, *d) {
            Exact::Value(v) => (Some(v), true),
            Exact::ExceedsU128 => (None, false),
        },
        Input::Price(e, p) => match exact_fe(1, *e, if *p { FRACTION_PRAGUE } else { FRACTION_CANCUN }) {
            Exact::Value(v) => (Some(v), true),
            Exact::ExceedsU128 => (None, false),
        },
        Input::Excess(a, b, t) => {
            let s = BigUint::from(*a) + BigUint::from(*b);
            let t = BigUint::from(*t);
            let v = if s > t { s - t } else { BigUint::zero() };
            let fits = v.bits() <= 64;
            (Some(v), fits)
        }
    };
    let nontrivial = match inp {
        Input::Fe(f, n, _) => *f > 0 && *n > 0,
        Input::Price(e, _) => *e > 0,
        Input::Excess(a, b, _) => *a > 0 || *b > 0,
    };
    if nontrivial {
        rep.nontrivial(hash64(format!("{:?}", inp).as_bytes()));
    }
    let f = inp.func();
    if fits {
        let want = exact.unwrap();
        rep.count("exact_value_representable");
        match obs {
            Obs::Ret(v) => {
                if BigUint::from(v) != want {
                    let class = match inp {
                        Input::Excess(a, b, _) if (*a as u128 + *b as u128) > u64::MAX as u128 => "sum-exceeds-u64",
                        Input::Excess(..) => "plain",
                        _ => {
                            // did an intermediate product exceed 128 bits? (discrete cause for the signature)
                            "wrong-value"
                        }
                    };
                    rep.violation(format!("C32/{f}/returned-wrong-value/{class}"), format!("{:?}: returned {v}, exact {want}", inp), case());
                } else {
                    rep.count("equal_to_exact");
                }
            }
            Obs::Panic(loc) => {
                let cls = if loc.contains("utilities.rs") { "in-function" } else { "elsewhere" };
                rep.violation(format!("C32/{f}/panic-on-representable-result/{cls}"), format!("{:?}: panicked at {loc}, exact result {want} is representable", inp), case());
            }
            Obs::NoReturn => {
                rep.violation(format!("C32/{f}/no-return-on-representable-result"), format!("{:?}: did not return within the watchdog, exact result {want}", inp), case());
            }
        }
    } else {
        rep.count("exact_value_not_representable");
        match obs {
            Obs::Ret(v) => {
                rep.violation(format!("C32/{f}/silently-returned-when-not-representable"), format!("{:?}: returned {v} although the exact value is not representable in the return type", inp), case());
            }
            Obs::Panic(_) => rep.count("loud_failure_on_unrepresentable"),
            Obs::NoReturn => {
                // the property forbids a silent wrapped *return*; not returning is recorded, not judged
                rep.count("no_return_on_unrepresentable(observation)");
                rep.set("no_return_inputs", &format!("{:?}", inp));
            }
        }
    }
}

pub fn run(ctx: &Ctx) -> i32 {
    if ctx.arg("mode") == Some("child") {
        return child(ctx);
    }
    let mut rep = Report::new();
    if let Some(path) = &ctx.replay {
        let v: Value = serde_json::from_str(&std::fs::read_to_string(path).expect("replay")).expect("json");
        let c = &v["case"]["input"];
        let u = |x: &Value| x.as_u64().unwrap();
        let inp = if let Some(a) = c.get("fake_exponential") {
            Input::Fe(u(&a[0]), u(&a[1]), u(&a[2]))
        } else if let Some(a) = c.get("calc_blob_gasprice") {
            Input::Price(u(&a[0]), a[1].as_bool().unwrap())
        } else {
            let a = &c["calc_excess_blob_gas"];
            Input::Excess(u(&a[0]), u(&a[1]), u(&a[2]))
        };
        // NOTE: replay calls in-process; an input that does not return will hang here by design
        let r = guarded(|| call(&inp));
        let obs = match r {
            Ok(x) => Obs::Ret(x),
            Err(p) => Obs::Panic(p.location),
        };
        println!("replay {:?} -> {:?}", inp, obs);
        judge(&inp, obs, &mut rep, &ctx.lane);
    } else {
        let (v, heavy) = inputs(ctx);
        let total = v.len();
        let jobs = ctx.jobs.max(1);
        let inputs_path = format!("{}/harness/target/c32-inputs-{}-{}.txt", VERIF_ROOT, ctx.lane, std::process::id());
        write_inputs(&inputs_path, &v);
        let inputs_path_ref = &inputs_path;
        let results: Vec<(Vec<(usize, Obs)>, Option<String>)> = std::thread::scope(|s| {
            let hs: Vec<_> = (0..jobs)
                .map(|j| {
                    s.spawn(move || {
                        let mut got = vec![];
                        let r = observe(ctx, inputs_path_ref, total, j, jobs, 5, &mut |idx, o| got.push((idx, o)));
                        (got, r.err())
                    })
                })
                .collect();
            hs.into_iter().map(|h| h.join().unwrap()).collect()
        });
        let mut seen = 0usize;
        for (got, err) in results {
            if let Some(e) = err {
                rep.inconclusive(format!("child protocol error: {e}"));
            }
            for (idx, o) in got {
                seen += 1;
                // a watchdog expiry on an input whose exact result is representable is re-examined
                // alone with a 90 s watchdog before it is judged (wall-clock never decides quickly)
                let o = if matches!(o, Obs::NoReturn) && representable(&v[idx]) {
                    let mut again = None;
                    let _ = observe(ctx, inputs_path_ref, idx + 1, idx, 1, 90, &mut |_i, o2| again = Some(o2));
                    rep.count("watchdog_expiries_rechecked_alone");
                    again.unwrap_or(Obs::NoReturn)
                } else {
                    o
                };
                judge(&v[idx], o, &mut rep, &ctx.lane);
            }
        }
        let _ = std::fs::remove_file(&inputs_path);
        if seen != total {
            rep.inconclusive(format!("observed {seen} of {total} inputs"));
        }
        rep.extra.insert("inputs_that_may_not_return_in_unchecked_build".into(), json!(heavy));
        for i in v.iter().filter(|i| matches!(i, Input::Price(e, _) if *e > 1_000_000)).take(3) {
            rep.sample(i.json());
        }
        for i in v.iter().filter(|i| matches!(i, Input::Fe(..))).take(2) {
            rep.sample(i.json());
        }
        for i in v.iter().filter(|i| matches!(i, Input::Excess(..))).take(2) {
            rep.sample(i.json());
        }
    }
    finish(ctx, rep, Finish {
        level: "exploration",
        rule: "calc_blob_gasprice over a dense low range, mainnet multiples of 2^17, every excess where the exact price crosses a power of two (+-2), the largest representable excess +-40, random draws below/around it, and {2^32, 2^40, 2^64-1}; fake_exponential over boundary/random (factor, numerator, denominator); calc_excess_blob_gas over boundary triples. Oracle: EIP-4844 pseudo-code on BigUint (partial sums are lower bounds, so 'exceeds 128 bits' is exact). Each call runs in a child process that announces the input first (watchdog 4 s). Non-trivial = non-zero factor/numerator/excess; distinct by input.".into(),
        assumptions: vec!["num-bigint arithmetic is the trusted oracle".into(), "a call that does not return for an input whose exact value is not representable is recorded as an observation, not judged (the property forbids silent wrapped returns)".into()],
    })
}
