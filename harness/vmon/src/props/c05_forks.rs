//! C05 — each opcode and precompile exists exactly from its activating hardfork (exhaustive).
use crate::evmrun::*;
use crate::fw::*;
use crate::interp::*;
use crate::world::*;
use revm::interpreter::{InstructionResult, Interpreter};
use revm::primitives::{SpecId, U256};
use revm::{inspector_handle_register, Database, Evm, EvmContext, Inspector};
use serde_json::{json, Value};

/// fork that introduces a legacy opcode; None = never valid in legacy code
fn introduced(op: u8) -> Option<SpecId> {
    use SpecId::*;
    Some(match op {
        0x00..=0x0b => FRONTIER,
        0x10..=0x1a => FRONTIER,
        0x1b..=0x1d => CONSTANTINOPLE,
        0x20 => FRONTIER,
        0x30..=0x3c => FRONTIER,
        0x3d | 0x3e => BYZANTIUM,
        0x3f => CONSTANTINOPLE,
        0x40..=0x45 => FRONTIER,
        0x46 | 0x47 => ISTANBUL,
        0x48 => LONDON,
        0x49 | 0x4a => CANCUN,
        0x50..=0x5b => FRONTIER,
        0x5c..=0x5e => CANCUN,
        0x5f => SHANGHAI,
        0x60..=0x7f => FRONTIER,
        0x80..=0x8f => FRONTIER,
        0x90..=0x9f => FRONTIER,
        0xa0..=0xa4 => FRONTIER,
        0xf0..=0xf3 => FRONTIER,
        0xf4 => HOMESTEAD,
        0xf5 => CONSTANTINOPLE,
        0xfa => BYZANTIUM,
        0xfd => BYZANTIUM,
        0xff => FRONTIER,
        _ => return None,
    })
}

struct Probe {
    pc: usize,
    result: Option<InstructionResult>,
}

impl<DB: Database> Inspector<DB> for Probe {
    fn step(&mut self, interp: &mut Interpreter, _c: &mut EvmContext<DB>) {
        if interp.program_counter() == self.pc && self.result.is_none() {
            self.result = Some(InstructionResult::Continue);
        }
    }
    fn step_end(&mut self, interp: &mut Interpreter, _c: &mut EvmContext<DB>) {
        if self.result == Some(InstructionResult::Continue) {
            // first step_end after reaching the probed pc
            self.result = Some(match interp.instruction_result {
                InstructionResult::Continue => InstructionResult::Stop, // marker: "executed and continued"
                r => r,
            });
            if interp.instruction_result == InstructionResult::Continue {
                self.pc = usize::MAX;
            }
        }
    }
}

fn is_undefined(r: InstructionResult) -> bool {
    matches!(r, InstructionResult::OpcodeNotFound | InstructionResult::NotActivated | InstructionResult::EOFOpcodeDisabledInLegacy | InstructionResult::InvalidFEOpcode | InstructionResult::ReturnContractInNotInitEOF)
}

fn check_opcode(op: u8, spec: SpecId, rep: &mut Report) {
    rep.eval();
    rep.nontrivial(((op as u64) << 8) | spec as u64);
    let mut code = vec![];
    for i in 0..17u8 {
        code.push(0x60);
        code.push(if i == 16 { 0x40 } else { 0x00 });
    }
    // top of stack = 0x40 (harmless as offset/size/address)
    code.push(op);
    code.extend_from_slice(&[0u8; 40]);
    let mut w = World::default();
    w.accounts.insert(SENDER1, Acct { balance: U256::from(10u64).pow(U256::from(20u8)), ..Default::default() });
    w.accounts.insert(C1, Acct { nonce: 1, balance: U256::from(1000u64), code: code.clone(), ..Default::default() });
    let tx = TxSpec { to: Some(C1), gas_limit: 200_000, gas_price: U256::from(10u64), ..Default::default() };
    let mut block = BlockSpec::default();
    block.basefee = 0;
    let case = || json!({"kind": "opcode", "opcode": format!("{:#04x}", op), "spec": spec_name(spec)});
    let r = guarded(|| {
        let mut probe = Probe { pc: 34, result: None };
        let res = {
            let mut evm = Evm::builder().with_db(RefDB::new(w.clone(), spec)).with_external_context(&mut probe).with_spec_id(spec).with_env(make_env(spec, &block, &tx)).append_handler_register(inspector_handle_register).build();
            evm.transact()
        };
        (probe.result, outcome_of(&res.map(|r| r.result)))
    });
    let (res, out) = match r {
        Ok(x) => x,
        Err(p) => {
            report_panic(rep, "C05", &p, case());
            return;
        }
    };
    let Some(res) = res else {
        rep.inconclusive(format!("C05 harness: opcode {:#04x} in {} was not reached: {}", op, spec_name(spec), out.to_json()));
        return;
    };
    let want_defined = introduced(op).map(|s| spec >= s).unwrap_or(false);
    let undefined = is_undefined(res);
    rep.cell("cells", if want_defined { "defined" } else { "undefined" });
    if want_defined && undefined {
        rep.violation(format!("C05/opcode-missing/{:#04x}", op), format!("opcode {:#04x} should exist in {} but ended with {:?}", op, spec_name(spec), res), case());
    } else if !want_defined {
        if !undefined {
            rep.violation(format!("C05/opcode-exists-too-early-or-never/{:#04x}", op), format!("opcode {:#04x} must be undefined in {} but ended with {:?}", op, spec_name(spec), res), case());
        } else {
            match &out {
                TxOutcome::Executed { class: "halt", gas_used, .. } if *gas_used == tx.gas_limit => {}
                o => rep.violation(format!("C05/undefined-opcode-did-not-consume-all-gas/{:#04x}", op), format!("undefined opcode {:#04x} in {}: outcome {}", op, spec_name(spec), o.to_json()), case()),
            }
        }
    }
}

fn precompile_active_from(n: u16) -> Option<SpecId> {
    use SpecId::*;
    match n {
        1..=4 => Some(FRONTIER),
        5..=8 => Some(BYZANTIUM),
        9 => Some(ISTANBUL),
        0x0a => Some(CANCUN),
        0x0b..=0x11 => Some(PRAGUE),
        _ => None,
    }
}

const MARK: u8 = 0xa7;

fn check_precompile(n: u16, spec: SpecId, rep: &mut Report) {
    rep.eval();
    rep.nontrivial(0x1_0000 | ((n as u64) << 8) | spec as u64);
    let target = if n == 0x100 { revm::primitives::Address::from_word(U256::from(0x100u64).into()) } else { precompile(n as u8) };
    // input: per precompile
    let input: Vec<u8> = match n {
        1 => vec![0u8; 128],
        4 => (1..=32u8).collect(),
        5 => {
            let mut v = vec![0u8; 96];
            v[31] = 1;
            v[63] = 1;
            v[95] = 1;
            v.extend_from_slice(&[2, 3, 5]);
            v
        }
        _ => vec![],
    };
    let mut a = Asm::new();
    // input at 0x100.., output window 0x80..0xa0 prefilled with the marker
    a.push32(U256::from_be_bytes([MARK; 32])).push_u(0x80).op(0x52);
    for (i, chunk) in input.chunks(32).enumerate() {
        let mut w = [0u8; 32];
        w[..chunk.len()].copy_from_slice(chunk);
        a.push32(U256::from_be_bytes(w)).push_u(0x100 + 32 * i as u64).op(0x52);
    }
    let call = |a: &mut Asm| {
        a.push_u(32).push_u(0x80).push_u(input.len() as u64).push_u(0x100).push_u(0).push_addr(target).push_u(150_000).op(0xf1);
    };
    // first call warms the address; the second one is measured
    call(&mut a);
    a.op(0x50);
    a.push32(U256::from_be_bytes([MARK; 32])).push_u(0x80).op(0x52);
    a.op(0x5a);
    call(&mut a);
    a.op(0x5a); // stack: gas_before, flag, gas_after
    a.push_u(0x40).op(0x52); // mem[0x40] = gas_after
    a.push_u(0x00).op(0x52); // mem[0x00] = flag
    a.push_u(0x20).op(0x52); // mem[0x20] = gas_before
    a.push_u(0xa0).push_u(0).op(0xf3);
    let code = a.finish();
    let mut w = World::default();
    w.accounts.insert(SENDER1, Acct { balance: U256::from(10u64).pow(U256::from(20u8)), ..Default::default() });
    w.accounts.insert(C1, Acct { nonce: 1, balance: U256::from(1000u64), code, ..Default::default() });
    let tx = TxSpec { to: Some(C1), gas_limit: 1_000_000, gas_price: U256::from(10u64), ..Default::default() };
    let mut block = BlockSpec::default();
    block.basefee = 0;
    let case = || json!({"kind": "precompile", "address": n, "spec": spec_name(spec)});
    let r = guarded(|| crate::wrun::transact_plain(RefDB::new(w.clone(), spec), spec, &block, &tx));
    let out = match r {
        Ok(r) => outcome_of(&r.map(|x| x.result)),
        Err(p) => {
            report_panic(rep, "C05", &p, case());
            return;
        }
    };
    let TxOutcome::Executed { class: "success", output, .. } = &out else {
        rep.inconclusive(format!("C05 harness: precompile probe {n:#x} in {} did not complete: {}", spec_name(spec), out.to_json()));
        return;
    };
    let word = |i: usize| U256::from_be_slice(&output[32 * i..32 * i + 32]);
    let flag = word(0);
    let consumed = word(1).saturating_sub(word(2));
    let window = &output[0x80..0xa0];
    let untouched = window.iter().all(|b| *b == MARK);
    let looks_empty = flag == U256::from(1u8) && untouched && consumed < U256::from(1000u64);
    let want_active = precompile_active_from(n).map(|s| spec >= s).unwrap_or(false);
    rep.cell("cells", if want_active { "precompile-active" } else { "precompile-inactive" });
    if !want_active {
        if !looks_empty {
            rep.violation(format!("C05/precompile-active-too-early-or-never/{n:#x}"), format!("address {n:#x} in {} must behave as an empty account: flag {flag}, window untouched {untouched}, gas consumed by the call {consumed}", spec_name(spec)), case());
        }
        return;
    }
    if looks_empty {
        rep.violation(format!("C05/precompile-missing/{n:#x}"), format!("address {n:#x} in {} behaves as an empty account", spec_name(spec)), case());
        return;
    }
    // known outputs
    let expect_prefix: Option<Vec<u8>> = match n {
        2 => Some(unhex("e3b0c44298fc1c149afbf4c8996fb92427ae41e4649b934ca495991b7852b855")),
        3 => Some(unhex("0000000000000000000000009c1185a5c5e9fc54612808977ee8f548b2258d31")),
        4 => Some((1..=32u8).collect()),
        5 => Some(vec![3]),
        6 | 7 => Some(vec![0u8; 32]),
        8 => Some({
            let mut v = vec![0u8; 32];
            v[31] = 1;
            v
        }),
        _ => None,
    };
    match expect_prefix {
        Some(p) => {
            if flag != U256::from(1u8) || window[..p.len()] != p[..] {
                rep.violation(format!("C05/precompile-wrong-answer/{n:#x}"), format!("address {n:#x} in {}: flag {flag}, output {}", spec_name(spec), hex(window)), case());
            }
        }
        None => {
            if n == 1 {
                if consumed < U256::from(3000u64) || flag != U256::from(1u8) {
                    rep.violation("C05/precompile-wrong-answer/0x1", format!("ecrecover on an invalid signature: flag {flag}, consumed {consumed}"), case());
                }
            } else if flag != U256::ZERO {
                // empty input is malformed for blake2f / kzg / bls12-381: the call must fail
                rep.violation(format!("C05/precompile-accepted-empty-input/{n:#x}"), format!("address {n:#x} in {}: flag {flag}", spec_name(spec)), case());
            }
        }
    }
}

pub fn run(ctx: &Ctx) -> i32 {
    let mut rep = Report::new();
    if let Some(path) = &ctx.replay {
        let v: Value = serde_json::from_str(&std::fs::read_to_string(path).expect("replay")).expect("json");
        let c = &v["case"];
        let spec = spec_from_name(c["spec"].as_str().unwrap()).unwrap();
        if c["kind"] == "opcode" {
            check_opcode(u8::from_str_radix(c["opcode"].as_str().unwrap().trim_start_matches("0x"), 16).unwrap(), spec, &mut rep);
        } else {
            check_precompile(c["address"].as_u64().unwrap() as u16, spec, &mut rep);
        }
        println!("replayed: {} violation(s)", rep.violations.len());
    } else {
        let specs = ALL_SPECS.to_vec();
        let sr = &specs;
        rep = par_shards(ctx, 16, |si, _rng, rep| {
            for op in 0..=255u16 {
                if op as usize % 16 != si {
                    continue;
                }
                for s in sr {
                    check_opcode(op as u8, *s, rep);
                }
            }
            for n in (1..=0x14u16).chain([0x100]) {
                if n as usize % 16 != si {
                    continue;
                }
                for s in sr {
                    check_precompile(n, *s, rep);
                }
            }
        });
        rep.exhaustive = Some(true);
        rep.sample(json!({"opcode": "0x5f", "spec": "MERGE", "expected": "undefined instruction, halt, gas_used == gas_limit"}));
        rep.sample(json!({"precompile": 9, "spec": "PETERSBURG", "expected": "empty account: flag 1, output window untouched, < 1000 gas"}));
        let want = 256 * specs.len() as u64 + 21 * specs.len() as u64;
        let have = rep.evaluations;
        rep.floor("cells (256 opcodes + 21 addresses) x SpecIds", have, want);
    }
    finish(ctx, rep, Finish {
        level: "exploration",
        rule: "exhaustive: (a) 256 opcode bytes x 20 SpecIds as legacy code `17 x PUSH1; OP; zeros`, observed at the instruction's own step_end: undefined class (OpcodeNotFound | NotActivated | EOFOpcodeDisabledInLegacy | InvalidFEOpcode) iff the hand-written introduction table (Appendix A.1) says so, and then the transaction halts using its whole gas limit; (b) addresses 0x01..0x14 and 0x100 x 20 SpecIds: warm CALL with a per-precompile probe input; empty-account behaviour (flag 1, output window untouched, < 1000 gas) iff the address is not a precompile in that fork; known outputs for 0x02-0x08, gas >= 3000 for ecrecover, failure on empty input for 0x09-0x11. Distinct = every cell.".into(),
        assumptions: vec!["0x100 (P256VERIFY) is an Optimism-only precompile and must be absent in this build".into()],
    })
}
