//! C22 — disabling the beneficiary reward is honoured and survives reconfiguration.
use crate::evmrun::*;
use crate::fw::*;
use crate::interp::*;
use crate::world::*;
use revm::inspectors::NoOpInspector;
use revm::primitives::{SpecId, U256};
use revm::{inspector_handle_register, Context, DatabaseCommit, Evm, EvmContext, Handler};
use serde_json::{json, Value};

#[derive(Clone, Debug, PartialEq)]
enum Reconf {
    ModifySpecId(SpecId),
    BuilderWithSpecId(SpecId),
    AppendNoopRegister,
    PopRegister,
    AppendInspectorRegister,
    ModifyBuild,
}

fn reconf_name(r: &Reconf) -> String {
    match r {
        Reconf::ModifySpecId(s) => format!("modify_spec_id({})", spec_name(*s)),
        Reconf::BuilderWithSpecId(s) => format!("modify().with_spec_id({}).build()", spec_name(*s)),
        Reconf::AppendNoopRegister => "modify().append_handler_register(noop).build()".into(),
        Reconf::PopRegister => "handler.pop_handle_register()".into(),
        Reconf::AppendInspectorRegister => "modify().append_handler_register(inspector_handle_register).build()".into(),
        Reconf::ModifyBuild => "modify().build()".into(),
    }
}

fn reconf_kind(r: &Reconf) -> &'static str {
    match r {
        Reconf::ModifySpecId(_) => "modify_spec_id",
        Reconf::BuilderWithSpecId(_) => "builder-with_spec_id",
        Reconf::AppendNoopRegister => "append-register",
        Reconf::PopRegister => "pop-register",
        Reconf::AppendInspectorRegister => "append-inspector-register",
        Reconf::ModifyBuild => "modify-build",
    }
}

type E<'a> = Evm<'a, NoOpInspector, RefDB>;

fn build(world: &World, spec: SpecId, reward: bool) -> E<'static> {
    let ctx = Context::new(EvmContext::new(RefDB::new(world.clone(), spec)), NoOpInspector);
    Evm::new(ctx, Handler::mainnet_with_spec(spec, reward))
}

fn apply(evm: E<'static>, r: &Reconf) -> E<'static> {
    match r {
        Reconf::ModifySpecId(s) => {
            let mut e = evm;
            e.modify_spec_id(*s);
            e
        }
        Reconf::BuilderWithSpecId(s) => evm.modify().with_spec_id(*s).build(),
        Reconf::AppendNoopRegister => evm.modify().append_handler_register(|_h| {}).build(),
        Reconf::PopRegister => {
            let mut e = evm;
            let _ = e.handler.pop_handle_register();
            e
        }
        Reconf::AppendInspectorRegister => evm.modify().append_handler_register(inspector_handle_register).build(),
        Reconf::ModifyBuild => evm.modify().build(),
    }
}

fn run_tx(evm: &mut E<'static>, block: &BlockSpec, tx: &TxSpec) -> TxOutcome {
    let spec = evm.spec_id();
    evm.context.evm.db.spec = spec;
    fill_env(&mut evm.context.evm.env, spec, block, tx);
    outcome_of(&evm.transact_commit())
}

struct CaseC22 {
    world: World,
    block: BlockSpec,
    spec: SpecId,
    /// (reconfigurations applied before the tx, tx)
    rounds: Vec<(Vec<Reconf>, TxSpec)>,
    cfg_flag: bool,
}

fn case_json(c: &CaseC22) -> Value {
    json!({"world": c.world.to_json(), "block": c.block.to_json(), "spec": spec_name(c.spec), "cfg_flag_variant": c.cfg_flag,
        "rounds": c.rounds.iter().map(|(r, t)| json!({"reconf": r.iter().map(reconf_name).collect::<Vec<_>>(), "tx": t.to_json()})).collect::<Vec<_>>()})
}

fn parse_reconf(s: &str) -> Reconf {
    let inner = |s: &str| s[s.find('(').unwrap() + 1..s.find(')').unwrap()].to_string();
    if s.starts_with("modify_spec_id") {
        Reconf::ModifySpecId(spec_from_name(&inner(s)).unwrap())
    } else if s.starts_with("modify().with_spec_id") {
        Reconf::BuilderWithSpecId(spec_from_name(&inner(&s["modify().".len()..])).unwrap())
    } else if s.contains("inspector_handle_register") {
        Reconf::AppendInspectorRegister
    } else if s.contains("append_handler_register") {
        Reconf::AppendNoopRegister
    } else if s.contains("pop_handle_register") {
        Reconf::PopRegister
    } else {
        Reconf::ModifyBuild
    }
}

fn gen(rng: &mut Rng) -> CaseC22 {
    let spec = random_spec(rng, true);
    // programs must not be able to observe or pay the beneficiary (its balance differs between
    // the twins by design): no fee-party literals, no COINBASE/ORIGIN/CALLER results, no raw bytes
    let mut f = Features::swarm(rng, spec);
    f.fee_parties = false;
    f.env = false;
    f.raw = false;
    let mut case = gen_case_with(rng, spec, 5, &f);
    // and no balance near 2^256-1: a credit that wraps in one twin and not in the other is the
    // overflow recorded under C08
    for a in case.world.accounts.values_mut() {
        if a.balance > (U256::from(1u8) << 200) {
            a.balance = U256::from(1u8) << 120;
        }
    }
    // a non-zero reward: price above base fee, dedicated beneficiary
    case.block.coinbase = COINBASE;
    case.world.accounts.insert(COINBASE, Acct { balance: U256::from(rng.below(1000)), ..Default::default() });
    let mut rounds = vec![];
    let mut cur = spec;
    let mut nregs = 0;
    for mut t in case.txs {
        t.gas_price = U256::from(case.block.basefee + 10 + rng.below(100));
        if let Some(p) = t.priority_fee {
            t.priority_fee = Some(p.max(U256::from(3u8)).min(t.gas_price));
        }
        t.nonce = None;
        let mut rs = vec![];
        for _ in 0..rng.below(4) {
            let r = match rng.below(7) {
                0 | 1 => {
                    cur = random_spec(rng, true);
                    Reconf::ModifySpecId(cur)
                }
                2 => {
                    cur = random_spec(rng, true);
                    Reconf::BuilderWithSpecId(cur)
                }
                3 => {
                    nregs += 1;
                    Reconf::AppendNoopRegister
                }
                4 if nregs > 0 => {
                    nregs -= 1;
                    Reconf::PopRegister
                }
                5 => {
                    nregs += 1;
                    Reconf::AppendInspectorRegister
                }
                _ => Reconf::ModifyBuild,
            };
            rs.push(r);
        }
        // keep the transaction legal for the spec it will run under
        if cur < SpecId::BERLIN {
            t.access_list.clear();
        }
        if cur < SpecId::CANCUN {
            t.blob_hashes.clear();
            t.max_fee_per_blob_gas = None;
        }
        if cur < SpecId::PRAGUE {
            t.auth_list = None;
        }
        rounds.push((rs, t));
    }
    CaseC22 { world: case.world, block: case.block, spec, rounds, cfg_flag: rng.chance(1, 4) }
}

/// One pass over both twins. After every transaction: results equal, every account other than
/// the beneficiary equal, and balance_on(beneficiary) - balance_off(beneficiary) equals the sum of
/// rewards so far, i.e. the disabled twin never received fees.
fn check(c: &CaseC22, rep: &mut Report) -> bool {
    let cj = || case_json(c);
    rep.cell("variants", if c.cfg_flag { "cfg.disable_beneficiary_reward" } else { "handler(with_reward_beneficiary=false)" });
    let r = guarded(|| {
        let mut off = build(&c.world, c.spec, c.cfg_flag);
        let mut on = build(&c.world, c.spec, true);
        let mut expected_gap = U256::ZERO;
        let mut last_reconf = "none";
        let mut executed = 0u32;
        let flag = if c.cfg_flag { "cfg-flag" } else { "handler-flag" };
        for (i, (rs, tx)) in c.rounds.iter().enumerate() {
            for r in rs {
                off = apply(off, r);
                on = apply(on, r);
                last_reconf = reconf_kind(r);
            }
            if c.cfg_flag {
                off.context.evm.env.cfg.disable_beneficiary_reward = true;
            }
            let o_off = run_tx(&mut off, &c.block, tx);
            let o_on = run_tx(&mut on, &c.block, tx);
            if o_off != o_on {
                return (Some((format!("C22/result-differs-between-twins/after-{last_reconf}/{flag}"), format!("round {i}: off {} vs on {}", o_off.to_json(), o_on.to_json()))), executed);
            }
            if let TxOutcome::Executed { gas_used, .. } = &o_off {
                executed += 1;
                let spec = off.spec_id();
                let price = match tx.priority_fee {
                    Some(p) => tx.gas_price.min(U256::from(c.block.basefee) + p),
                    None => tx.gas_price,
                };
                let tip = if spec >= SpecId::LONDON { price.saturating_sub(U256::from(c.block.basefee)) } else { price };
                expected_gap = expected_gap.saturating_add(tip * U256::from(*gas_used));
            }
            let mut w_off = off.context.evm.db.world.clone();
            let mut w_on = on.context.evm.db.world.clone();
            let b_off = w_off.accounts.remove(&COINBASE).map(|a| a.balance).unwrap_or_default();
            let b_on = w_on.accounts.remove(&COINBASE).map(|a| a.balance).unwrap_or_default();
            if let Some(d) = world_diff(&w_off, &w_on) {
                return (Some((format!("C22/other-effects-differ/after-{last_reconf}/{flag}"), format!("round {i}: {d}"))), executed);
            }
            if b_on < b_off || b_on - b_off != expected_gap {
                let got = if b_on >= b_off { b_on - b_off } else { U256::ZERO };
                let dir = if got < expected_gap { "disabled-twin-received-fees" } else { "enabled-twin-overpaid" };
                return (Some((format!("C22/{dir}/after-{last_reconf}/{flag}"), format!("round {i}: beneficiary balance with rewards {b_on}, without {b_off}; the gap {got} should equal the rewards so far {expected_gap}"))), executed);
            }
        }
        (None, executed)
    });
    match r {
        Ok((None, ex)) => ex >= 1,
        Ok((Some((sig, what)), _)) => {
            rep.violation(sig, what, json!({"case": cj()}));
            false
        }
        Err(p) => {
            report_panic(rep, "C22", &p, cj());
            false
        }
    }
}

pub fn run(ctx: &Ctx) -> i32 {
    let mut rep;
    if let Some(path) = &ctx.replay {
        rep = Report::new();
        let v: Value = serde_json::from_str(&std::fs::read_to_string(path).expect("replay")).expect("json");
        let c = &v["case"]["case"];
        let case = CaseC22 {
            world: World::from_json(&c["world"]),
            block: BlockSpec::from_json(&c["block"]),
            spec: spec_from_name(c["spec"].as_str().unwrap()).unwrap(),
            cfg_flag: c["cfg_flag_variant"].as_bool().unwrap(),
            rounds: c["rounds"].as_array().unwrap().iter().map(|r| (r["reconf"].as_array().unwrap().iter().map(|s| parse_reconf(s.as_str().unwrap())).collect(), TxSpec::from_json(&r["tx"]))).collect(),
        };
        check(&case, &mut rep);
        println!("replayed: {} violation(s)", rep.violations.len());
        for v in &rep.violations {
            println!("  {} — {}", v.signature, v.what);
        }
    } else {
        let n = ctx.n(5_000, 600_000);
        let shards = 64;
        rep = par_shards(ctx, shards, |_si, rng, rep| {
            for k in 0..(n / shards as u64).max(1) {
                let c = gen(rng);
                rep.eval();
                for (rs, _) in &c.rounds {
                    for r in rs {
                        rep.cell("reconfigurations", reconf_kind(r));
                    }
                }
                if check(&c, rep) {
                    rep.nontrivial(hash64(case_json(&c).to_string().as_bytes()));
                }
                if rep.samples.len() < 2 && k == 1 {
                    rep.sample(json!({"spec": spec_name(c.spec), "cfg_flag_variant": c.cfg_flag, "rounds": c.rounds.iter().map(|(r, t)| json!({"reconf": r.iter().map(reconf_name).collect::<Vec<_>>(), "to": t.to.map(|a| addr_hex(&a))})).collect::<Vec<_>>()}));
                }
            }
        });
        for k in ["modify_spec_id", "builder-with_spec_id", "append-register", "pop-register", "append-inspector-register", "modify-build"] {
            let have = rep.table_get("reconfigurations", k);
            rep.floor(&format!("reconfiguration {k}"), have, 100);
        }
        for k in ["cfg.disable_beneficiary_reward", "handler(with_reward_beneficiary=false)"] {
            let have = rep.table_get("variants", k);
            rep.floor(&format!("variant {k}"), have, 100);
        }
    }
    finish(ctx, rep, Finish {
        level: "exploration",
        rule: "twin execution of generated transaction sequences (price above base fee, dedicated beneficiary): twin A without beneficiary reward (Handler::mainnet_with_spec(spec, false), or CfgEnv::disable_beneficiary_reward on a default handler), twin B with it; between transactions the same random reconfiguration sequence is applied to both (modify_spec_id, modify().with_spec_id().build(), append no-op register, pop register, append inspector register, modify().build()). After every transaction: results equal, every account other than the beneficiary equal, and balance_B(beneficiary) - balance_A(beneficiary) == sum of (effective price - base fee) x gas_used so far (i.e. twin A never received fees). Non-trivial = >= 1 executed transaction; distinct by case.".into(),
        assumptions: vec!["reset_handler_with_* is excluded (documented to reset)".into(), "the Optimism vault clause is checked in the op lane by C33".into()],
    })
}
