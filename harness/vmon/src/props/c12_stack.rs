//! C12 — the stack is a bounded LIFO of 1024 words. Direct driver against Vec<[u8;32]>.
use crate::fw::*;
use revm_interpreter::{InstructionResult, Stack};
use revm_primitives::{B256, U256};
use serde_json::{json, Value};

type W = [u8; 32];

#[derive(Clone, Debug)]
enum Op {
    Push(W),
    PushB256(W),
    Pop,
    Peek(usize),
    Set(usize, W),
    Dup(usize),
    Swap(usize),
    Exchange(usize, usize),
    PushSlice(Vec<u8>),
}

const OPN: [&str; 9] = ["push", "push_b256", "pop", "peek", "set", "dup", "swap", "exchange", "push_slice"];

fn op_idx(o: &Op) -> usize {
    match o {
        Op::Push(_) => 0,
        Op::PushB256(_) => 1,
        Op::Pop => 2,
        Op::Peek(_) => 3,
        Op::Set(..) => 4,
        Op::Dup(_) => 5,
        Op::Swap(_) => 6,
        Op::Exchange(..) => 7,
        Op::PushSlice(_) => 8,
    }
}

fn op_json(o: &Op) -> Value {
    match o {
        Op::Push(w) => json!({"push": hex(w)}),
        Op::PushB256(w) => json!({"push_b256": hex(w)}),
        Op::Pop => json!("pop"),
        Op::Peek(i) => json!({"peek": i}),
        Op::Set(i, w) => json!({"set": [i, hex(w)]}),
        Op::Dup(n) => json!({"dup": n}),
        Op::Swap(n) => json!({"swap": n}),
        Op::Exchange(n, m) => json!({"exchange": [n, m]}),
        Op::PushSlice(b) => json!({"push_slice_len": b.len(), "head": hex(&b[..b.len().min(40)])}),
    }
}

fn word(rng: &mut Rng) -> W {
    match rng.below(6) {
        0 => [0u8; 32],
        1 => [0xff; 32],
        2 => {
            let mut w = [0u8; 32];
            w[31] = rng.below(256) as u8;
            w
        }
        3 => {
            let mut w = [0u8; 32];
            w[0] = 0x80;
            w
        }
        _ => rng.b32(),
    }
}

/// the definition: slice cut into 32-byte big-endian words from the left; a short last chunk is a
/// big-endian integer in the low-order bytes of its word (zero-extended)
pub fn slice_words(b: &[u8]) -> Vec<W> {
    let mut out = vec![];
    let mut i = 0;
    while i < b.len() {
        let end = (i + 32).min(b.len());
        let chunk = &b[i..end];
        let mut w = [0u8; 32];
        w[32 - chunk.len()..].copy_from_slice(chunk);
        out.push(w);
        i = end;
    }
    out
}

fn idx_choice(rng: &mut Rng, len: usize) -> usize {
    match rng.below(8) {
        0 => 0,
        1 => len,
        2 => len.saturating_sub(1),
        3 => len + 1,
        4 => rng.usize(20),
        5 => 1023,
        6 => 1024,
        _ => rng.usize(len + 2),
    }
}

fn gen_case(rng: &mut Rng) -> (usize, Vec<Op>) {
    let fills = [0usize, 1, 2, 16, 17, 512, 1022, 1023, 1024];
    let fill = if rng.chance(1, 5) { rng.usize(1025) } else { *rng.pick(&fills) };
    let n = rng.range(1, 48) as usize;
    let mut len = fill;
    let mut ops = vec![];
    for _ in 0..n {
        let op = match rng.below(16) {
            0 | 1 => Op::Push(word(rng)),
            2 => Op::PushB256(word(rng)),
            3 | 4 => Op::Pop,
            5 => Op::Peek(idx_choice(rng, len)),
            6 => Op::Set(idx_choice(rng, len), word(rng)),
            7 | 8 => Op::Dup(match rng.below(4) {
                0 => rng.range(1, 16) as usize,
                1 => len.max(1),
                2 => len + 1,
                _ => idx_choice(rng, len).max(1),
            }),
            9 | 10 => Op::Swap(match rng.below(4) {
                0 => rng.range(1, 16) as usize,
                1 => len.saturating_sub(1).max(1),
                2 => len.max(1),
                _ => idx_choice(rng, len).max(1),
            }),
            11 | 12 => {
                let a = match rng.below(3) {
                    0 => rng.usize(17),
                    _ => idx_choice(rng, len),
                };
                let m = match rng.below(3) {
                    0 => rng.range(1, 16) as usize,
                    1 => len.saturating_sub(a).max(1),
                    _ => idx_choice(rng, len).max(1),
                };
                Op::Exchange(a, m)
            }
            _ => {
                let room = 1024usize.saturating_sub(len);
                let l = match rng.below(8) {
                    0 => 0,
                    1 => rng.usize(33),
                    2 => 32 * rng.usize(5),
                    3 => room * 32,
                    4 => room * 32 + 1,
                    5 => (room * 32).saturating_sub(rng.usize(33)),
                    6 => rng.usize(200),
                    _ => rng.usize(32 * 1024 + 64),
                };
                Op::PushSlice(rng.bytes(l))
            }
        };
        // track the expected length for boundary steering only
        match &op {
            Op::Push(_) | Op::PushB256(_) => {
                if len < 1024 {
                    len += 1
                }
            }
            Op::Pop => len = len.saturating_sub(1),
            Op::Dup(k) => {
                if *k <= len && len < 1024 {
                    len += 1
                }
            }
            Op::PushSlice(b) => {
                let w = (b.len() + 31) / 32;
                if len + w <= 1024 {
                    len += w
                }
            }
            _ => {}
        }
        ops.push(op);
    }
    (fill, ops)
}

fn cmp_full(st: &Stack, m: &[W]) -> Option<String> {
    if st.len() != m.len() {
        return Some(format!("len {} model {}", st.len(), m.len()));
    }
    for (i, (a, b)) in st.data().iter().zip(m.iter()).enumerate() {
        if a.to_be_bytes::<32>() != *b {
            return Some(format!("index {i} (from bottom): {} model {}", hex(&a.to_be_bytes::<32>()), hex(b)));
        }
    }
    None
}

fn check_case(fill: usize, fill_seed: u64, ops: &[Op], rep: &mut Report, cnt: &mut [u64; 32], case: &dyn Fn() -> Value) {
    let mut st = Stack::new();
    let mut m: Vec<W> = Vec::new();
    let mut frng = Rng::new(fill_seed);
    for _ in 0..fill {
        let w = frng.b32();
        st.push(U256::from_be_bytes(w)).expect("prefill");
        m.push(w);
    }
    for (i, op) in ops.iter().enumerate() {
        let k = op_idx(op);
        cnt[k] += 1;
        let name = OPN[k];
        let len = m.len();
        // model verdict: Ok / Underflow / Overflow
        let (res, want): (Result<Option<U256>, InstructionResult>, Result<Option<W>, &str>) = match op {
            Op::Push(w) => {
                let r = st.push(U256::from_be_bytes(*w)).map(|_| None);
                let wv = if len == 1024 { Err("overflow") } else { m.push(*w); Ok(None) };
                (r, wv)
            }
            Op::PushB256(w) => {
                let r = st.push_b256(B256::from(*w)).map(|_| None);
                let wv = if len == 1024 { Err("overflow") } else { m.push(*w); Ok(None) };
                (r, wv)
            }
            Op::Pop => {
                let r = st.pop().map(Some);
                let wv = match m.pop() { Some(w) => Ok(Some(w)), None => Err("underflow") };
                (r, wv)
            }
            Op::Peek(j) => {
                let r = st.peek(*j).map(Some);
                let wv = if *j < len { Ok(Some(m[len - 1 - *j])) } else { Err("underflow") };
                (r, wv)
            }
            Op::Set(j, w) => {
                let r = st.set(*j, U256::from_be_bytes(*w)).map(|_| None);
                let wv = if *j < len { m[len - 1 - *j] = *w; Ok(None) } else { Err("underflow") };
                (r, wv)
            }
            Op::Dup(n) => {
                let r = st.dup(*n).map(|_| None);
                let wv = if *n > len { Err("underflow") } else if len + 1 > 1024 { Err("overflow") } else { let w = m[len - *n]; m.push(w); Ok(None) };
                (r, wv)
            }
            Op::Swap(n) => {
                let r = st.swap(*n).map(|_| None);
                let wv = if *n >= len { Err("underflow") } else { m.swap(len - 1, len - 1 - *n); Ok(None) };
                (r, wv)
            }
            Op::Exchange(a, b) => {
                let r = st.exchange(*a, *b).map(|_| None);
                let wv = if a + b >= len { Err("underflow") } else { m.swap(len - 1 - *a, len - 1 - (a + b)); Ok(None) };
                (r, wv)
            }
            Op::PushSlice(bytes) => {
                let r = st.push_slice(bytes).map(|_| None);
                let ws = slice_words(bytes);
                let wv = if len + ws.len() > 1024 { Err("overflow") } else { m.extend(ws); Ok(None) };
                (r, wv)
            }
        };
        let got_class = match &res {
            Ok(_) => "ok",
            Err(InstructionResult::StackUnderflow) => "underflow",
            Err(InstructionResult::StackOverflow) => "overflow",
            Err(_) => "other-error",
        };
        let want_class = match &want { Ok(_) => "ok", Err(e) => e };
        if got_class != want_class {
            rep.violation(format!("C12/{name}/verdict/{got_class}-vs-{want_class}"), format!("op {i} {}: returned {got_class}, model {want_class} (len {len})", op_json(op)), case());
            return;
        }
        if got_class != "ok" {
            cnt[16 + if got_class == "underflow" { 0 } else { 1 }] += 1;
        }
        if let (Ok(Some(v)), Ok(Some(w))) = (&res, &want) {
            if v.to_be_bytes::<32>() != *w {
                rep.violation(format!("C12/{name}/value"), format!("op {i} {}: returned {} model {}", op_json(op), hex(&v.to_be_bytes::<32>()), hex(w)), case());
                return;
            }
        }
        // contents: always after an error (must be unchanged), after multi-word pushes, and on small
        // stacks; otherwise the touched region (top 40 words) and the length
        let full = got_class != "ok" || matches!(op, Op::PushSlice(_)) || m.len() <= 48 || i + 1 == ops.len() || matches!(op, Op::Exchange(..) | Op::Swap(_) | Op::Set(..));
        let diff = if full {
            cmp_full(&st, &m)
        } else if st.len() != m.len() {
            Some(format!("len {} model {}", st.len(), m.len()))
        } else {
            let l = m.len();
            let lo = l.saturating_sub(40);
            let mut d = None;
            for j in lo..l {
                if st.data()[j].to_be_bytes::<32>() != m[j] {
                    d = Some(format!("index {j}"));
                    break;
                }
            }
            d
        };
        if let Some(d) = diff {
            let kind = if got_class != "ok" { "error-changed-stack" } else { "contents" };
            rep.violation(format!("C12/{name}/{kind}"), format!("op {i} {}: {d}", op_json(op)), case());
            return;
        }
    }
}

fn one(case_seed: u64, rep: &mut Report, cnt: &mut [u64; 32]) {
    let mut rng = Rng::new(case_seed);
    let (fill, ops) = gen_case(&mut rng);
    let fill_seed = case_seed ^ 0x5555;
    rep.eval();
    rep.nontrivial(case_seed); // every generated case has >= 1 op on a boundary-steered stack; distinct by generator seed
    let case = || json!({"kind": "ops", "case_seed": case_seed, "prefill": fill, "ops": ops.iter().map(op_json).collect::<Vec<_>>()});
    if rep.samples.len() < 3 {
        rep.sample(case());
    }
    let r = guarded(|| {
        let mut local = Report::new();
        check_case(fill, fill_seed, &ops, &mut local, cnt, &case);
        local
    });
    match r {
        Ok(l) => {
            if !l.violations.is_empty() {
                rep.merge_light(l)
            }
        }
        Err(p) => report_panic(rep, "C12", &p, case()),
    }
}

/// exhaustive push_slice sweep: every length in `lens` at each fill level
fn slice_case(len: usize, fill: usize, rep: &mut Report) {
    rep.eval();
    let case = || json!({"kind": "push_slice", "len": len, "fill": fill});
    let r = guarded(|| {
        let mut st = Stack::new();
        let mut m: Vec<W> = vec![];
        for j in 0..fill {
            let mut w = [0xa5u8; 32];
            w[31] = j as u8;
            w[30] = (j >> 8) as u8;
            st.push(U256::from_be_bytes(w)).unwrap();
            m.push(w);
        }
        let bytes: Vec<u8> = (0..len).map(|i| ((i * 131 + 17) % 251 + 1) as u8).collect();
        let res = st.push_slice(&bytes);
        let ws = slice_words(&bytes);
        let want_ok = fill + ws.len() <= 1024;
        if want_ok {
            m.extend(ws);
        }
        let got = match res { Ok(()) => "ok", Err(InstructionResult::StackOverflow) => "overflow", Err(_) => "other" };
        if (got == "ok") != want_ok || (got != "ok" && got != "overflow") {
            return Some(("verdict".to_string(), format!("push_slice(len {len}) at fill {fill}: {got}, model ok={want_ok}")));
        }
        cmp_full(&st, &m).map(|d| (if want_ok { "contents".to_string() } else { "error-changed-stack".to_string() }, format!("push_slice(len {len}) at fill {fill}: {d}")))
    });
    match r {
        Ok(None) => {}
        Ok(Some((k, w))) => rep.violation(format!("C12/push_slice/{k}"), w, case()),
        Err(p) => report_panic(rep, "C12", &p, case()),
    }
    if len > 0 {
        rep.nontrivial(hash64(format!("ps{len}/{fill}").as_bytes()));
    }
}


/// the stack *instructions* (instructions/stack.rs) on a bare interpreter: a prefix of PUSH32s,
/// one instruction under test, STOP; legacy code for PUSHn/POP/DUPn/SWAPn, an EOF code section
/// for DUPN/SWAPN/EXCHANGE. The Vec model decides result and final stack.
fn instr_case(rng: &mut Rng, rep: &mut Report) {
    use revm::interpreter::{Contract, DummyHost, InstructionResult, Interpreter, InterpreterAction, SharedMemory};
    use revm::primitives::{eof::{EofBody, TypesSection}, Address, Bytecode, Bytes, Env, SpecId, U256};
    let depth = if cfg!(miri) { rng.usize(20) } else { match rng.below(8) {
        0 => 0,
        1 => 1,
        2 => 2,
        3 => 16 + rng.usize(3),
        4 => 1022 + rng.usize(3),
        5 => 255 + rng.usize(4),
        _ => rng.usize(40),
    } };
    let mut model: Vec<W> = vec![];
    let mut code: Vec<u8> = vec![];
    for _ in 0..depth {
        let w = word(rng);
        code.push(0x7f);
        code.extend_from_slice(&w);
        model.push(w);
    }
    let eof = rng.chance(1, 2);
    // (name, opcode bytes, model effect)
    let imm = rng.below(256) as u8;
    let (name, bytes): (&str, Vec<u8>) = if eof {
        match rng.below(3) {
            0 => ("DUPN", vec![0xe6, imm]),
            1 => ("SWAPN", vec![0xe7, imm]),
            _ => ("EXCHANGE", vec![0xe8, imm]),
        }
    } else {
        match rng.below(4) {
            0 => {
                let n = rng.below(33) as u8;
                let mut b = vec![0x5f + n];
                b.extend(rng.bytes(n as usize));
                ("PUSHn", b)
            }
            1 => ("POP", vec![0x50]),
            2 => ("DUPn", vec![0x80 + rng.below(16) as u8]),
            _ => ("SWAPn", vec![0x90 + rng.below(16) as u8]),
        }
    };
    code.extend_from_slice(&bytes);
    code.push(0x00);
    // model
    let len = model.len();
    let before = model.clone();
    let want: Result<(), &str> = match name {
        "PUSHn" => {
            if len == 1024 { Err("StackOverflow") } else {
                let mut w = [0u8; 32];
                let n = bytes.len() - 1;
                w[32 - n..].copy_from_slice(&bytes[1..]);
                model.push(w);
                Ok(())
            }
        }
        "POP" => if len == 0 { Err("StackUnderflow") } else { model.pop(); Ok(()) },
        "DUPn" | "DUPN" => {
            let n = if name == "DUPn" { (bytes[0] - 0x80) as usize + 1 } else { imm as usize + 1 };
            if len < n { Err("StackUnderflow") } else if len == 1024 { Err("StackOverflow") } else { let w = model[len - n]; model.push(w); Ok(()) }
        }
        "SWAPn" | "SWAPN" => {
            let n = if name == "SWAPn" { (bytes[0] - 0x90) as usize + 1 } else { imm as usize + 1 };
            if len < n + 1 { Err("StackUnderflow") } else { model.swap(len - 1, len - 1 - n); Ok(()) }
        }
        _ => {
            let n = (imm >> 4) as usize + 1;
            let m = (imm & 0x0f) as usize + 1;
            if len < n + m + 1 { Err("StackUnderflow") } else { model.swap(len - 1 - n, len - 1 - n - m); Ok(()) }
        }
    };
    rep.eval();
    rep.cell("instruction_cases", name);
    let case = || json!({"kind": "instruction", "instruction": name, "opcode_bytes": hex(&bytes), "depth": depth, "eof": eof});
    let bytecode = if eof {
        let body = EofBody { types_section: vec![TypesSection::new(0, 0x80, 1023)], code_section: vec![Bytes::from(code.clone())], container_section: vec![], data_section: Bytes::new(), is_data_filled: true };
        Bytecode::Eof(std::sync::Arc::new(body.into_eof()))
    } else {
        Bytecode::new_legacy(Bytes::from(code.clone()))
    };
    let r = guarded(|| {
        let spec = if eof { SpecId::OSAKA } else { SpecId::CANCUN };
        let table = crate::interp::table_for(spec);
        let mut host = DummyHost::new(Env::default());
        let contract = Contract::new(Bytes::new(), bytecode, None, Address::ZERO, None, Address::ZERO, U256::ZERO);
        let mut interp = Interpreter::new(contract, 10_000_000, false);
        let mut mem = SharedMemory::new();
        mem.new_context();
        let act = interp.run(mem, &table, &mut host);
        let res = match act {
            InterpreterAction::Return { result } => result.result,
            _ => InstructionResult::FatalExternalError,
        };
        let data: Vec<W> = interp.stack.data().iter().map(|u| u.to_be_bytes::<32>()).collect();
        (res, data)
    });
    let (res, data) = match r {
        Ok(x) => x,
        Err(p) => {
            report_panic(rep, "C12", &p, case());
            return;
        }
    };
    rep.nontrivial(hash64(&code));
    match want {
        Ok(()) => {
            if res != InstructionResult::Stop {
                rep.violation(format!("C12/instruction/{name}/unexpected-result"), format!("{name} {} at depth {depth} ended {res:?}, the model succeeds", hex(&bytes)), case());
            } else if data != model {
                let i = data.iter().zip(model.iter()).position(|(a, b)| a != b).unwrap_or(data.len().min(model.len()));
                rep.violation(format!("C12/instruction/{name}/contents"), format!("{name} {} at depth {depth}: stack differs from the model at index {i} (lengths {} vs {})", hex(&bytes), data.len(), model.len()), case());
            }
        }
        Err(e) => {
            rep.count(&format!("instruction_errors/{e}"));
            if format!("{res:?}") != e {
                rep.violation(format!("C12/instruction/{name}/error-not-reported"), format!("{name} {} at depth {depth} ended {res:?}, the model reports {e}", hex(&bytes)), case());
            } else if data != before {
                rep.violation(format!("C12/instruction/{name}/error-changed-stack"), format!("{name} {} at depth {depth}: stack changed although {e} was reported", hex(&bytes)), case());
            }
        }
    }
}

pub fn run(ctx: &Ctx) -> i32 {
    let mut rep;
    let miri = ctx.lane == "miri";
    if let Some(path) = &ctx.replay {
        let v: Value = serde_json::from_str(&std::fs::read_to_string(path).expect("replay file")).expect("json");
        rep = Report::new();
        let c = &v["case"];
        if c["kind"] == "push_slice" {
            slice_case(c["len"].as_u64().unwrap() as usize, c["fill"].as_u64().unwrap() as usize, &mut rep);
        } else {
            let mut cnt = [0u64; 32];
            one(c["case_seed"].as_u64().expect("case_seed"), &mut rep, &mut cnt);
        }
        println!("replayed: {} violation(s)", rep.violations.len());
    } else {
        let total = if miri { ctx.n(40, 200) } else { ctx.n(400_000, 20_000_000) };
        let shards = if miri { 1 } else { 64usize };
        let per = total / shards as u64;
        rep = par_shards(ctx, shards, |_i, rng, rep| {
            let mut cnt = [0u64; 32];
            for _ in 0..per {
                let cs = rng.next();
                one(cs, rep, &mut cnt);
            }
            for (i, n) in OPN.iter().enumerate() {
                rep.cell_add("ops", n, cnt[i]);
            }
            rep.add("underflow_errors", cnt[16]);
            rep.add("overflow_errors", cnt[17]);
        });
        // push_slice sweep
        let lens: Vec<usize> = if miri {
            (0..=36).chain(32_767..=32_769).collect()
        } else if ctx.quick() {
            (0..=2200).chain((2201..=32_832).step_by(7)).chain(32_700..=32_832).collect()
        } else {
            (0..=32_832).collect()
        };
        let exhaustive = !ctx.quick() && !miri;
        let fills: Vec<usize> = if miri { vec![0] } else { vec![0, 1, 512, 1023] };
        let mut jobs: Vec<(usize, usize)> = vec![];
        for &l in &lens {
            for &f in &fills {
                // the fill level "1023-k": leave exactly room for the slice, minus one word every other time
                jobs.push((l, f));
            }
            let w = (l + 31) / 32;
            if w <= 1024 {
                jobs.push((l, 1024 - w));
                if w >= 1 {
                    jobs.push((l, 1024 - w + 1));
                }
            }
        }
        let nshard = if miri { 1 } else { 32 };
        let jobs_ref = &jobs;
        let r2 = par_shards(ctx, nshard, |i, _rng, rep| {
            for (j, (l, f)) in jobs_ref.iter().enumerate() {
                if j % nshard == i {
                    slice_case(*l, *f, rep);
                    rep.count("push_slice_sweep_cases");
                }
            }
        });
        rep.merge(r2);
        // the stack instructions on a bare interpreter
        let n_instr = if miri { ctx.n(12, 60) } else { ctx.n(40_000, 2_000_000) };
        let r3 = par_shards(ctx, nshard, |_i, rng, rep| {
            for _ in 0..(n_instr / nshard as u64).max(1) {
                instr_case(rng, rep);
            }
        });
        rep.merge(r3);
        rep.extra.insert("push_slice_lengths_swept".into(), json!(lens.len()));
        rep.extra.insert("push_slice_sweep_exhaustive_0_to_32832".into(), json!(exhaustive));
        if !miri {
            for op in OPN {
                let have = rep.table_get("ops", op);
                rep.floor(&format!("op {op}"), have, 1000);
            }
            let (u, o) = (rep.counter("underflow_errors"), rep.counter("overflow_errors"));
            rep.floor("underflow errors", u, 1000);
            rep.floor("overflow errors", o, 1000);
        }
    }
    finish(ctx, rep, Finish {
        level: "exploration",
        rule: "random op sequences (1..48 ops: push, push_b256, pop, peek, set, dup n>=1, swap n>=1, exchange(n, m>=1), push_slice) on revm_interpreter::Stack prefilled to a boundary level {0,1,2,16,17,512,1022,1023,1024,random}, against Vec<[u8;32]>; contents compared after every op (full compare after errors/multi-word pushes/swaps/sets/small stacks, top-40 window otherwise); plus a push_slice sweep over lengths x fill levels (exhaustive 0..=32832 in the thorough tier). Expected words for push_slice: 32-byte big-endian chunks from the left, short last chunk zero-extended (PUSHn semantics; DESIGN C12 explains the reading). Plus the stack instructions (PUSH0..32, POP, DUP1..16, SWAP1..16 in legacy code; DUPN, SWAPN, EXCHANGE with every immediate in an EOF code section) executed on a bare interpreter after a prefix of 0..1024 PUSH32s: result (Stop / StackUnderflow / StackOverflow) and the final stack against the same model. Non-trivial = every op-sequence case (distinct by generator seed) and every sweep case with len>0.".into(),
        assumptions: vec!["dup(0)/exchange(_,0) are documented caller errors and are not generated".into()],
    })
}
