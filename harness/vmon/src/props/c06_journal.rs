//! C06 (A) — direct histories on JournaledState with a snapshot stack as the oracle.
use crate::evmrun::*;
use crate::fw::*;
use crate::interp::*;
use crate::mon::{diff_after_revert, project, Proj};
use crate::world::*;
use revm::primitives::{Address, Bytecode, Bytes, HashSet, Log, LogData, SpecId, B256, U256};
use revm::{JournalCheckpoint, JournaledState};
use serde_json::{json, Value};

#[derive(Clone, Debug)]
enum Op {
    Load(Address),
    LoadCode(Address),
    Checkpoint,
    Commit,
    Revert,
    /// checkpoint; transfer; on failure revert that checkpoint (the call-frame discipline)
    CallTransfer(Address, Address, U256),
    IncNonce(Address),
    SetCode(Address, Vec<u8>),
    Sstore(Address, U256, U256),
    Sload(Address, U256),
    Tstore(Address, U256, U256),
    Log(Address),
    SelfDestruct(Address, Address),
    /// inc_nonce(caller); load(target); create_account_checkpoint(caller, target, false, value)
    Create(Address, Address, U256),
    Touch(Address),
}

fn op_json(o: &Op) -> Value {
    json!(format!("{:?}", o))
}

fn addrs() -> Vec<Address> {
    vec![C1, C2, C3, SENDER1, EMPTY_EXISTING, NONEXISTENT, RICH, addr(0x77), addr(0x78), precompile(3), precompile(1)]
}

fn gen_ops(rng: &mut Rng) -> Vec<Op> {
    let a = addrs();
    let n = rng.range(4, 60) as usize;
    let mut ops = vec![];
    let mut depth = 0usize;
    for _ in 0..n {
        let x = *rng.pick(&a);
        let y = if rng.chance(1, 6) { x } else { *rng.pick(&a) };
        let op = match rng.below(22) {
            0 | 1 => Op::Load(x),
            2 => Op::LoadCode(x),
            3 | 4 | 5 if depth < 12 => {
                depth += 1;
                Op::Checkpoint
            }
            6 if depth > 0 => {
                depth -= 1;
                Op::Commit
            }
            7 | 8 if depth > 0 => {
                depth -= 1;
                Op::Revert
            }
            9 | 10 => Op::CallTransfer(x, y, match rng.below(5) {
                0 => U256::ZERO,
                1 => U256::from(1u8),
                2 => U256::from(rng.below(1000)),
                3 => U256::MAX,
                _ => U256::from(10u8),
            }),
            11 => Op::IncNonce(x),
            12 => Op::SetCode(x, rng.bytes_below(6)),
            13 | 14 => Op::Sstore(x, U256::from(rng.below(3)), U256::from(rng.below(3))),
            15 => Op::Sload(x, U256::from(rng.below(4))),
            16 => Op::Tstore(x, U256::from(rng.below(2)), U256::from(rng.below(3))),
            17 => Op::Log(x),
            18 => Op::SelfDestruct(x, y),
            19 if depth < 12 => {
                depth += 1;
                Op::Create(x, *rng.pick(&[addr(0x77), addr(0x78), NONEXISTENT, C3, EMPTY_EXISTING]), U256::from(rng.below(3)))
            }
            20 => Op::Touch(x),
            _ => Op::Load(y),
        };
        ops.push(op);
    }
    ops
}

fn world0(rng: &mut Rng) -> World {
    let mut w = World::default();
    let big = |rng: &mut Rng| match rng.below(4) {
        0 => U256::MAX,
        1 => U256::MAX - U256::from(rng.below(20)),
        2 => U256::from(1u8) << 255,
        _ => U256::from(rng.below(10_000)),
    };
    w.accounts.insert(C1, Acct { balance: big(rng), nonce: 1, code: vec![0x00], storage: [(U256::from(1u8), U256::from(5u8))].into_iter().collect() });
    w.accounts.insert(C2, Acct { balance: big(rng), nonce: if rng.chance(1, 5) { u64::MAX } else { 2 }, code: vec![0x60, 0x00], storage: Default::default() });
    w.accounts.insert(C3, Acct { balance: U256::from(100u8), nonce: 0, code: vec![], storage: Default::default() });
    w.accounts.insert(SENDER1, Acct { balance: big(rng), nonce: 7, ..Default::default() });
    w.accounts.insert(EMPTY_EXISTING, Acct::default());
    w.accounts.insert(RICH, Acct { balance: U256::MAX, nonce: 1, ..Default::default() });
    w
}

struct Frame {
    cp: JournalCheckpoint,
    snap: Proj,
    /// creator whose nonce bump precedes this checkpoint (kept on revert)
    nonce_bumped: Option<Address>,
}

fn run_ops(world: &World, spec: SpecId, ops: &[Op], rep: &mut Report, case: &dyn Fn() -> Value, kinds: &mut std::collections::BTreeSet<String>) {
    let mut db = RefDB::new(world.clone(), spec);
    let mut pre: HashSet<Address> = HashSet::default();
    pre.insert(precompile(1));
    pre.insert(precompile(3));
    let prewarm: Vec<Address> = pre.iter().copied().collect();
    let mut js = JournaledState::new(spec, pre);
    let mut stack: Vec<Frame> = vec![];
    let spurious = spec >= SpecId::SPURIOUS_DRAGON;
    let loaded = |js: &JournaledState, a: &Address| js.state.contains_key(a);
    for (i, op) in ops.iter().enumerate() {
        match op {
            Op::Load(a) => {
                let _ = js.load_account(*a, &mut db);
            }
            Op::LoadCode(a) => {
                let _ = js.load_code(*a, &mut db);
            }
            Op::Checkpoint => {
                let snap = project(&js);
                let cp = js.checkpoint();
                stack.push(Frame { cp, snap, nonce_bumped: None });
            }
            Op::Commit => {
                if let Some(f) = stack.pop() {
                    let before = project(&js);
                    js.checkpoint_commit();
                    let after = project(&js);
                    let mut b2 = before.clone();
                    b2.depth -= 1;
                    if b2 != after {
                        rep.violation("C06/commit-changed-state", format!("op {i}: checkpoint_commit changed the observable state"), case());
                        return;
                    }
                    let _ = f;
                    rep.count("commits");
                }
            }
            Op::Revert => {
                if let Some(f) = stack.pop() {
                    js.checkpoint_revert(f.cp);
                    let after = project(&js);
                    rep.count("reverts");
                    if let Some((k, d)) = diff_after_revert(&f.snap, &after, &prewarm, f.nonce_bumped, true, spurious, true) {
                        rep.violation(format!("C06/api-revert/{k}"), format!("op {i}: state after checkpoint_revert differs from the state at the checkpoint: {d}"), case());
                        return;
                    }
                }
            }
            Op::CallTransfer(from, to, v) => {
                let snap = project(&js);
                let cp = js.checkpoint();
                match js.transfer(from, to, *v, &mut db) {
                    Ok(None) => {
                        stack.push(Frame { cp, snap, nonce_bumped: None });
                        kinds.insert("transfer-ok".into());
                        if stack.len() > 14 {
                            // keep nesting bounded: commit immediately
                            stack.pop();
                            js.checkpoint_commit();
                        }
                    }
                    Ok(Some(res)) => {
                        js.checkpoint_revert(cp);
                        kinds.insert(format!("transfer-failed-{:?}", res));
                        let after = project(&js);
                        if let Some((k, d)) = diff_after_revert(&snap, &after, &prewarm, None, true, spurious, true) {
                            rep.violation(format!("C06/api-revert-after-failed-transfer/{k}/{:?}", res), format!("op {i}: transfer({}, {}, {v}) failed with {:?}; after the revert: {d}", addr_hex(from), addr_hex(to), res), case());
                            return;
                        }
                    }
                    Err(_) => return,
                }
            }
            Op::IncNonce(a) => {
                if loaded(&js, a) {
                    let _ = js.inc_nonce(*a);
                }
            }
            Op::SetCode(a, code) => {
                // discipline: code is only set on an account that has none (creation)
                if loaded(&js, a) && js.state[a].info.code_hash == revm::primitives::KECCAK_EMPTY && !code.is_empty() {
                    js.set_code(*a, Bytecode::new_legacy(Bytes::copy_from_slice(code)));
                }
            }
            Op::Sstore(a, k, v) => {
                // legal use: only code (or an account being created) writes its own storage
                if loaded(&js, a) && (js.state[a].is_created() || js.state[a].info.code_hash != revm::primitives::KECCAK_EMPTY) {
                    let _ = js.sstore(*a, *k, *v, &mut db);
                }
            }
            Op::Sload(a, k) => {
                if loaded(&js, a) && (js.state[a].is_created() || js.state[a].info.code_hash != revm::primitives::KECCAK_EMPTY) {
                    let _ = js.sload(*a, *k, &mut db);
                }
            }
            Op::Tstore(a, k, v) => js.tstore(*a, *k, *v),
            Op::Log(a) => js.log(Log { address: *a, data: LogData::new_unchecked(vec![B256::ZERO], Bytes::from_static(b"x")) }),
            Op::SelfDestruct(a, t) => {
                if loaded(&js, a) {
                    // balances near 2^256: the unchecked add inside selfdestruct is a separate known
                    // finding (C08); keep this driver inside the representable range
                    let ab = js.state[a].info.balance;
                    let tb = js.state.get(t).map(|x| x.info.balance).or_else(|| db.world.accounts.get(t).map(|x| x.balance)).unwrap_or_default();
                    if a == t || ab.checked_add(tb).is_some() {
                        let _ = js.selfdestruct(*a, *t, &mut db);
                    }
                }
            }
            Op::Create(caller, target, v) => {
                if !loaded(&js, caller) {
                    let _ = js.load_account(*caller, &mut db);
                }
                if js.state[caller].info.balance < *v {
                    continue;
                }
                if js.inc_nonce(*caller).is_none() {
                    continue;
                }
                let _ = js.load_account(*target, &mut db);
                // an address is created at most once per transaction (the creator's nonce moves on;
                // CREATE2 onto a created account collides on its nonce from Spurious Dragon)
                if js.state[target].is_created() {
                    continue;
                }
                let snap = project(&js);
                let depth_before = js.depth;
                match js.create_account_checkpoint(*caller, *target, false, *v, spec) {
                    Ok(cp) => {
                        stack.push(Frame { cp, snap, nonce_bumped: None });
                        kinds.insert("create-ok".into());
                    }
                    Err(e) => {
                        kinds.insert(format!("create-failed-{:?}", e));
                        let after = project(&js);
                        if js.depth != depth_before {
                            rep.violation("C06/api-failed-create-leaks-depth", format!("op {i}: create_account_checkpoint failed with {:?}, depth {} -> {}", e, depth_before, js.depth), case());
                            return;
                        }
                        if let Some((k, d)) = diff_after_revert(&snap, &after, &prewarm, None, true, spurious, true) {
                            rep.violation(format!("C06/api-failed-create-changed-state/{k}"), format!("op {i}: failed create ({:?}): {d}", e), case());
                            return;
                        }
                    }
                }
            }
            Op::Touch(a) => js.touch(a),
        }
        // journal entry kinds seen (coverage)
        for v in js.journal.iter() {
            for e in v {
                let s = format!("{:?}", e);
                kinds.insert(format!("journal/{}", s.split([' ', '{']).next().unwrap_or("?")));
            }
        }
    }
}

pub fn one(case_seed: u64, rep: &mut Report, kinds: &mut std::collections::BTreeSet<String>) {
    let mut rng = Rng::new(case_seed);
    let spec = *rng.pick(&[SpecId::FRONTIER, SpecId::TANGERINE, SpecId::SPURIOUS_DRAGON, SpecId::BERLIN, SpecId::SHANGHAI, SpecId::CANCUN, SpecId::PRAGUE]);
    let world = world0(&mut rng);
    let ops = gen_ops(&mut rng);
    rep.eval();
    rep.nontrivial(case_seed);
    let case = || json!({"kind": "api", "case_seed": case_seed, "spec": spec_name(spec), "world": world.to_json(), "ops": ops.iter().map(op_json).collect::<Vec<_>>()});
    if rep.samples.len() < 1 {
        rep.sample(case());
    }
    let r = guarded(|| {
        let mut local = Report::new();
        run_ops(&world, spec, &ops, &mut local, &case, kinds);
        local
    });
    match r {
        Ok(l) => {
            if !l.violations.is_empty() || !l.counters.is_empty() {
                rep.merge_light(l)
            }
        }
        Err(p) => report_panic(rep, "C06", &p, case()),
    }
}

pub fn run_direct(ctx: &Ctx) -> Report {
    let n = ctx.n(60_000, 8_000_000);
    let shards = 64;
    let mut rep = par_shards(ctx, shards, |_si, rng, rep| {
        let mut kinds = std::collections::BTreeSet::new();
        for _ in 0..(n / shards as u64).max(1) {
            one(rng.next(), rep, &mut kinds);
        }
        for k in kinds {
            rep.set("api_coverage", &k);
        }
    });
    let seen = rep.sets.get("api_coverage").cloned().unwrap_or_default();
    for k in ["journal/AccountWarmed", "journal/AccountDestroyed", "journal/AccountTouched", "journal/BalanceTransfer", "journal/NonceChange", "journal/AccountCreated", "journal/StorageChanged", "journal/StorageWarmed", "journal/TransientStorageChange", "journal/CodeChange", "transfer-failed-OverflowPayment", "transfer-failed-OutOfFunds", "create-failed-CreateCollision"] {
        if !seen.contains(k) {
            rep.inconclusive(format!("coverage floor not reached: {k} never observed in the direct C06 histories"));
        }
    }
    rep
}
