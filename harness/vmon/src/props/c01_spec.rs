//! C01 — transactions execute as the specification says.
//! (a) S8: the shipped EEST state fixtures (outputs of the real specification) replayed through
//!     the real Evm and compared on the full post-state; the reference EVM is validated on them;
//! (b) S1: reference EVM vs the real Evm on the generated workload W.
use crate::evmrun::*;
use crate::fw::*;
use crate::interp::*;
use crate::refevm::*;
use crate::world::*;
use revm::primitives::{Address, SpecId, B256, U256};
use serde_json::{json, Value};
use std::collections::BTreeMap;

pub const FIXTURE_ROOT: &str = "/repo/tests";

/// fixture files that encode superseded devnet-5 EXTCODE* semantics for EIP-7702 (DESIGN S1)
const EXCLUDED: [&str; 4] = [
    "eip7702_set_code_tx/set_code_txs/ext_code_on_self_set_code.json",
    "eip7702_set_code_tx/set_code_txs/ext_code_on_set_code.json",
    "eip7702_set_code_tx/set_code_txs/ext_code_on_chain_delegating_set_code.json",
    "eip7702_set_code_tx/set_code_txs/ext_code_on_self_delegating_set_code.json",
];

fn hx(v: &Value) -> U256 {
    parse_u256(v.as_str().unwrap_or("0x0"))
}
fn hu(v: &Value) -> u64 {
    let x = hx(v);
    if x > U256::from(u64::MAX) { u64::MAX } else { x.as_limbs()[0] }
}

fn fork_spec(name: &str) -> Option<SpecId> {
    Some(match name {
        "Frontier" => SpecId::FRONTIER,
        "Homestead" => SpecId::HOMESTEAD,
        "EIP150" => SpecId::TANGERINE,
        "EIP158" => SpecId::SPURIOUS_DRAGON,
        "Byzantium" => SpecId::BYZANTIUM,
        "Constantinople" => SpecId::CONSTANTINOPLE,
        "ConstantinopleFix" => SpecId::PETERSBURG,
        "Istanbul" => SpecId::ISTANBUL,
        "Berlin" => SpecId::BERLIN,
        "London" => SpecId::LONDON,
        "Paris" | "Merge" => SpecId::MERGE,
        "Shanghai" => SpecId::SHANGHAI,
        "Cancun" => SpecId::CANCUN,
        "Prague" => SpecId::PRAGUE,
        "Osaka" => SpecId::OSAKA,
        _ => return None,
    })
}

fn parse_accounts(v: &Value) -> BTreeMap<Address, Acct> {
    let mut m = BTreeMap::new();
    for (a, acc) in v.as_object().unwrap() {
        let mut st = BTreeMap::new();
        if let Some(s) = acc["storage"].as_object() {
            for (k, x) in s {
                let val = hx(x);
                if !val.is_zero() {
                    st.insert(parse_u256(k), val);
                }
            }
        }
        m.insert(parse_addr(a), Acct { balance: hx(&acc["balance"]), nonce: hu(&acc["nonce"]), code: unhex(acc["code"].as_str().unwrap_or("0x")), storage: st });
    }
    m
}

pub struct FixCase {
    pub file: String,
    pub name: String,
    pub fork: String,
    pub case: Case,
    pub post: Option<BTreeMap<Address, Acct>>,
    pub expect_exception: bool,
    pub idx: (usize, usize, usize),
}

pub fn load_fixture_file(path: &str) -> Vec<FixCase> {
    let mut out = vec![];
    let Ok(s) = std::fs::read_to_string(path) else { return out };
    if s.trim().is_empty() {
        return out;
    }
    let Ok(d) = serde_json::from_str::<Value>(&s) else { return out };
    let Some(obj) = d.as_object() else { return out };
    for (name, t) in obj {
        if t.get("post").is_none() || t.get("transaction").is_none() {
            continue;
        }
        let env = &t["env"];
        let pre = parse_accounts(&t["pre"]);
        let txj = &t["transaction"];
        for (fork, posts) in t["post"].as_object().unwrap() {
            let Some(spec) = fork_spec(fork) else { continue };
            for p in posts.as_array().unwrap() {
                let (di, gi, vi) = (p["indexes"]["data"].as_u64().unwrap() as usize, p["indexes"]["gas"].as_u64().unwrap() as usize, p["indexes"]["value"].as_u64().unwrap() as usize);
                let mut block = BlockSpec::default();
                block.coinbase = parse_addr(env["currentCoinbase"].as_str().unwrap());
                block.gas_limit = hu(&env["currentGasLimit"]);
                block.number = hu(&env["currentNumber"]);
                block.timestamp = hu(&env["currentTimestamp"]);
                block.difficulty = env.get("currentDifficulty").map(hx).unwrap_or_default();
                block.prevrandao = env.get("currentRandom").and_then(|x| x.as_str()).map(|s| B256::from(parse_u256(s))).unwrap_or_default();
                block.basefee = env.get("currentBaseFee").map(hu).unwrap_or(0);
                block.excess_blob_gas = env.get("currentExcessBlobGas").map(hu).unwrap_or(0);
                let mut tx = TxSpec::default();
                tx.caller = parse_addr(txj["sender"].as_str().unwrap());
                let to = txj["to"].as_str().unwrap_or("");
                tx.to = if to.is_empty() || to == "0x" { None } else { Some(parse_addr(to)) };
                tx.data = unhex(txj["data"][di].as_str().unwrap());
                tx.gas_limit = hu(&txj["gasLimit"][gi]);
                tx.value = match txj["value"][vi].as_str() {
                    Some(s) => U256::from_str_radix(s.trim_start_matches("0x"), 16).unwrap_or(U256::MAX),
                    None => U256::ZERO,
                };
                tx.nonce = Some(hu(&txj["nonce"]));
                if let Some(gp) = txj.get("gasPrice") {
                    tx.gas_price = hx(gp);
                    tx.priority_fee = None;
                } else {
                    tx.gas_price = hx(&txj["maxFeePerGas"]);
                    tx.priority_fee = Some(hx(&txj["maxPriorityFeePerGas"]));
                }
                tx.chain_id = Some(1);
                tx.access_list = vec![];
                if let Some(al) = txj.get("accessLists").and_then(|a| a.get(di)).and_then(|a| a.as_array()) {
                    for e in al {
                        tx.access_list.push((parse_addr(e["address"].as_str().unwrap()), e["storageKeys"].as_array().unwrap().iter().map(|k| parse_u256(k.as_str().unwrap())).collect()));
                    }
                }
                if let Some(bh) = txj.get("blobVersionedHashes").and_then(|b| b.as_array()) {
                    tx.blob_hashes = bh.iter().map(|h| B256::from(parse_u256(h.as_str().unwrap()))).collect();
                }
                if let Some(m) = txj.get("maxFeePerBlobGas") {
                    tx.max_fee_per_blob_gas = Some(hx(m));
                }
                if let Some(al) = txj.get("authorizationList").and_then(|a| a.as_array()) {
                    tx.auth_list = Some(
                        al.iter()
                            .map(|a| {
                                // the authority is what the signature recovers to (alloy's k256 recovery, the same
                                // trusted base revme uses); the fixture's `signer` is only the intended signer
                                let auth = revm::primitives::Authorization { chain_id: hx(&a["chainId"]), address: parse_addr(a["address"].as_str().unwrap()), nonce: hu(&a["nonce"]) };
                                let v = a.get("v").or_else(|| a.get("yParity")).map(hx).unwrap_or_default();
                                let v8 = if v > U256::from(255u64) { 255u8 } else { v.as_limbs()[0] as u8 };
                                let signed = revm::primitives::SignedAuthorization::new_unchecked(auth, v8, hx(&a["r"]), hx(&a["s"]));
                                let authority = signed.recover_authority().ok();
                                AuthSpec { chain_id: hu(&a["chainId"]), address: parse_addr(a["address"].as_str().unwrap()), nonce: hu(&a["nonce"]), authority }
                            })
                            .collect(),
                    );
                }
                let mut world = World { accounts: pre.clone(), block_hashes: BTreeMap::new() };
                // EEST: BLOCKHASH(n) = keccak256(str(n)) is how revme's statetest database answers
                for n in block.number.saturating_sub(256)..block.number {
                    world.block_hashes.insert(n, B256::from(crate::keccak::keccak256(n.to_string().as_bytes())));
                }
                let post = p.get("state").map(parse_accounts);
                out.push(FixCase { file: path.to_string(), name: name.clone(), fork: fork.clone(), case: Case { spec, world, block, txs: vec![tx] }, post, expect_exception: p.get("expectException").is_some(), idx: (di, gi, vi) });
            }
        }
    }
    out
}

pub fn fixture_files() -> Vec<String> {
    fn walk(dir: &std::path::Path, out: &mut Vec<String>) {
        let Ok(rd) = std::fs::read_dir(dir) else { return };
        let mut es: Vec<_> = rd.flatten().collect();
        es.sort_by_key(|e| e.path());
        for e in es {
            let p = e.path();
            if p.is_dir() {
                walk(&p, out);
            } else if p.extension().map(|x| x == "json").unwrap_or(false) {
                let s = p.to_string_lossy().to_string();
                if s.contains("/state_tests/") {
                    out.push(s);
                }
            }
        }
    }
    let mut v = vec![];
    walk(std::path::Path::new(FIXTURE_ROOT), &mut v);
    v
}

fn accounts_diff(want: &BTreeMap<Address, Acct>, got: &World) -> Option<String> {
    let w = World { accounts: want.clone(), block_hashes: BTreeMap::new() };
    world_diff(&w, got)
}

/// compare the real Evm and the reference on one single-transaction case
pub fn diff_case(case: &Case, rep: &mut Report, origin: &str, want_post: Option<&BTreeMap<Address, Acct>>, expect_exception: Option<bool>) -> bool {
    diff_case_pid("C01", case, rep, origin, want_post, expect_exception)
}

pub fn diff_case_pid(pid: &str, case: &Case, rep: &mut Report, origin: &str, want_post: Option<&BTreeMap<Address, Acct>>, expect_exception: Option<bool>) -> bool {
    let cj = || json!({"case": case.to_json(), "origin": origin});
    rep.eval();
    // real
    let real = crate::wrun::run_history(case, None, false);
    if let Some((_, p)) = &real.panic {
        report_panic(rep, pid, p, cj());
        return false;
    }
    let r_out = &real.outcomes[0];
    // reference
    let with_ref = case.spec <= SpecId::PRAGUE;
    let mut ref_world = case.world.clone();
    let rr = if with_ref {
        match guarded(|| ref_transact(&mut ref_world, case.spec, &case.block, &case.txs[0])) {
            Ok(r) => Some(r),
            Err(p) => {
                rep.inconclusive(format!("reference EVM panicked at {}: {}", p.location, p.message));
                return false;
            }
        }
    } else {
        None
    };
    let fork = spec_name(case.spec);
    // against the fixture (outputs of the real specification)
    if let Some(ex) = expect_exception {
        let rejected = matches!(r_out, TxOutcome::Rejected(_));
        if ex != rejected {
            // fixtures also mark transactions whose *execution* fails in ways revm models as halts
            if ex && !rejected {
                rep.count("fixture_expect_exception_but_executed(see note)");
            } else {
                rep.violation(format!("{pid}/fixture/rejected-valid-transaction/{fork}"), format!("{origin}: revm rejected ({}) a transaction the fixture executes", r_out.to_json()), cj());
                return false;
            }
        }
    }
    if let Some(wp) = want_post {
        rep.count("fixture_post_states_compared");
        if let Some(d) = accounts_diff(wp, &real.post) {
            let kind = Plainish::kind(&d);
            rep.violation(format!("{pid}/fixture/post-state-differs/{kind}/{fork}"), format!("{origin}: fixture vs revm: {d}"), cj());
            return false;
        }
        if let Some(rr) = &rr {
            if let Some(d) = accounts_diff(wp, &rr.post) {
                rep.inconclusive(format!("REFERENCE-BUG fixture vs reference EVM differs in {origin}: {d}"));
                return false;
            }
        }
    }
    // against the reference
    if let Some(rr) = &rr {
        if rr.out_of_domain {
            rep.count("skipped(balance above 2^256-1 in the reference: outside the specification's domain)");
            return false;
        }
        rep.count("reference_comparisons");
        if matches!(r_out, TxOutcome::Executed { .. }) {
            rep.cell("reference_compared_executed_tx_shapes", super::online::tx_shape(&case.txs[0]));
        }
        let a = r_out;
        let b = &rr.outcome;
        let mism = match (a, b) {
            (TxOutcome::Rejected(_), TxOutcome::Rejected(_)) => None,
            (TxOutcome::Executed { class: c1, gas_used: g1, gas_refunded: r1, output: o1, logs: l1, created: k1, .. }, TxOutcome::Executed { class: c2, gas_used: g2, gas_refunded: r2, output: o2, logs: l2, created: k2, .. }) => {
                if c1 != c2 {
                    Some(format!("outcome-class/{c2}-expected-{c1}-got"))
                } else if g1 != g2 {
                    Some("gas-used".into())
                } else if *c1 == "success" && r1 != r2 {
                    Some("gas-refunded".into())
                } else if o1 != o2 && !(case.txs[0].to.is_none() && *c1 == "success") {
                    // (a successful create transaction has no return data in the specification)
                    Some("output".into())
                } else if l1 != l2 {
                    Some("logs".into())
                } else if k1 != k2 {
                    Some("created-address".into())
                } else {
                    None
                }
            }
            (TxOutcome::Rejected(_), _) => Some("rejected-but-valid".into()),
            (_, TxOutcome::Rejected(_)) => Some("accepted-but-invalid".into()),
            _ => Some("other".into()),
        };
        if let Some(m) = mism {
            rep.violation(format!("{pid}/reference/{m}/{fork}"), format!("{origin}: revm {} vs reference {}", a.to_json(), b.to_json()), cj());
            return false;
        }
        if matches!(a, TxOutcome::Executed { .. }) {
            if let Some(d) = world_diff(&rr.post, &real.post) {
                rep.violation(format!("{pid}/reference/post-state/{}/{fork}", Plainish::kind(&d)), format!("{origin}: reference vs revm: {d}"), cj());
                return false;
            }
            // lock-step: every dispatched instruction of the real interpreter against the reference
            // (catches divergences that a later exceptional halt would mask)
            match crate::wrun::trace_real(case) {
                Err(p) => {
                    report_panic(rep, pid, &p, cj());
                    return false;
                }
                Ok(xt) => {
                    rep.add("lockstep_instructions_compared", rr.trace.len().min(xt.len()) as u64);
                    rep.count("lockstep_traces_compared");
                    if let Some((i, field, a, b)) = crate::wrun::trace_diff(&rr.trace, &xt) {
                        let opn = a.as_ref().or(b.as_ref()).map(|t| format!("{:02x}", t.op)).unwrap_or_default();
                        // the instruction that *caused* the difference is the previous one
                        let prev = if i > 0 { format!("{:02x}", rr.trace[i - 1].op) } else { "start".into() };
                        rep.violation(format!("{pid}/reference/lockstep/{field}/after-{prev}/{fork}"), format!("{origin}: instruction #{i} (opcode {opn}): reference {:?} vs revm {:?}", a, b), cj());
                        return false;
                    }
                }
            }
            rep.add("reference_steps", rr.steps);
            for (op, n) in rr.op_hist.iter().enumerate() {
                if *n > 0 {
                    rep.cell_add(&format!("opcodes_executed_by_reference/{}", if case.spec >= SpecId::BERLIN { "berlin+" } else { "pre-berlin" }), &format!("{:02x}", op), *n as u64);
                }
            }
        }
    }
    true
}

struct Plainish;
impl Plainish {
    fn kind(d: &str) -> &'static str {
        if d.contains(" slot ") {
            "storage"
        } else if d.contains("balance") {
            "balance"
        } else if d.contains("nonce") {
            "nonce"
        } else if d.contains("code") {
            "code"
        } else {
            "existence"
        }
    }
}

pub fn run_fixtures(ctx: &Ctx, rep: &mut Report, pid: &str, osaka: bool) {
    let files = fixture_files();
    let fr = &files;
    let nsh = 32;
    let r = par_shards(ctx, nsh, |si, _rng, rep| {
        for (i, f) in fr.iter().enumerate() {
            if i % nsh != si {
                continue;
            }
            if EXCLUDED.iter().any(|e| f.ends_with(e)) {
                rep.count("fixture_files_excluded(superseded devnet-5 EXTCODE semantics)");
                continue;
            }
            let cases = load_fixture_file(f);
            if cases.is_empty() {
                rep.count("fixture_files_empty_or_unparsed");
                continue;
            }
            rep.count("fixture_files_replayed");
            for fc in cases {
                let is_osaka = fc.case.spec == SpecId::OSAKA;
                if is_osaka != osaka {
                    continue;
                }
                rep.cell("fixture_cases_per_fork", &fc.fork);
                let short = fc.file.trim_start_matches(FIXTURE_ROOT).to_string();
                let origin = format!("{short}::{}[{}/{}/{}]", fc.name.rsplit("::").next().unwrap_or(""), fc.idx.0, fc.idx.1, fc.idx.2);
                let ok = diff_case(&fc.case, rep, &origin, fc.post.as_ref(), Some(fc.expect_exception));
                if ok {
                    rep.nontrivial(fc.case.hash());
                }
            }
        }
    });
    rep.merge(r);
    let _ = pid;
}

pub fn run(ctx: &Ctx) -> i32 {
    let mut rep = Report::new();
    if let Some(path) = &ctx.replay {
        let v: Value = serde_json::from_str(&std::fs::read_to_string(path).expect("replay")).expect("json");
        let case = Case::from_json(&v["case"]["case"]);
        diff_case(&case, &mut rep, "replay", None, None);
        println!("replayed: {} violation(s)", rep.violations.len());
        for v in &rep.violations {
            println!("  {} — {}", v.signature, v.what);
        }
    } else {
        run_fixtures(ctx, &mut rep, "C01", false);
        // generated workload
        let n = ctx.n(30_000, 5_000_000);
        let shards = 64;
        let r2 = par_shards(ctx, shards, |_si, rng, rep| {
            for k in 0..(n / shards as u64).max(1) {
                let spec = random_spec(rng, false);
                let mut case = gen_case(rng, spec, 1);
                case.txs.truncate(1);
                rep.cell("generated_cases_per_spec", spec_name(spec));
                if diff_case(&case, rep, "generated", None, None) {
                    rep.nontrivial(case.hash());
                }
                // gas-limit sweep (see online.rs): out of gas at many different instructions
                if rng.chance(1, 20) {
                    let used = crate::wrun::run_history(&case, None, false).outcomes.first().and_then(|o| o.gas_used());
                    if let Some(used) = used {
                        let (i, f) = super::online::intrinsic_gas(case.spec, &case.txs[0]);
                        let lo = i.max(f) as u64;
                        if used > lo && used - lo < 2_000_000 {
                            for k in 0..10u64 {
                                let mut c2 = case.clone();
                                c2.txs[0].gas_limit = if k < 3 { used - 1 - k.min(used - lo - 1) } else { lo + rng.below(used - lo) };
                                rep.count("gas_limit_sweep_cases");
                                if diff_case(&c2, rep, "generated/gas-limit-sweep", None, None) {
                                    rep.nontrivial(c2.hash());
                                }
                            }
                        }
                    }
                }
                if rep.samples.len() < 2 && k == 2 {
                    rep.sample(json!({"spec": spec_name(case.spec), "tx": case.txs[0].to_json(), "to_code": case.txs[0].to.and_then(|a| case.world.accounts.get(&a)).map(|a| hex(&a.code))}));
                }
            }
        });
        rep.merge(r2);
        let a = rep.counter("fixture_post_states_compared");
        rep.floor("fixture post-states compared", a, 2000);
        let b = rep.counter("reference_comparisons");
        rep.floor("reference comparisons", b, 10_000);
    }
    finish(ctx, rep, Finish {
        level: "exploration",
        rule: "(a) every shipped EEST state fixture for Frontier..Prague (own JSON loader, no skip list except 4 files with superseded devnet-5 EIP-7702 EXTCODE semantics and the 7 emptied files) replayed through the real Evm: full post-state (existence, balance, nonce, code, every slot) must equal the fixture's; the reference EVM must reproduce the same fixtures or the run is inconclusive; (b) reference EVM (refevm.rs, FRONTIER..PRAGUE) vs the real Evm on generated single-transaction cases from W: accept/reject, outcome class, gas_used, refund, output, logs, created address and the complete post-state. Halt reasons are not compared. Non-trivial = comparison completed; distinct by case hash.".into(),
        assumptions: vec!["the reference EVM is mine, written from the specifications and validated on the fixtures".into(), "precompile internals inside the reference are delegated to revm-precompile (C23 judges those)".into(), "fixture BLOCKHASH convention: keccak256(decimal number)".into()],
    })
}
