//! C03 — arithmetic / comparison / bitwise / shift opcodes vs unbounded-integer definitions.
use crate::fw::*;
use crate::interp::*;
use num_bigint::{BigInt, BigUint, Sign};
use num_traits::{One, Zero};
use revm_interpreter::InstructionResult;
use revm_primitives::SpecId;
use serde_json::{json, Value};

#[derive(Clone, Copy, Debug, PartialEq)]
struct OpDef {
    byte: u8,
    name: &'static str,
    arity: usize,
}

const OPS: [OpDef; 25] = [
    OpDef { byte: 0x01, name: "ADD", arity: 2 },
    OpDef { byte: 0x02, name: "MUL", arity: 2 },
    OpDef { byte: 0x03, name: "SUB", arity: 2 },
    OpDef { byte: 0x04, name: "DIV", arity: 2 },
    OpDef { byte: 0x05, name: "SDIV", arity: 2 },
    OpDef { byte: 0x06, name: "MOD", arity: 2 },
    OpDef { byte: 0x07, name: "SMOD", arity: 2 },
    OpDef { byte: 0x08, name: "ADDMOD", arity: 3 },
    OpDef { byte: 0x09, name: "MULMOD", arity: 3 },
    OpDef { byte: 0x0a, name: "EXP", arity: 2 },
    OpDef { byte: 0x0b, name: "SIGNEXTEND", arity: 2 },
    OpDef { byte: 0x10, name: "LT", arity: 2 },
    OpDef { byte: 0x11, name: "GT", arity: 2 },
    OpDef { byte: 0x12, name: "SLT", arity: 2 },
    OpDef { byte: 0x13, name: "SGT", arity: 2 },
    OpDef { byte: 0x14, name: "EQ", arity: 2 },
    OpDef { byte: 0x15, name: "ISZERO", arity: 1 },
    OpDef { byte: 0x16, name: "AND", arity: 2 },
    OpDef { byte: 0x17, name: "OR", arity: 2 },
    OpDef { byte: 0x18, name: "XOR", arity: 2 },
    OpDef { byte: 0x19, name: "NOT", arity: 1 },
    OpDef { byte: 0x1a, name: "BYTE", arity: 2 },
    OpDef { byte: 0x1b, name: "SHL", arity: 2 },
    OpDef { byte: 0x1c, name: "SHR", arity: 2 },
    OpDef { byte: 0x1d, name: "SAR", arity: 2 },
];

fn two256() -> BigUint {
    BigUint::one() << 256
}
fn wrap(x: BigUint) -> BigUint {
    x % two256()
}
fn to_signed(x: &BigUint) -> BigInt {
    if x.bit(255) {
        BigInt::from_biguint(Sign::Plus, x.clone()) - BigInt::from_biguint(Sign::Plus, two256())
    } else {
        BigInt::from_biguint(Sign::Plus, x.clone())
    }
}
fn from_signed(x: BigInt) -> BigUint {
    let m = BigInt::from_biguint(Sign::Plus, two256());
    let mut r = x % &m;
    if r.sign() == Sign::Minus {
        r += &m;
    }
    r.to_biguint().unwrap()
}
fn b(x: bool) -> BigUint {
    if x {
        BigUint::one()
    } else {
        BigUint::zero()
    }
}

/// the definition (yellow paper, unbounded integers reduced mod 2^256); x[0] is the top of stack
fn define(op: &OpDef, x: &[BigUint]) -> BigUint {
    let z = BigUint::zero();
    match op.name {
        "ADD" => wrap(&x[0] + &x[1]),
        "MUL" => wrap(&x[0] * &x[1]),
        "SUB" => from_signed(BigInt::from(x[0].clone()) - BigInt::from(x[1].clone())),
        "DIV" => if x[1].is_zero() { z } else { &x[0] / &x[1] },
        "SDIV" => {
            if x[1].is_zero() {
                z
            } else {
                let (a, d) = (to_signed(&x[0]), to_signed(&x[1]));
                // truncated division; -2^255 / -1 wraps to -2^255
                let q = &a / &d; // BigInt division truncates toward zero
                from_signed(q)
            }
        }
        "MOD" => if x[1].is_zero() { z } else { &x[0] % &x[1] },
        "SMOD" => {
            if x[1].is_zero() {
                z
            } else {
                let (a, d) = (to_signed(&x[0]), to_signed(&x[1]));
                // sign of the result follows the dividend (truncated remainder)
                from_signed(&a % &d)
            }
        }
        "ADDMOD" => if x[2].is_zero() { z } else { (&x[0] + &x[1]) % &x[2] },
        "MULMOD" => if x[2].is_zero() { z } else { (&x[0] * &x[1]) % &x[2] },
        "EXP" => x[0].modpow(&x[1], &two256()),
        "SIGNEXTEND" => {
            // x[0] = byte index k, x[1] = value
            if x[0] >= BigUint::from(31u32) {
                x[1].clone()
            } else {
                let k = x[0].to_u64_digits().first().copied().unwrap_or(0) as u64;
                let bit = 8 * k + 7;
                let low_mask = (BigUint::one() << (bit + 1)) - BigUint::one();
                let low = &x[1] & &low_mask;
                if x[1].bit(bit) {
                    let high = (two256() - BigUint::one()) ^ &low_mask;
                    low | high
                } else {
                    low
                }
            }
        }
        "LT" => b(x[0] < x[1]),
        "GT" => b(x[0] > x[1]),
        "SLT" => b(to_signed(&x[0]) < to_signed(&x[1])),
        "SGT" => b(to_signed(&x[0]) > to_signed(&x[1])),
        "EQ" => b(x[0] == x[1]),
        "ISZERO" => b(x[0].is_zero()),
        "AND" => &x[0] & &x[1],
        "OR" => &x[0] | &x[1],
        "XOR" => &x[0] ^ &x[1],
        "NOT" => (two256() - BigUint::one()) ^ &x[0],
        "BYTE" => {
            if x[0] >= BigUint::from(32u32) {
                z
            } else {
                let i = x[0].to_u64_digits().first().copied().unwrap_or(0);
                (&x[1] >> (8 * (31 - i))) & BigUint::from(0xffu32)
            }
        }
        "SHL" => {
            if x[0] >= BigUint::from(256u32) {
                z
            } else {
                let s = x[0].to_u64_digits().first().copied().unwrap_or(0);
                wrap(&x[1] << s)
            }
        }
        "SHR" => {
            if x[0] >= BigUint::from(256u32) {
                z
            } else {
                let s = x[0].to_u64_digits().first().copied().unwrap_or(0);
                &x[1] >> s
            }
        }
        "SAR" => {
            let v = to_signed(&x[1]);
            if x[0] >= BigUint::from(256u32) {
                if v.sign() == Sign::Minus { two256() - BigUint::one() } else { z }
            } else {
                let s = x[0].to_u64_digits().first().copied().unwrap_or(0);
                // floor division by 2^s (arithmetic shift)
                let d = BigInt::from(BigUint::one() << s);
                let q = num_integer::Integer::div_floor(&v, &d);
                from_signed(q)
            }
        }
        _ => unreachable!(),
    }
}

fn gas_of(op: &OpDef, x: &[BigUint], spec: SpecId) -> u64 {
    match op.name {
        "ADD" | "SUB" | "LT" | "GT" | "SLT" | "SGT" | "EQ" | "ISZERO" | "AND" | "OR" | "XOR" | "NOT" | "BYTE" | "SHL" | "SHR" | "SAR" => 3,
        "MUL" | "DIV" | "SDIV" | "MOD" | "SMOD" | "SIGNEXTEND" => 5,
        "ADDMOD" | "MULMOD" => 8,
        "EXP" => {
            let bytes = (x[1].bits() + 7) / 8;
            let per = if spec >= SpecId::SPURIOUS_DRAGON { 50 } else { 10 };
            10 + per * bytes
        }
        _ => unreachable!(),
    }
}

fn exists(op: &OpDef, spec: SpecId) -> bool {
    match op.name {
        "SHL" | "SHR" | "SAR" => spec >= SpecId::CONSTANTINOPLE,
        _ => true,
    }
}

fn big(u: &[u8; 32]) -> BigUint {
    BigUint::from_bytes_be(u)
}
fn w32(x: &BigUint) -> [u8; 32] {
    let v = x.to_bytes_be();
    let mut o = [0u8; 32];
    o[32 - v.len()..].copy_from_slice(&v);
    o
}

/// boundary operand set B
fn boundary() -> Vec<BigUint> {
    let one = BigUint::one();
    let mut v: Vec<BigUint> = vec![0u32, 1, 2, 3, 31, 32, 33, 255, 256, 257].into_iter().map(BigUint::from).collect();
    for k in [7u32, 8, 15, 16, 31, 32, 63, 64, 127, 128, 255] {
        let p = &one << k;
        v.push(p.clone());
        v.push(&p + &one);
        v.push(&p - &one);
    }
    let m = two256();
    v.push(&m - &one); // -1
    v.push(&m - BigUint::from(2u32)); // -2
    v.push((&one << 255) + &one);
    v.push((&one << 255) - &one); // MAX positive
    v.push(&m - (&one << 128));
    v.push(&m - (&one << 64));
    v.push(&m - BigUint::from(256u32));
    v.sort();
    v.dedup();
    v
}

static SENT1: [u8; 32] = [0x5a; 32];
static SENT2: [u8; 32] = [0xc3; 32];

fn run_one(op: &OpDef, xs: &[BigUint], spec: SpecId, rep: &mut Report) {
    rep.eval();
    // PUSH32 s1 PUSH32 s2 PUSH32 x_k .. PUSH32 x_1 OP STOP
    let mut code = Vec::with_capacity(33 * 5 + 2);
    for s in [&SENT1, &SENT2] {
        code.push(0x7f);
        code.extend_from_slice(s);
    }
    for x in xs.iter().rev() {
        code.push(0x7f);
        code.extend_from_slice(&w32(x));
    }
    code.push(op.byte);
    code.push(0x00);
    let case = || json!({"op": op.name, "spec": spec_name(spec), "operands_top_first": xs.iter().map(|x| hex(&w32(x))).collect::<Vec<_>>(), "code": hex(&code)});
    let gas_limit = 1_000_000u64;
    let r = guarded(|| run_bare(spec, &code, &[], gas_limit));
    let (interp, _act) = match r {
        Ok(v) => v,
        Err(p) => {
            report_panic(rep, "C03", &p, case());
            return;
        }
    };
    let res = interp.instruction_result;
    if !exists(op, spec) {
        let undefined = matches!(res, InstructionResult::NotActivated | InstructionResult::OpcodeNotFound);
        if !undefined {
            rep.violation(format!("C03/{}/exists-before-fork", op.name), format!("{} in {} ended with {:?}", op.name, spec_name(spec), res), case());
        }
        return;
    }
    if res != InstructionResult::Stop {
        rep.violation(format!("C03/{}/result/{:?}", op.name, res), format!("{} {} ended with {:?}", op.name, spec_name(spec), res), case());
        return;
    }
    let want = define(op, xs);
    let st = interp.stack.data();
    let ok_shape = st.len() == 3 && st[0].to_be_bytes::<32>() == SENT1 && st[1].to_be_bytes::<32>() == SENT2;
    if !ok_shape {
        rep.violation(format!("C03/{}/stack-shape", op.name), format!("{}: stack after = {:?} (expected 2 sentinels + result)", op.name, st), case());
        return;
    }
    if st[2].to_be_bytes::<32>() != w32(&want) {
        rep.violation(format!("C03/{}/value", op.name), format!("{}({}) = {} expected {}", op.name, xs.iter().map(|x| hex(&w32(x))).collect::<Vec<_>>().join(","), hex(&st[2].to_be_bytes::<32>()), hex(&w32(&want))), case());
        return;
    }
    let pushes = 3 * (2 + op.arity as u64);
    let spent = interp.gas.spent();
    let want_gas = gas_of(op, xs, spec);
    if spent != pushes + want_gas {
        rep.violation(format!("C03/{}/gas", op.name), format!("{} {}: charged {} expected {}", op.name, spec_name(spec), spent as i64 - pushes as i64, want_gas), case());
    }
}

fn nontrivial(xs: &[BigUint]) -> bool {
    !xs.iter().all(|x| *x <= BigUint::one())
}

fn case_hash(op: &OpDef, xs: &[BigUint]) -> u64 {
    let mut v = vec![op.byte];
    for x in xs {
        v.extend_from_slice(&w32(x));
    }
    hash64(&v)
}

fn rnd_operand(rng: &mut Rng, bset: &[BigUint]) -> BigUint {
    match rng.below(6) {
        0 | 1 => rng.pick(bset).clone(),
        2 => BigUint::from(rng.below(300)),
        3 => big(&rng.b32()) >> (rng.below(256) as usize),
        4 => {
            // near a boundary
            let x = rng.pick(bset).clone();
            let d = BigUint::from(rng.below(4));
            if rng.chance(1, 2) { wrap(x + d) } else if x >= d { x - d } else { x }
        }
        _ => big(&rng.b32()),
    }
}

pub fn run(ctx: &Ctx) -> i32 {
    let bset = boundary();
    let mut rep;
    if let Some(path) = &ctx.replay {
        rep = Report::new();
        let v: Value = serde_json::from_str(&std::fs::read_to_string(path).expect("replay")).expect("json");
        let c = &v["case"];
        let op = OPS.iter().find(|o| o.name == c["op"].as_str().unwrap()).unwrap();
        let spec = spec_from_name(c["spec"].as_str().unwrap()).unwrap();
        let xs: Vec<BigUint> = c["operands_top_first"].as_array().unwrap().iter().map(|s| BigUint::from_bytes_be(&unhex(s.as_str().unwrap()))).collect();
        run_one(op, &xs, spec, &mut rep);
        println!("replayed: {} violation(s)", rep.violations.len());
    } else {
        let quick = ctx.quick();
        // the specs where semantics can differ: all of them for existence; gas differs only for EXP
        let specs_full: Vec<SpecId> = ALL_SPECS.to_vec();
        let specs_light: Vec<SpecId> = vec![SpecId::FRONTIER, SpecId::BYZANTIUM, SpecId::CONSTANTINOPLE, SpecId::CANCUN, SpecId::OSAKA];
        let bref = &bset;
        // shard = (op index); inside: exhaustive B x B (x B24 for ternary) at one rotating spec per
        // operand tuple + all specs for a subset
        let random_per_op = ctx.n(4_000, 80_000);
        rep = par_shards(ctx, OPS.len(), |oi, rng, rep| {
            let op = &OPS[oi];
            let mut si = 0usize;
            let mut do_case = |xs: &[BigUint], rep: &mut Report, all_specs: bool| {
                if nontrivial(xs) {
                    rep.nontrivial(case_hash(op, xs));
                }
                if all_specs {
                    for s in &specs_full {
                        run_one(op, xs, *s, rep);
                    }
                } else {
                    let s = specs_full[si % specs_full.len()];
                    si += 1;
                    run_one(op, xs, s, rep);
                    if !quick {
                        for s in &specs_light {
                            run_one(op, xs, *s, rep);
                        }
                    }
                }
                rep.cell("cases_per_opcode", op.name);
            };
            match op.arity {
                1 => {
                    for a in bref {
                        do_case(&[a.clone()], rep, true);
                    }
                }
                2 => {
                    for a in bref {
                        for b in bref {
                            do_case(&[a.clone(), b.clone()], rep, false);
                        }
                    }
                    // exhaustive small domains for the first operand of the index/shift-like opcodes
                    let small: Option<std::ops::RangeInclusive<u32>> = match op.name {
                        "BYTE" | "SIGNEXTEND" => Some(0..=40),
                        "SHL" | "SHR" | "SAR" => Some(0..=260),
                        _ => None,
                    };
                    if let Some(r) = small {
                        for k in r {
                            for v in bref {
                                do_case(&[BigUint::from(k), v.clone()], rep, false);
                            }
                        }
                        for k in [BigUint::one() << 64, (BigUint::one() << 64) + BigUint::one(), BigUint::one() << 128, two256() - BigUint::one(), (BigUint::one() << 32) + BigUint::from(3u32)] {
                            for v in bref {
                                do_case(&[k.clone(), v.clone()], rep, false);
                            }
                        }
                    }
                    if op.name == "EXP" {
                        // every exponent byte length 0..=32 under both gas schedules
                        for l in 0..=32usize {
                            let e = if l == 0 { BigUint::zero() } else { BigUint::one() << (8 * l - 1) };
                            for base in [BigUint::from(2u32), BigUint::from(3u32), two256() - BigUint::one()] {
                                do_case(&[base, e.clone()], rep, true);
                            }
                        }
                    }
                }
                _ => {
                    // 24-element subset, all triples
                    let sub: Vec<BigUint> = bref.iter().step_by((bref.len() / 24).max(1)).cloned().chain([two256() - BigUint::one(), BigUint::one() << 255]).collect();
                    for a in &sub {
                        for b in &sub {
                            for c in &sub {
                                do_case(&[a.clone(), b.clone(), c.clone()], rep, false);
                            }
                        }
                    }
                }
            }
            for _ in 0..random_per_op {
                let xs: Vec<BigUint> = (0..op.arity).map(|_| rnd_operand(rng, bref)).collect();
                do_case(&xs, rep, false);
            }
            if oi == 0 {
                rep.sample(json!({"op": "ADD", "operands_top_first": [hex(&w32(&bref[5])), hex(&w32(&bref[40]))], "program": "PUSH32 s1 PUSH32 s2 PUSH32 b PUSH32 a ADD STOP"}));
            }
            if oi == 7 {
                rep.sample(json!({"op": "ADDMOD", "operands_top_first": [hex(&w32(&(two256() - BigUint::one()))), hex(&w32(&(two256() - BigUint::one()))), hex(&w32(&BigUint::from(7u32)))]}));
            }
            if oi == 24 {
                rep.sample(json!({"op": "SAR", "operands_top_first": [hex(&w32(&BigUint::from(255u32))), hex(&w32(&(BigUint::one() << 255)))]}));
            }
        });
        rep.extra.insert("boundary_set_size".into(), json!(bset.len()));
        rep.extra.insert("exhaustive_subspaces".into(), json!(["B x B for every binary opcode", "24-subset^3 for ADDMOD/MULMOD", "BYTE/SIGNEXTEND index 0..40 x B", "SHL/SHR/SAR shift 0..260 and >=2^64 x B", "EXP exponent byte length 0..32 x all SpecIds", "unary ops x B x all SpecIds"]));
        for op in OPS.iter() {
            let have = rep.table_get("cases_per_opcode", op.name);
            rep.floor(&format!("cases for {}", op.name), have, 100);
        }
    }
    finish(ctx, rep, Finish {
        level: "exploration",
        rule: "each case = program PUSH32 s1 PUSH32 s2 PUSH32 x_k..PUSH32 x_1 OP STOP run on the real Interpreter (DummyHost) per SpecId; oracle = BigUint/BigInt definition (different big-integer library from revm's ruint) for the value, the sentinels for 'consumes exactly its inputs', the gas schedule for the charge, Constantinople gate for shifts. Operands: boundary set B (sign boundaries, 2^k, 2^k+-1, all-ones) exhaustively paired, exhaustive small index/shift domains, random and near-boundary draws. Non-trivial = not all operands in {0,1}; distinct by (opcode, operands).".into(),
        assumptions: vec!["num-bigint is the trusted arithmetic".into()],
    })
}

/// BigUint definition by opcode byte, operands top-of-stack first (shared with the reference EVM)
pub fn arith_by_opcode(op: u8, args: &[revm_primitives::U256]) -> Option<revm_primitives::U256> {
    let d = OPS.iter().find(|o| o.byte == op)?;
    if args.len() != d.arity {
        return None;
    }
    let xs: Vec<BigUint> = args.iter().map(|a| BigUint::from_bytes_be(&a.to_be_bytes::<32>())).collect();
    let r = define(d, &xs);
    Some(revm_primitives::U256::from_be_bytes(w32(&r)))
}

pub fn arity_of(op: u8) -> Option<usize> {
    OPS.iter().find(|o| o.byte == op).map(|o| o.arity)
}
