//! C31 — reusing an EVM instance is equivalent to using a fresh one.
use crate::evmrun::*;
use crate::fw::*;
use crate::interp::*;
use crate::world::*;
use revm::primitives::{SpecId, U256};
use revm::{DatabaseCommit, Evm};
use serde_json::{json, Value};

#[derive(Clone, Debug, PartialEq)]
enum Op {
    TransactCommit,
    TransactNoCommit,
    PreverifyOnly,
    PreverifyThenTransactPreverified,
}

#[derive(Clone, Debug)]
struct Step {
    tx: TxSpec,
    op: Op,
    spec: SpecId,
    fault: Option<(DbMethod, u64)>,
    /// edit the block env (coinbase) before this step
    coinbase: revm::primitives::Address,
}

fn op_name(o: &Op) -> &'static str {
    match o {
        Op::TransactCommit => "transact_commit",
        Op::TransactNoCommit => "transact",
        Op::PreverifyOnly => "preverify_transaction",
        Op::PreverifyThenTransactPreverified => "preverify+transact_preverified",
    }
}

fn step_json(s: &Step) -> Value {
    json!({"tx": s.tx.to_json(), "op": op_name(&s.op), "spec": spec_name(s.spec), "fault": s.fault.map(|(m, k)| format!("{:?}#{k}", m)), "coinbase": addr_hex(&s.coinbase)})
}

fn parse_step(v: &Value) -> Step {
    let op = match v["op"].as_str().unwrap() {
        "transact_commit" => Op::TransactCommit,
        "transact" => Op::TransactNoCommit,
        "preverify_transaction" => Op::PreverifyOnly,
        _ => Op::PreverifyThenTransactPreverified,
    };
    let fault = v["fault"].as_str().map(|s| {
        let (m, k) = s.split_once('#').unwrap();
        let m = match m {
            "Basic" => DbMethod::Basic,
            "CodeByHash" => DbMethod::CodeByHash,
            "Storage" => DbMethod::Storage,
            "BlockHash" => DbMethod::BlockHash,
            _ => DbMethod::HasStorage,
        };
        (m, k.parse().unwrap())
    });
    Step { tx: TxSpec::from_json(&v["tx"]), op, spec: spec_from_name(v["spec"].as_str().unwrap()).unwrap(), fault, coinbase: parse_addr(v["coinbase"].as_str().unwrap()) }
}

/// probe contract: leaks of transient storage, warm addresses and precompile sets become visible
/// in storage / gas: TLOAD(0) -> slot 5; TSTORE(0, 7); BALANCE of pool addresses; call precompile 0x0a
fn probe_code(spec: SpecId) -> Vec<u8> {
    let mut a = Asm::new();
    if spec >= SpecId::CANCUN {
        a.push_u(0).op(0x5c).push_u(5).op(0x55);
        a.push_u(7).push_u(0).op(0x5d);
    }
    for t in [C2, C3, NONEXISTENT, RICH] {
        a.push_addr(t).op(0x31).op(0x50);
    }
    // gas before/after touching C4: warm leak shows as a different stored gas delta
    a.op(0x5a).push_addr(C4).op(0x3b).op(0x50).op(0x5a).op(0x90).op(0x03).push_u(6).op(0x55);
    // precompile 0x0a / 0x0b probes: returndatasize after a call tells "precompile or empty account"
    a.push_u(0).push_u(0).push_u(0).push_u(0).push_u(0).push_addr(precompile(0x0b)).push_u(50_000).op(0xf1).push_u(7).op(0x55);
    a.push_u(1).push_u(8).op(0x55);
    a.op(0x00);
    a.finish()
}

fn gen_steps(rng: &mut Rng) -> (World, BlockSpec, Vec<Step>) {
    let spec0 = *rng.pick(&[SpecId::BERLIN, SpecId::LONDON, SpecId::SHANGHAI, SpecId::CANCUN, SpecId::PRAGUE, SpecId::BYZANTIUM, SpecId::FRONTIER, SpecId::OSAKA]);
    let case = gen_case(rng, spec0, 7);
    let mut world = case.world;
    world.accounts.insert(C1, Acct { nonce: 1, balance: U256::from(5u8), code: probe_code(SpecId::PRAGUE), ..Default::default() });
    let mut steps = vec![];
    let mut spec = spec0;
    let mut nonce = world.accounts.get(&SENDER1).map(|a| a.nonce).unwrap_or(0);
    for mut tx in case.txs {
        if rng.chance(1, 4) {
            // neighbouring spec (precompile sets, gas rules change)
            let i = ALL_SPECS.iter().position(|s| *s == spec).unwrap();
            let j = (i as i64 + rng.range(0, 6) as i64 - 3).clamp(0, 19) as usize;
            spec = ALL_SPECS[j];
        }
        if rng.chance(1, 3) {
            tx.to = Some(C1);
            tx.data = vec![];
            tx.gas_limit = 400_000;
        }
        // make fields legal for the current spec unless we want a rejection
        if spec < SpecId::BERLIN {
            tx.access_list.clear();
        }
        if spec < SpecId::CANCUN {
            tx.blob_hashes.clear();
            tx.max_fee_per_blob_gas = None;
        }
        if spec < SpecId::PRAGUE {
            tx.auth_list = None;
        }
        tx.nonce = Some(nonce);
        match rng.below(10) {
            0 => tx.nonce = Some(nonce + 1),                 // NonceTooHigh
            1 => tx.gas_limit = 20_000,                      // below intrinsic
            2 => tx.value = U256::MAX,                       // lack of funds
            3 => tx.caller = C2,                             // sender with code (or missing)
            _ => {}
        }
        let op = match rng.below(8) {
            0 => Op::TransactNoCommit,
            1 => Op::PreverifyOnly,
            2 => Op::PreverifyThenTransactPreverified,
            _ => Op::TransactCommit,
        };
        let fault = if rng.chance(1, 6) {
            Some((*rng.pick(&[DbMethod::Basic, DbMethod::Storage, DbMethod::CodeByHash, DbMethod::BlockHash]), 1 + rng.below(6)))
        } else {
            None
        };
        let coinbase = if rng.chance(1, 5) { C3 } else { case.block.coinbase };
        // predicted nonce bump only when the tx is going to be accepted and committed; keep it simple:
        // the runner re-reads the nonce (tx.nonce = None) for half of the steps
        if rng.chance(1, 2) {
            tx.nonce = None;
        }
        steps.push(Step { tx, op, spec, fault, coinbase });
        nonce += 1;
    }
    (world, case.block, steps)
}

fn pristine<DB: revm::Database>(evm: &Evm<'_, (), DB>) -> Option<String> {
    let js = &evm.context.evm.journaled_state;
    if !js.state.is_empty() {
        return Some(format!("journaled state keeps {} account(s)", js.state.len()));
    }
    if !js.transient_storage.is_empty() {
        return Some("transient storage not cleared".into());
    }
    if !js.logs.is_empty() {
        return Some("logs not cleared".into());
    }
    if js.depth != 0 {
        return Some(format!("depth {}", js.depth));
    }
    if js.journal.len() != 1 || !js.journal[0].is_empty() {
        return Some("journal not reset".into());
    }
    if !js.warm_preloaded_addresses.is_empty() {
        return Some(format!("{} warm pre-loaded address(es) kept", js.warm_preloaded_addresses.len()));
    }
    if evm.context.evm.error.is_err() {
        return Some("context error left set".into());
    }
    None
}

fn apply_step<DB: revm::Database + DatabaseCommit>(evm: &mut Evm<'_, (), DB>, block: &BlockSpec, s: &Step) -> TxOutcome
where
    DB::Error: core::fmt::Debug + Clone,
{
    if evm.spec_id() != s.spec {
        evm.modify_spec_id(s.spec);
    }
    let mut b = block.clone();
    b.coinbase = s.coinbase;
    fill_env(&mut evm.context.evm.env, s.spec, &b, &s.tx);
    match s.op {
        Op::TransactCommit => outcome_of(&evm.transact_commit()),
        Op::TransactNoCommit => outcome_of(&evm.transact().map(|r| r.result)),
        Op::PreverifyOnly => match evm.preverify_transaction() {
            Ok(()) => TxOutcome::OtherError("preverified-ok".into()),
            Err(e) => outcome_of::<DB::Error>(&Err(e)),
        },
        Op::PreverifyThenTransactPreverified => match evm.preverify_transaction() {
            Ok(()) => {
                let r = evm.transact_preverified();
                match r {
                    Ok(rs) => {
                        evm.context.evm.db.commit(rs.state);
                        outcome_of::<DB::Error>(&Ok(rs.result))
                    }
                    Err(e) => outcome_of::<DB::Error>(&Err(e)),
                }
            }
            Err(e) => outcome_of::<DB::Error>(&Err(e)),
        },
    }
}

fn check(world: &World, block: &BlockSpec, steps: &[Step], rep: &mut Report) -> bool {
    let case = || json!({"world": world.to_json(), "block": block.to_json(), "steps": steps.iter().map(step_json).collect::<Vec<_>>()});
    let spec0 = steps.first().map(|s| s.spec).unwrap_or(SpecId::CANCUN);
    let mut fresh_db = RefDB::new(world.clone(), spec0);
    let mut reused: Evm<'_, (), RefDB> = Evm::builder().with_db(RefDB::new(world.clone(), spec0)).with_spec_id(spec0).build();
    let mut executed = 0;
    for (i, s) in steps.iter().enumerate() {
        // the reference applier follows the step's spec
        reused.context.evm.db.spec = s.spec;
        fresh_db.spec = s.spec;
        reused.context.evm.db.stats = Default::default();
        fresh_db.stats = Default::default();
        reused.context.evm.db.fault = s.fault;
        fresh_db.fault = s.fault;
        let r1 = guarded(|| apply_step(&mut reused, block, s));
        let r2 = guarded(|| {
            let mut e: Evm<'_, (), &mut RefDB> = Evm::builder().with_db(&mut fresh_db).with_spec_id(s.spec).build();
            apply_step(&mut e, block, s)
        });
        reused.context.evm.db.fault = None;
        fresh_db.fault = None;
        let (o1, o2) = match (r1, r2) {
            (Ok(a), Ok(b)) => (a, b),
            (Err(p), _) | (_, Err(p)) => {
                report_panic(rep, "C31", &p, json!({"case": case(), "step": i}));
                return false;
            }
        };
        rep.cell("ops", op_name(&s.op));
        rep.cell("outcomes", o1.class());
        if s.fault.is_some() && matches!(o1, TxOutcome::DbError(_)) {
            rep.count("steps_with_injected_db_fault_hit");
        }
        if matches!(o1, TxOutcome::Executed { .. }) {
            executed += 1;
        }
        if o1 != o2 {
            let prev = if i > 0 { format!("after-{}-{}", op_name(&steps[i - 1].op), "prev") } else { "first-step".into() };
            let _ = prev;
            let what = match (&o1, &o2) {
                (TxOutcome::Executed { gas_used: g1, .. }, TxOutcome::Executed { gas_used: g2, .. }) if g1 != g2 => "gas-differs",
                _ if o1.class() != o2.class() => "outcome-class-differs",
                _ => "result-differs",
            };
            rep.violation(format!("C31/reused-vs-fresh/{what}"), format!("step {i} ({}): reused {} vs fresh {}", op_name(&s.op), o1.to_json(), o2.to_json()), json!({"case": case(), "step": i}));
            return false;
        }
        if let Some(d) = world_diff(&reused.context.evm.db.world, &fresh_db.world) {
            rep.violation("C31/reused-vs-fresh/database-differs", format!("step {i}: {d}"), json!({"case": case(), "step": i}));
            return false;
        }
        if let Some(p) = pristine(&reused) {
            let after = match &o1 {
                TxOutcome::Rejected(_) => "after-rejection",
                TxOutcome::DbError(_) => "after-db-error",
                TxOutcome::Executed { .. } => "after-execution",
                _ => "after-other",
            };
            rep.violation(format!("C31/not-pristine/{after}/{}", op_name(&s.op)), format!("step {i}: {p}"), json!({"case": case(), "step": i}));
            return false;
        }
        rep.count("steps_checked");
    }
    executed >= 2
}

pub fn run(ctx: &Ctx) -> i32 {
    let mut rep;
    if let Some(path) = &ctx.replay {
        rep = Report::new();
        let v: Value = serde_json::from_str(&std::fs::read_to_string(path).expect("replay")).expect("json");
        let c = &v["case"]["case"];
        let world = World::from_json(&c["world"]);
        let block = BlockSpec::from_json(&c["block"]);
        let steps: Vec<Step> = c["steps"].as_array().unwrap().iter().map(parse_step).collect();
        check(&world, &block, &steps, &mut rep);
        println!("replayed: {} violation(s)", rep.violations.len());
        for v in &rep.violations {
            println!("  {} — {}", v.signature, v.what);
        }
    } else {
        let n = ctx.n(6_000, 800_000);
        let shards = 64;
        rep = par_shards(ctx, shards, |_si, rng, rep| {
            for k in 0..(n / shards as u64).max(1) {
                let (world, block, steps) = gen_steps(rng);
                rep.eval();
                if check(&world, &block, &steps, rep) {
                    rep.nontrivial(hash64(json!(steps.iter().map(step_json).collect::<Vec<_>>()).to_string().as_bytes()) ^ hash64(world.to_json().to_string().as_bytes()));
                }
                if rep.samples.len() < 2 && k == 2 {
                    rep.sample(json!({"steps": steps.iter().map(|s| json!({"op": op_name(&s.op), "spec": spec_name(s.spec), "fault": s.fault.map(|f| format!("{:?}", f)), "to": s.tx.to.map(|a| addr_hex(&a))})).collect::<Vec<_>>()}));
                }
            }
        });
        for o in ["transact_commit", "transact", "preverify_transaction", "preverify+transact_preverified"] {
            let have = rep.table_get("ops", o);
            rep.floor(&format!("op {o}"), have, 200);
        }
        for o in ["rejected", "success", "revert", "halt", "db-error"] {
            let have = rep.table_get("outcomes", o);
            rep.floor(&format!("outcome {o}"), have, 30);
        }
    }
    finish(ctx, rep, Finish {
        level: "exploration",
        rule: "step sequences (2..7) on ONE Evm over RefDB versus a fresh Evm per step over a second, identically evolving RefDB: each step picks transact_commit / transact / preverify_transaction / preverify+transact_preverified, possibly a spec change to a neighbouring SpecId (modify_spec_id), a coinbase edit, an invalid transaction (nonce, gas, funds, sender with code), or an injected database fault (k-th basic/storage/code_by_hash/block_hash returns Err). After every step: results equal, databases equal, and the reused instance's journaled state is pristine (no accounts, transient storage, logs, depth, journal entries, warm pre-loads, pending error). A probe contract makes leaks visible (TLOAD before TSTORE, gas of a cold EXTCODESIZE, Prague-only precompile). Non-trivial = >= 2 executed transactions; distinct by (world, steps).".into(),
        assumptions: vec!["the same EvmState applier commits for both twins, so database differences come from execution, not from committing".into()],
    })
}
