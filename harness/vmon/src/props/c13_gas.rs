//! C13 — the gas meter. Direct driver against an i128 model (DESIGN 5/C13).
use crate::fw::*;
use revm_interpreter::Gas;
use serde_json::{json, Value};

#[derive(Clone, Debug)]
enum Op {
    New(u64),
    NewSpent(u64),
    Record(u64),
    Erase(u64),
    Refund(i64),
    FinalRefund(bool),
    SpendAll,
    SetSpent(u64),
    SetRefund(i64),
}

struct Model {
    limit: i128,
    remaining: i128,
    refunded: i128,
}

fn boundary_u64(rng: &mut Rng, limit: u64, remaining: u64) -> u64 {
    match rng.below(14) {
        0 => 0,
        1 => 1,
        2 => limit.wrapping_sub(1),
        3 => limit,
        4 => limit.wrapping_add(1),
        5 => remaining,
        6 => remaining.wrapping_add(1),
        7 => remaining.wrapping_sub(1),
        8 => 1 << 63,
        9 => u64::MAX,
        10 => rng.next(),
        11 => rng.below(1000),
        12 => remaining / 2,
        _ => rng.next() >> rng.below(64),
    }
}

fn gen_case(rng: &mut Rng) -> Vec<Op> {
    let n = rng.range(1, 40) as usize;
    let mut ops = Vec::with_capacity(n + 1);
    let limits = [0u64, 1, 2, 21000, 100_000, 30_000_000, 1 << 32, 1 << 63, u64::MAX - 1, u64::MAX];
    let limit = if rng.chance(1, 4) { rng.next() >> rng.below(64) } else { *rng.pick(&limits) };
    let mut m = Model { limit: limit as i128, remaining: limit as i128, refunded: 0 };
    if rng.chance(1, 8) {
        ops.push(Op::NewSpent(limit));
        m.remaining = 0;
    } else {
        ops.push(Op::New(limit));
    }
    for _ in 0..n {
        let rem = m.remaining as u64;
        let lim = m.limit as u64;
        let op = match rng.below(20) {
            0..=6 => Op::Record(boundary_u64(rng, lim, rem)),
            7..=9 => {
                // frame discipline: return at most what has been charged
                let spent = (m.limit - m.remaining) as u64;
                let x = match rng.below(5) {
                    0 => spent,
                    1 => 0,
                    2 => spent / 2,
                    3 => spent.saturating_sub(1),
                    _ => {
                        if spent == 0 {
                            0
                        } else {
                            rng.below(spent.saturating_add(1).max(1))
                        }
                    }
                };
                Op::Erase(x)
            }
            10..=12 => {
                // running refund may be negative; keep |sum| < 2^62 so i64 arithmetic is in its domain
                let r = match rng.below(6) {
                    0 => 4800,
                    1 => -4800,
                    2 => 15000,
                    3 => -(rng.below(1 << 20) as i64),
                    4 => rng.below(1 << 40) as i64,
                    _ => (rng.next() >> 3) as i64 * if rng.chance(1, 2) { 1 } else { -1 },
                };
                let nr = m.refunded + r as i128;
                if nr.abs() < (1i128 << 62) { Op::Refund(r) } else { Op::Refund(0) }
            }
            13..=14 => {
                if m.refunded >= 0 {
                    Op::FinalRefund(rng.chance(1, 2))
                } else {
                    // bring the total back to >= 0 first (the domain the property states)
                    Op::Refund((-m.refunded) as i64)
                }
            }
            15 => Op::SpendAll,
            16 => Op::SetSpent(boundary_u64(rng, lim, rem)),
            17 => Op::SetRefund(match rng.below(4) {
                0 => 0,
                1 => rng.below(1 << 30) as i64,
                2 => -(rng.below(1 << 30) as i64),
                _ => (rng.next() >> 2) as i64,
            }),
            _ => Op::Record(rng.below(rem.saturating_add(2).max(1))),
        };
        // advance the generator-side model so later ops stay in the domain
        match &op {
            Op::Record(c) => {
                if (*c as i128) <= m.remaining {
                    m.remaining -= *c as i128;
                }
            }
            Op::Erase(x) => m.remaining += *x as i128,
            Op::Refund(r) => m.refunded += *r as i128,
            Op::FinalRefund(l) => {
                let q = if *l { 5 } else { 2 };
                m.refunded = m.refunded.min((m.limit - m.remaining) / q);
            }
            Op::SpendAll => m.remaining = 0,
            Op::SetSpent(s) => m.remaining = (m.limit - *s as i128).max(0),
            Op::SetRefund(r) => m.refunded = *r as i128,
            Op::New(_) | Op::NewSpent(_) => {}
        }
        ops.push(op);
    }
    ops
}

fn ops_json(ops: &[Op]) -> Value {
    Value::Array(ops.iter().map(|o| json!(format!("{:?}", o))).collect())
}

const OPN: [&str; 9] = ["new", "new_spent", "record_cost", "erase_cost", "record_refund", "set_final_refund", "spend_all", "set_spent", "set_refund"];

fn check_case(ops: &[Op], rep: &mut Report, case_seed: u64, cnt: &mut [u64; 16]) {
    let mut gas = Gas::new(0);
    let mut m = Model { limit: 0, remaining: 0, refunded: 0 };
    let case = || json!({"case_seed": case_seed, "ops": ops_json(ops)});
    for (i, op) in ops.iter().enumerate() {
        let before = gas;
        let name;
        match op {
            Op::New(l) => {
                name = "new";
                cnt[0] += 1;
                gas = Gas::new(*l);
                m = Model { limit: *l as i128, remaining: *l as i128, refunded: 0 };
            }
            Op::NewSpent(l) => {
                name = "new_spent";
                cnt[1] += 1;
                gas = Gas::new_spent(*l);
                m = Model { limit: *l as i128, remaining: 0, refunded: 0 };
            }
            Op::Record(c) => {
                name = "record_cost";
                cnt[2] += 1;
                let ok = gas.record_cost(*c);
                let model_ok = (*c as i128) <= m.remaining;
                if ok != model_ok {
                    rep.violation("C13/record_cost/verdict", format!("op {i}: record_cost({c}) returned {ok}, remaining was {}", m.remaining), case());
                    return;
                }
                if model_ok {
                    m.remaining -= *c as i128;
                    cnt[9] += 1;
                } else {
                    cnt[10] += 1;
                    if gas != before {
                        rep.violation("C13/record_cost/failed-charge-changed-meter", format!("op {i}: failed record_cost({c}) changed meter {:?} -> {:?}", before, gas), case());
                        return;
                    }
                }
            }
            Op::Erase(x) => {
                name = "erase_cost";
                cnt[3] += 1;
                gas.erase_cost(*x);
                m.remaining += *x as i128;
            }
            Op::Refund(r) => {
                name = "record_refund";
                cnt[4] += 1;
                gas.record_refund(*r);
                m.refunded += *r as i128;
            }
            Op::FinalRefund(l) => {
                name = "set_final_refund";
                cnt[5] += 1;
                gas.set_final_refund(*l);
                let q = if *l { 5 } else { 2 };
                m.refunded = m.refunded.min((m.limit - m.remaining) / q);
                cnt[if *l { 11 } else { 12 }] += 1;
            }
            Op::SpendAll => {
                name = "spend_all";
                cnt[6] += 1;
                gas.spend_all();
                m.remaining = 0;
            }
            Op::SetSpent(s) => {
                name = "set_spent";
                cnt[7] += 1;
                gas.set_spent(*s);
                m.remaining = (m.limit - *s as i128).max(0);
            }
            Op::SetRefund(r) => {
                name = "set_refund";
                cnt[8] += 1;
                gas.set_refund(*r);
                m.refunded = *r as i128;
            }
        }
        let bad = |field: &str, got: i128, want: i128, rep: &mut Report| {
            rep.violation(format!("C13/{name}/{field}"), format!("op {i} {:?}: {field} = {got}, model {want}", op), case());
        };
        if gas.limit() as i128 != m.limit {
            bad("limit", gas.limit() as i128, m.limit, rep);
            return;
        }
        if gas.remaining() as i128 != m.remaining {
            bad("remaining", gas.remaining() as i128, m.remaining, rep);
            return;
        }
        if gas.remaining() > gas.limit() {
            bad("remaining-exceeds-limit", gas.remaining() as i128, m.limit, rep);
            return;
        }
        if gas.spent() as i128 != m.limit - m.remaining {
            bad("spent", gas.spent() as i128, m.limit - m.remaining, rep);
            return;
        }
        if gas.refunded() as i128 != m.refunded {
            bad("refunded", gas.refunded() as i128, m.refunded, rep);
            return;
        }
        if gas.remaining_63_of_64_parts() as i128 != m.remaining - m.remaining / 64 {
            bad("remaining_63_of_64", gas.remaining_63_of_64_parts() as i128, m.remaining - m.remaining / 64, rep);
            return;
        }
        if m.refunded >= 0 {
            let want = (m.limit - m.remaining - m.refunded).max(0);
            if gas.spent_sub_refunded() as i128 != want {
                bad("spent_sub_refunded", gas.spent_sub_refunded() as i128, want, rep);
                return;
            }
        }
    }
}

fn flush(rep: &mut Report, cnt: &[u64; 16]) {
    for (i, n) in OPN.iter().enumerate() {
        rep.cell_add("ops", n, cnt[i]);
    }
    rep.add("record_cost_ok", cnt[9]);
    rep.add("record_cost_fail", cnt[10]);
    rep.add("final_refund_q5", cnt[11]);
    rep.add("final_refund_q2", cnt[12]);
}

fn one(case_seed: u64, rep: &mut Report, cnt: &mut [u64; 16]) {
    let mut rng = Rng::new(case_seed);
    let ops = gen_case(&mut rng);
    rep.eval();
    let nontrivial = ops.iter().filter(|o| matches!(o, Op::Record(_))).count() >= 1 && ops.len() >= 4;
    if nontrivial {
        rep.nontrivial(hash64(format!("{:?}", ops).as_bytes()));
    }
    if rep.samples.len() < 4 && nontrivial {
        rep.sample(json!({"case_seed": case_seed, "ops": ops_json(&ops)}));
    }
    let r = guarded(|| {
        let mut local = Report::new();
        check_case(&ops, &mut local, case_seed, cnt);
        local
    });
    match r {
        Ok(l) => {
            if !l.violations.is_empty() {
                rep.merge_light(l)
            }
        }
        Err(p) => report_panic(rep, "C13", &p, json!({"case_seed": case_seed, "ops": ops_json(&ops)})),
    }
}

pub fn run(ctx: &Ctx) -> i32 {
    let mut rep;
    if let Some(path) = &ctx.replay {
        let v: Value = serde_json::from_str(&std::fs::read_to_string(path).expect("replay file")).expect("json");
        let cs = v["case"]["case_seed"].as_u64().expect("case_seed");
        rep = Report::new();
        let mut cnt = [0u64; 16];
        one(cs, &mut rep, &mut cnt);
        flush(&mut rep, &cnt);
        println!("replayed case_seed={cs}: {} violation(s)", rep.violations.len());
    } else {
        let total = ctx.n(1_000_000, 30_000_000);
        let shards = 64usize;
        let per = total / shards as u64;
        rep = par_shards(ctx, shards, |_i, rng, rep| {
            let mut cnt = [0u64; 16];
            for _ in 0..per {
                let cs = rng.next();
                one(cs, rep, &mut cnt);
            }
            flush(rep, &cnt);
        });
        for op in ["new", "new_spent", "record_cost", "erase_cost", "record_refund", "set_final_refund", "spend_all", "set_spent", "set_refund"] {
            let have = rep.table_get("ops", op);
            rep.floor(&format!("op {op}"), have, 100);
        }
        let (a, b) = (rep.counter("record_cost_fail"), rep.counter("record_cost_ok"));
        rep.floor("failed charges", a, 100);
        rep.floor("successful charges", b, 100);
        // online part: the meter of every frame of the generated workloads, watched at every step
        // (remaining never grows inside a frame except by at most what a child was given; remaining
        // never exceeds the limit)
        if ctx.lane != "miri" {
            let mut r2 = super::online_props::run_c13_online(ctx);
            super::online::keep_only(&mut r2, "C13");
            let steps = r2.counter("events/step");
            r2.evaluations = 0;
            rep.merge(r2);
            rep.floor("interpreter steps watched by the online gas monitor", steps, 50_000);
        }
    }
    finish(ctx, rep, Finish {
        level: "exploration",
        rule: "random operation sequences (1..40 ops) on revm_interpreter::Gas against an i128 model; arguments from {0,1,limit±1,remaining±1,2^63,2^64-1,random}; erase_cost only with x <= spent and refund totals >= 0 at set_final_refund (frame discipline); non-trivial = >=4 ops with >=1 charge; distinct by hash of the op list. Online part: on the generated transaction workloads (all SpecIds, EOF containers under OSAKA) the inspector-based monitor reads the meter of every frame at every step and step_end: remaining <= limit, no instruction increases remaining, and after a child frame returns remaining grows by at most the gas that child was given".into(),
        assumptions: vec!["erase_cost beyond what was charged and refund totals outside i64 are outside the property's domain and are not generated".into()],
    })
}
