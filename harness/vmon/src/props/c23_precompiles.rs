//! C23 — every precompile against the independent definitions in pcref.rs, for each pricing fork,
//! at gas limits around the defined cost, directly and through a real CALL.
//! The input stream is also what C24 replays on the alternative back ends.
use crate::evmrun::*;
use crate::fw::*;
use crate::pcref::*;
use crate::world::*;
use num_bigint::BigUint;
use num_traits::{One, Zero};
use revm::precompile::{PrecompileErrors, PrecompileSpecId, Precompiles};
use revm::primitives::{Address, Bytes, Env, SpecId, U256};
use serde_json::{json, Value};

#[derive(Clone, Copy, Debug, PartialEq, Eq, Hash)]
pub enum Pc {
    Ecrecover,
    Sha256,
    Ripemd,
    Identity,
    Modexp,
    BnAdd,
    BnMul,
    BnPair,
    Blake2f,
    Kzg,
    G1Add,
    G1Msm,
    G2Add,
    G2Msm,
    BlsPair,
    MapFp,
    MapFp2,
}
pub const ALL_PC: [Pc; 17] = [
    Pc::Ecrecover, Pc::Sha256, Pc::Ripemd, Pc::Identity, Pc::Modexp, Pc::BnAdd, Pc::BnMul, Pc::BnPair, Pc::Blake2f, Pc::Kzg, Pc::G1Add, Pc::G1Msm, Pc::G2Add, Pc::G2Msm, Pc::BlsPair, Pc::MapFp, Pc::MapFp2,
];

impl Pc {
    pub fn addr(self) -> u8 {
        match self {
            Pc::Ecrecover => 1,
            Pc::Sha256 => 2,
            Pc::Ripemd => 3,
            Pc::Identity => 4,
            Pc::Modexp => 5,
            Pc::BnAdd => 6,
            Pc::BnMul => 7,
            Pc::BnPair => 8,
            Pc::Blake2f => 9,
            Pc::Kzg => 0x0a,
            Pc::G1Add => 0x0b,
            Pc::G1Msm => 0x0c,
            Pc::G2Add => 0x0d,
            Pc::G2Msm => 0x0e,
            Pc::BlsPair => 0x0f,
            Pc::MapFp => 0x10,
            Pc::MapFp2 => 0x11,
        }
    }
    pub fn name(self) -> &'static str {
        match self {
            Pc::Ecrecover => "ecrecover",
            Pc::Sha256 => "sha256",
            Pc::Ripemd => "ripemd160",
            Pc::Identity => "identity",
            Pc::Modexp => "modexp",
            Pc::BnAdd => "bn254-add",
            Pc::BnMul => "bn254-mul",
            Pc::BnPair => "bn254-pairing",
            Pc::Blake2f => "blake2f",
            Pc::Kzg => "kzg-point-evaluation",
            Pc::G1Add => "bls-g1add",
            Pc::G1Msm => "bls-g1msm",
            Pc::G2Add => "bls-g2add",
            Pc::G2Msm => "bls-g2msm",
            Pc::BlsPair => "bls-pairing",
            Pc::MapFp => "bls-map-fp-to-g1",
            Pc::MapFp2 => "bls-map-fp2-to-g2",
        }
    }
    pub fn from_name(n: &str) -> Option<Pc> {
        ALL_PC.iter().copied().find(|p| p.name() == n)
    }
    /// pricing forks in which it exists (first = introduction)
    pub fn forks(self) -> Vec<(PrecompileSpecId, SpecId, &'static str)> {
        use PrecompileSpecId as P;
        let all = [
            (P::HOMESTEAD, SpecId::HOMESTEAD, "HOMESTEAD"),
            (P::BYZANTIUM, SpecId::BYZANTIUM, "BYZANTIUM"),
            (P::ISTANBUL, SpecId::ISTANBUL, "ISTANBUL"),
            (P::BERLIN, SpecId::BERLIN, "BERLIN"),
            (P::CANCUN, SpecId::CANCUN, "CANCUN"),
            (P::PRAGUE, SpecId::PRAGUE, "PRAGUE"),
        ];
        let from = match self {
            Pc::Ecrecover | Pc::Sha256 | Pc::Ripemd | Pc::Identity => 0,
            Pc::Modexp | Pc::BnAdd | Pc::BnMul | Pc::BnPair => 1,
            Pc::Blake2f => 2,
            Pc::Kzg => 4,
            _ => 5,
        };
        all[from..].to_vec()
    }
}

/// what the generator knows about the input by construction
#[derive(Clone, Debug, Default)]
pub struct Hint {
    pub pairing: Option<bool>,
    pub kzg_constant: Option<BigUint>,
    pub ecrecover_addr: Option<[u8; 20]>,
    pub class: &'static str,
}

pub fn reference(pc: Pc, fork: &str, input: &[u8], hint: &Hint) -> RefOut {
    let istanbul = !matches!(fork, "BYZANTIUM");
    match pc {
        Pc::Ecrecover => ref_ecrecover(input),
        Pc::Sha256 => ref_sha256(input),
        Pc::Ripemd => ref_ripemd160(input),
        Pc::Identity => ref_identity(input),
        Pc::Modexp => ref_modexp(input, if matches!(fork, "BYZANTIUM" | "ISTANBUL") { ModexpFork::Byzantium } else { ModexpFork::Berlin }),
        Pc::BnAdd => ref_bn_add(input, istanbul),
        Pc::BnMul => ref_bn_mul(input, istanbul),
        Pc::BnPair => ref_bn_pairing(input, istanbul, hint.pairing),
        Pc::Blake2f => ref_blake2f(input),
        Pc::Kzg => ref_kzg(input, hint.kzg_constant.as_ref()),
        Pc::G1Add => ref_bls_g1add(input),
        Pc::G1Msm => ref_bls_g1msm(input),
        Pc::G2Add => ref_bls_g2add(input),
        Pc::G2Msm => ref_bls_g2msm(input),
        Pc::BlsPair => ref_bls_pairing(input, hint.pairing),
        Pc::MapFp => ref_bls_map_fp(input),
        Pc::MapFp2 => ref_bls_map_fp2(input),
    }
}

// ------------------------------------------------------------------------------------------------
// point pools (built once per thread; scalar multiplication with BigUint is slow)
// ------------------------------------------------------------------------------------------------
pub struct Pools {
    pub bn_g1: Vec<(u64, P1)>,
    pub bn_g2: Vec<(u64, P2)>,
    pub bls_g1: Vec<(u64, P1)>,
    pub bls_g2: Vec<(u64, P2)>,
}
impl Pools {
    pub fn new() -> Pools {
        let (c1, g1, c2, g2) = bn254();
        let mut bn_g1 = vec![];
        let mut acc: P1 = None;
        for k in 1..=12u64 {
            acc = c1.add(&acc, &g1);
            bn_g1.push((k, acc.clone()));
        }
        let mut bn_g2 = vec![];
        let mut acc: P2 = None;
        for k in 1..=8u64 {
            acc = c2.add(&acc, &g2);
            bn_g2.push((k, acc.clone()));
        }
        let (d1, h1, d2, h2) = bls12_381();
        let mut bls_g1 = vec![];
        let mut acc: P1 = None;
        for k in 1..=12u64 {
            acc = d1.add(&acc, &h1);
            bls_g1.push((k, acc.clone()));
        }
        let mut bls_g2 = vec![];
        let mut acc: P2 = None;
        for k in 1..=8u64 {
            acc = d2.add(&acc, &h2);
            bls_g2.push((k, acc.clone()));
        }
        Pools { bn_g1, bn_g2, bls_g1, bls_g2 }
    }
}

fn fp2_sqrt(c: &Curve2, a: &F2) -> Option<F2> {
    let p = &c.p;
    let e = (p + BigUint::one()) >> 2;
    let sq = |x: &BigUint| -> Option<BigUint> {
        let y = x.modpow(&e, p);
        if &y * &y % p == x % p { Some(y) } else { None }
    };
    if a.1.is_zero() {
        if let Some(y) = sq(&a.0) {
            return Some((y, BigUint::zero()));
        }
        let neg = (p - &a.0 % p) % p;
        return sq(&neg).map(|y| (BigUint::zero(), y));
    }
    let norm = (&a.0 * &a.0 + &a.1 * &a.1) % p;
    let n = sq(&norm)?;
    let two_inv = BigUint::from(2u8).modinv(p)?;
    for cand in [(&a.0 + &n) % p, (&a.0 + p - &n) % p] {
        let half = &cand * &two_inv % p;
        if let Some(x0) = sq(&half) {
            if x0.is_zero() {
                continue;
            }
            let x1 = &a.1 * (BigUint::from(2u8) * &x0 % p).modinv(p)? % p;
            let r = (x0, x1);
            if c.f_mul(&r, &r) == (&a.0 % p, &a.1 % p) {
                return Some(r);
            }
        }
    }
    None
}

/// a point on the curve that is (almost surely) outside the prime-order subgroup
fn g2_off_subgroup(c: &Curve2, rng: &mut Rng) -> P2 {
    for _ in 0..50 {
        let x = (be(&rng.b32()) % &c.p, be(&rng.b32()) % &c.p);
        let rhs = c.f_add(&c.f_mul(&c.f_mul(&x, &x), &x), &c.b);
        if let Some(y) = fp2_sqrt(c, &rhs) {
            return Some((x, y));
        }
    }
    None
}
fn g1_any_on_curve(c: &Curve, rng: &mut Rng) -> P1 {
    for _ in 0..50 {
        let mut b = rng.bytes(48);
        b[0] &= 0x0f;
        let x = be(&b) % &c.p;
        if let Some(y) = c.lift_x(&x) {
            return Some((x, y));
        }
    }
    None
}

fn scalar(rng: &mut Rng, r: &BigUint) -> BigUint {
    match rng.below(9) {
        0 => BigUint::zero(),
        1 => BigUint::one(),
        2 => r - BigUint::one(),
        3 => r.clone(),
        4 => r + BigUint::one(),
        5 => (BigUint::one() << 256) - BigUint::one(),
        6 => BigUint::from(rng.below(50)),
        _ => be(&rng.b32()),
    }
}

fn lens(rng: &mut Rng) -> usize {
    *rng.pick(&[0usize, 1, 31, 32, 33, 55, 56, 57, 63, 64, 65, 95, 96, 97, 119, 120, 127, 128, 129, 191, 192, 193, 212, 213, 214, 255, 256, 257, 1000, 4096, 10_000])
}

fn mangle(rng: &mut Rng, mut v: Vec<u8>) -> (Vec<u8>, &'static str) {
    match rng.below(5) {
        0 => {
            let n = rng.usize(v.len() + 1);
            v.truncate(n);
            (v, "truncated")
        }
        1 => {
            let n = 1 + rng.usize(40);
            v.extend(rng.bytes(n));
            (v, "extended")
        }
        2 if !v.is_empty() => {
            let i = rng.usize(v.len());
            v[i] ^= 1 << rng.below(8);
            (v, "bit-flipped")
        }
        3 if !v.is_empty() => {
            let i = rng.usize(v.len());
            v[i] = 0xff;
            (v, "byte-set")
        }
        _ => (v, "as-built"),
    }
}

pub fn gen_input(pc: Pc, rng: &mut Rng, pools: &Pools) -> (Vec<u8>, Hint) {
    let mut hint = Hint::default();
    let input: Vec<u8> = match pc {
        Pc::Sha256 | Pc::Ripemd | Pc::Identity => {
            hint.class = "bytes";
            let n = if rng.chance(1, 2) { lens(rng) } else { rng.usize(300) };
            rng.bytes(n)
        }
        Pc::Ecrecover => {
            let (k, _) = secp256k1();
            let n = k.r.clone();
            let h = rng.b32();
            let key = be(&rng.b32()) % (&n - BigUint::one()) + BigUint::one();
            let nonce = be(&rng.b32()) % (&n - BigUint::one()) + BigUint::one();
            let mut out = h.to_vec();
            match rng.below(12) {
                0..=3 => {
                    if let Some((r, s, v, a)) = sign(&h, &key, &nonce) {
                        hint.ecrecover_addr = Some(a);
                        hint.class = "valid-signature";
                        let (mut s, mut v) = (s, v);
                        if rng.chance(1, 3) {
                            // the high-s twin recovers the same key
                            s = &n - &s;
                            v = if v == 27 { 28 } else { 27 };
                            hint.class = "valid-signature-high-s-twin";
                        }
                        out.extend_from_slice(&to_be(&BigUint::from(v), 32));
                        out.extend_from_slice(&to_be(&r, 32));
                        out.extend_from_slice(&to_be(&s, 32));
                        if rng.chance(1, 4) {
                            let extra = rng.bytes_below(40);
                            out.extend(extra);
                        }
                    }
                    out
                }
                4 => {
                    // wrong v values, dirty padding
                    let (r, s, _, _) = sign(&h, &key, &nonce).unwrap_or((BigUint::one(), BigUint::one(), 27, [0; 20]));
                    let mut vw = [0u8; 32];
                    match rng.below(4) {
                        0 => vw[31] = *rng.pick(&[0u8, 1, 26, 29, 255]),
                        1 => {
                            vw[31] = 27;
                            vw[rng.usize(31)] = 1;
                        }
                        2 => {
                            vw[31] = 28;
                            vw[0] = 0x80;
                        }
                        _ => vw = rng.b32(),
                    }
                    hint.class = "bad-v";
                    out.extend_from_slice(&vw);
                    out.extend_from_slice(&to_be(&r, 32));
                    out.extend_from_slice(&to_be(&s, 32));
                    out
                }
                5 | 6 => {
                    // r / s at the group-order boundaries
                    let pick = |rng: &mut Rng| -> BigUint {
                        match rng.below(7) {
                            0 => BigUint::zero(),
                            1 => &n - BigUint::one(),
                            2 => n.clone(),
                            3 => &n + BigUint::one(),
                            4 => (BigUint::one() << 256) - BigUint::one(),
                            5 => k.p.clone(),
                            _ => BigUint::one(),
                        }
                    };
                    hint.class = "boundary-r-s";
                    out.extend_from_slice(&to_be(&BigUint::from(27 + rng.below(2)), 32));
                    let r = if rng.chance(1, 2) { pick(rng) } else { be(&rng.b32()) };
                    let s = if rng.chance(1, 2) { pick(rng) } else { be(&rng.b32()) };
                    out.extend_from_slice(&to_be(&r, 32));
                    out.extend_from_slice(&to_be(&s, 32));
                    out
                }
                7 => {
                    hint.class = "swapped-v";
                    if let Some((r, s, v, _)) = sign(&h, &key, &nonce) {
                        out.extend_from_slice(&to_be(&BigUint::from(if v == 27 { 28u8 } else { 27 }), 32));
                        out.extend_from_slice(&to_be(&r, 32));
                        out.extend_from_slice(&to_be(&s, 32));
                    }
                    out
                }
                8 => {
                    hint.class = "short-input";
                    if let Some((r, s, v, _)) = sign(&h, &key, &nonce) {
                        out.extend_from_slice(&to_be(&BigUint::from(v), 32));
                        out.extend_from_slice(&to_be(&r, 32));
                        out.extend_from_slice(&to_be(&s, 32));
                    }
                    let n = rng.usize(out.len() + 1);
                    out.truncate(n);
                    out
                }
                _ => {
                    hint.class = "random-128";
                    let mut v = rng.bytes(128);
                    for b in v[32..63].iter_mut() {
                        *b = 0;
                    }
                    v[63] = 27 + (rng.below(2) as u8);
                    v
                }
            }
        }
        Pc::Modexp => {
            let special = |rng: &mut Rng| -> BigUint {
                match rng.below(14) {
                    0 => BigUint::zero(),
                    1 => BigUint::one(),
                    2 => BigUint::from(31u8),
                    3 => BigUint::from(32u8),
                    4 => BigUint::from(33u8),
                    5 => BigUint::from(64u8),
                    6 => BigUint::from(65u8),
                    7 => BigUint::from(1024u16),
                    8 => BigUint::from(1025u16),
                    9 => BigUint::one() << 32,
                    10 => (BigUint::one() << 64) - BigUint::one(),
                    11 => BigUint::one() << 64,
                    12 => (BigUint::one() << 256) - BigUint::one(),
                    _ => BigUint::from(rng.below(100)),
                }
            };
            let (bl, el, ml) = if rng.chance(2, 3) {
                hint.class = "small-lengths";
                (BigUint::from(rng.below(70)), BigUint::from(rng.below(70)), BigUint::from(rng.below(70)))
            } else {
                hint.class = "boundary-lengths";
                (special(rng), special(rng), special(rng))
            };
            let mut v = to_be(&bl, 32);
            v.extend_from_slice(&to_be(&el, 32));
            v.extend_from_slice(&to_be(&ml, 32));
            let body_len = match (u64::try_from(bl.clone()), u64::try_from(el.clone()), u64::try_from(ml.clone())) {
                (Ok(a), Ok(b), Ok(c)) if a.saturating_add(b).saturating_add(c) < 4000 => (a + b + c) as usize,
                _ => rng.usize(200),
            };
            let mut body = rng.bytes(body_len);
            // interesting values: zero modulus, zero exponent, leading zeros in the exponent
            if rng.chance(1, 6) {
                for b in body.iter_mut() {
                    *b = 0;
                }
            } else if rng.chance(1, 5) {
                let (Ok(a), Ok(b)) = (usize::try_from(bl.clone()), usize::try_from(el.clone())) else { return (v, hint) };
                for i in a.min(body.len())..a.saturating_add(b / 2).min(body.len()) {
                    body[i] = 0;
                }
            }
            if rng.chance(1, 4) {
                let n = rng.usize(body.len() + 1);
                body.truncate(n);
            }
            v.extend(body);
            if rng.chance(1, 10) {
                let n = rng.usize(97);
                v.truncate(n);
                hint.class = "truncated-header";
            }
            v
        }
        Pc::BnAdd | Pc::BnMul => {
            let (c, _, _, _) = bn254();
            let pt = |rng: &mut Rng| -> Vec<u8> {
                match rng.below(10) {
                    0 => vec![0u8; 64],
                    1 => {
                        // coordinate not reduced
                        let (_, p) = rng.pick(&pools.bn_g1).clone();
                        let (x, y) = p.unwrap();
                        let mut o = to_be(&(&x + &c.p), 32);
                        o.extend_from_slice(&to_be(&y, 32));
                        o
                    }
                    2 => {
                        // not on the curve
                        let mut o = to_be(&BigUint::from(rng.below(1000) + 3), 32);
                        o.extend_from_slice(&to_be(&BigUint::from(rng.below(1000) + 3), 32));
                        o
                    }
                    3 => rng.bytes(64),
                    4 => {
                        let (_, p) = rng.pick(&pools.bn_g1).clone();
                        bn_write_g1(&c.neg(&p))
                    }
                    _ => {
                        let (_, p) = rng.pick(&pools.bn_g1).clone();
                        bn_write_g1(&p)
                    }
                }
            };
            let mut v = pt(rng);
            if pc == Pc::BnAdd {
                let second = if rng.chance(1, 6) { v.clone() } else { pt(rng) };
                v.extend(second);
            } else {
                v.extend_from_slice(&to_be(&scalar(rng, &c.r), 32));
            }
            let (v, cl) = if rng.chance(1, 4) { mangle(rng, v) } else { (v, "as-built") };
            hint.class = cl;
            v
        }
        Pc::BnPair => {
            let (c1, _, c2, _) = bn254();
            let kind = rng.below(10);
            let mut v = vec![];
            let pair = |p: &P1, q: &P2| -> Vec<u8> {
                let mut o = bn_write_g1(p);
                o.extend_from_slice(&bn_write_g2(q));
                o
            };
            match kind {
                0 => {
                    hint.class = "empty";
                    hint.pairing = Some(true);
                }
                1 | 2 => {
                    // e(aP, bQ) e(-(ab)P, Q) = 1
                    let (a, pa) = rng.pick(&pools.bn_g1).clone();
                    let (b, qb) = rng.pick(&pools.bn_g2).clone();
                    let (_, g1, _, g2) = bn254();
                    let m = c1.neg(&c1.mul(&g1, &BigUint::from(a * b)));
                    v.extend(pair(&pa, &qb));
                    v.extend(pair(&m, &g2));
                    hint.pairing = Some(true);
                    hint.class = "product-is-one";
                }
                3 => {
                    let (_, pa) = rng.pick(&pools.bn_g1).clone();
                    let (_, qb) = rng.pick(&pools.bn_g2).clone();
                    v.extend(pair(&pa, &qb));
                    hint.pairing = Some(false);
                    hint.class = "single-non-degenerate";
                }
                4 => {
                    // infinity on either side contributes 1
                    let (_, pa) = rng.pick(&pools.bn_g1).clone();
                    let (_, qb) = rng.pick(&pools.bn_g2).clone();
                    v.extend(pair(&None, &qb));
                    v.extend(pair(&pa, &None));
                    hint.pairing = Some(true);
                    hint.class = "infinities";
                }
                5 => {
                    // e(aP,Q) e(bP,Q) with a + b != 0
                    let (a, pa) = rng.pick(&pools.bn_g1).clone();
                    let (b, pb) = rng.pick(&pools.bn_g1).clone();
                    let (_, q) = rng.pick(&pools.bn_g2).clone();
                    v.extend(pair(&pa, &q));
                    v.extend(pair(&pb, &q));
                    let _ = (a, b);
                    hint.pairing = Some(false);
                    hint.class = "product-not-one";
                }
                6 => {
                    if let Some(q) = g2_off_subgroup(&c2, rng) {
                        let (_, pa) = rng.pick(&pools.bn_g1).clone();
                        v.extend(pair(&pa, &Some(q)));
                    }
                    hint.class = "g2-outside-subgroup";
                }
                7 => {
                    let (_, pa) = rng.pick(&pools.bn_g1).clone();
                    let (_, qb) = rng.pick(&pools.bn_g2).clone();
                    let mut o = pair(&pa, &qb);
                    let i = 64 + rng.usize(128);
                    o[i] ^= 1;
                    v.extend(o);
                    hint.class = "g2-corrupted";
                }
                8 => {
                    let (_, pa) = rng.pick(&pools.bn_g1).clone();
                    let (_, qb) = rng.pick(&pools.bn_g2).clone();
                    v.extend(pair(&pa, &qb));
                    let n = rng.usize(v.len());
                    v.truncate(n);
                    hint.class = "bad-length";
                }
                _ => {
                    let n = 192 * rng.usize(3);
                    v = rng.bytes(n);
                    hint.class = "random";
                }
            }
            v
        }
        Pc::Blake2f => {
            let mut v = rng.bytes(213);
            let rounds: u32 = match rng.below(6) {
                0 => 0,
                1 => 1,
                2 => 12,
                3 => 1 << 16,
                _ => rng.below(40) as u32,
            };
            v[0..4].copy_from_slice(&rounds.to_be_bytes());
            v[212] = match rng.below(6) {
                0 => 2,
                1 => 255,
                2 | 3 => 1,
                _ => 0,
            };
            hint.class = "213-bytes";
            if rng.chance(1, 6) {
                let n = *rng.pick(&[0usize, 1, 212, 214, 300]);
                v.resize(n, 7);
                hint.class = "wrong-length";
            }
            v
        }
        Pc::Kzg => {
            let (c, g, _, _) = bls12_381();
            let m = bls_modulus();
            let cst = match rng.below(4) {
                0 => BigUint::zero(),
                1 => BigUint::from(rng.below(1000)),
                _ => be(&rng.b32()) % &m,
            };
            // commitment to the constant polynomial c: c * G1; opening proof at any z: infinity
            let commitment = bls_compress_g1(&c.mul(&g, &cst));
            let proof = bls_compress_g1(&None);
            let mut vh = sha256(&commitment);
            vh[0] = 1;
            let mut z = be(&rng.b32()) % &m;
            let mut y = cst.clone();
            hint.kzg_constant = Some(cst.clone());
            hint.class = "constant-polynomial-valid";
            let mut vhv = vh.to_vec();
            let mut proofv = proof.clone();
            match rng.below(9) {
                0 => {
                    y = (&cst + BigUint::one()) % &m;
                    hint.class = "constant-polynomial-wrong-y";
                }
                1 => {
                    vhv[rng.usize(32)] ^= 1;
                    hint.class = "wrong-versioned-hash";
                }
                2 => {
                    z = m.clone() + BigUint::from(rng.below(3));
                    hint.class = "z-not-canonical";
                }
                3 => {
                    // y not canonical: also not equal to c as an integer
                    y = &cst + &m;
                    if y.bits() > 256 {
                        y = m.clone();
                    }
                    hint.class = "y-not-canonical";
                }
                4 => {
                    // some other proof: verdict unknown here (and compared across back ends by C24)
                    let (_, pk) = rng.pick(&pools.bls_g1).clone();
                    proofv = bls_compress_g1(&pk);
                    hint.kzg_constant = None;
                    hint.class = "other-proof";
                }
                _ => {}
            }
            let mut v = vhv;
            v.extend_from_slice(&to_be(&z, 32));
            v.extend_from_slice(&to_be(&y, 32));
            v.extend_from_slice(&commitment);
            v.extend_from_slice(&proofv);
            if rng.chance(1, 10) {
                let n = *rng.pick(&[0usize, 191, 193, 96]);
                v.resize(n, 0);
                hint.class = "wrong-length";
            }
            if rng.chance(1, 12) {
                // garbage commitment (with a matching versioned hash)
                let cm = rng.bytes(48);
                let mut vh = sha256(&cm);
                vh[0] = 1;
                let mut w = vh.to_vec();
                w.extend_from_slice(&to_be(&z, 32));
                w.extend_from_slice(&to_be(&y, 32));
                w.extend_from_slice(&cm);
                w.extend_from_slice(&proof);
                v = w;
                hint.kzg_constant = None;
                hint.class = "garbage-commitment";
            }
            v
        }
        Pc::G1Add | Pc::G1Msm => {
            let (c, _, _, _) = bls12_381();
            let pt = |rng: &mut Rng| -> Vec<u8> {
                match rng.below(10) {
                    0 => vec![0u8; 128],
                    1 => {
                        let (_, p) = rng.pick(&pools.bls_g1).clone();
                        let (x, y) = p.unwrap();
                        let mut o = to_be(&(&x + &c.p), 64);
                        o.extend_from_slice(&to_be(&y, 64));
                        o
                    }
                    2 => {
                        let (_, p) = rng.pick(&pools.bls_g1).clone();
                        let mut o = bls_write_g1(&p);
                        o[rng.usize(16)] = 1; // dirty padding
                        o
                    }
                    3 => bls_write_g1(&g1_any_on_curve(&c, rng)), // on curve, (almost surely) outside the subgroup
                    4 => {
                        let mut o = bls_write_g1(&rng.pick(&pools.bls_g1).1.clone());
                        o[127] ^= 1;
                        o
                    }
                    _ => bls_write_g1(&rng.pick(&pools.bls_g1).1.clone()),
                }
            };
            if pc == Pc::G1Add {
                let mut v = pt(rng);
                let second = if rng.chance(1, 6) { v.clone() } else { pt(rng) };
                v.extend(second);
                if rng.chance(1, 8) {
                    let (v2, cl) = mangle(rng, v);
                    hint.class = cl;
                    v2
                } else {
                    hint.class = "two-points";
                    v
                }
            } else {
                let k = match rng.below(8) {
                    0 => 0,
                    1 => 128 + rng.usize(3),
                    2 => 2 + rng.usize(6),
                    _ => 1 + rng.usize(2),
                };
                let mut v = vec![];
                for _ in 0..k {
                    // large k: cheap valid points only
                    if k > 8 {
                        v.extend(bls_write_g1(&rng.pick(&pools.bls_g1).1.clone()));
                        v.extend_from_slice(&to_be(&BigUint::from(rng.below(4)), 32));
                    } else {
                        v.extend(pt(rng));
                        v.extend_from_slice(&to_be(&scalar(rng, &c.r), 32));
                    }
                }
                hint.class = "k-pairs";
                if rng.chance(1, 10) {
                    let (v2, cl) = mangle(rng, v);
                    hint.class = cl;
                    v2
                } else {
                    v
                }
            }
        }
        Pc::G2Add | Pc::G2Msm => {
            let (_, _, c, _) = bls12_381();
            let pt = |rng: &mut Rng| -> Vec<u8> {
                match rng.below(10) {
                    0 => vec![0u8; 256],
                    1 => {
                        let (_, p) = rng.pick(&pools.bls_g2).clone();
                        let (x, y) = p.unwrap();
                        let mut o = bls_write_g2(&Some((x.clone(), y)));
                        o[0..64].copy_from_slice(&to_be(&(&x.0 + &c.p), 64));
                        o
                    }
                    2 => {
                        let mut o = bls_write_g2(&rng.pick(&pools.bls_g2).1.clone());
                        o[64 + rng.usize(16)] = 1;
                        o
                    }
                    3 => bls_write_g2(&g2_off_subgroup(&c, rng)),
                    4 => {
                        let mut o = bls_write_g2(&rng.pick(&pools.bls_g2).1.clone());
                        o[255] ^= 1;
                        o
                    }
                    _ => bls_write_g2(&rng.pick(&pools.bls_g2).1.clone()),
                }
            };
            if pc == Pc::G2Add {
                let mut v = pt(rng);
                let second = if rng.chance(1, 6) { v.clone() } else { pt(rng) };
                v.extend(second);
                hint.class = "two-points";
                if rng.chance(1, 8) {
                    let (v2, cl) = mangle(rng, v);
                    hint.class = cl;
                    v2
                } else {
                    v
                }
            } else {
                let k = match rng.below(8) {
                    0 => 0,
                    1 => 128 + rng.usize(3),
                    2 => 2 + rng.usize(4),
                    _ => 1 + rng.usize(2),
                };
                let mut v = vec![];
                for _ in 0..k {
                    if k > 6 {
                        v.extend(bls_write_g2(&rng.pick(&pools.bls_g2).1.clone()));
                        v.extend_from_slice(&to_be(&BigUint::from(rng.below(4)), 32));
                    } else {
                        v.extend(pt(rng));
                        v.extend_from_slice(&to_be(&scalar(rng, &c.r), 32));
                    }
                }
                hint.class = "k-pairs";
                if rng.chance(1, 10) {
                    let (v2, cl) = mangle(rng, v);
                    hint.class = cl;
                    v2
                } else {
                    v
                }
            }
        }
        Pc::BlsPair => {
            let (c1, g1, c2, g2) = bls12_381();
            let pair = |p: &P1, q: &P2| -> Vec<u8> {
                let mut o = bls_write_g1(p);
                o.extend_from_slice(&bls_write_g2(q));
                o
            };
            let mut v = vec![];
            match rng.below(9) {
                0 | 1 => {
                    let (a, pa) = rng.pick(&pools.bls_g1).clone();
                    let (b, qb) = rng.pick(&pools.bls_g2).clone();
                    let m = c1.neg(&c1.mul(&g1, &BigUint::from(a * b)));
                    v.extend(pair(&pa, &qb));
                    v.extend(pair(&m, &g2));
                    hint.pairing = Some(true);
                    hint.class = "product-is-one";
                }
                2 => {
                    v.extend(pair(&rng.pick(&pools.bls_g1).1.clone(), &rng.pick(&pools.bls_g2).1.clone()));
                    hint.pairing = Some(false);
                    hint.class = "single-non-degenerate";
                }
                3 => {
                    v.extend(pair(&None, &rng.pick(&pools.bls_g2).1.clone()));
                    v.extend(pair(&rng.pick(&pools.bls_g1).1.clone(), &None));
                    hint.pairing = Some(true);
                    hint.class = "infinities";
                }
                4 => {
                    v.extend(pair(&g1_any_on_curve(&c1, rng), &g2));
                    hint.class = "g1-outside-subgroup";
                }
                5 => {
                    v.extend(pair(&g1, &g2_off_subgroup(&c2, rng)));
                    hint.class = "g2-outside-subgroup";
                }
                6 => {
                    hint.class = "empty";
                }
                7 => {
                    v.extend(pair(&g1, &g2));
                    let n = rng.usize(v.len());
                    v.truncate(n);
                    hint.class = "bad-length";
                }
                _ => {
                    let mut o = pair(&rng.pick(&pools.bls_g1).1.clone(), &rng.pick(&pools.bls_g2).1.clone());
                    let i = rng.usize(o.len());
                    o[i] ^= 1;
                    v.extend(o);
                    hint.class = "corrupted";
                }
            }
            v
        }
        Pc::MapFp | Pc::MapFp2 => {
            let (c, _, _, _) = bls12_381();
            let fp = |rng: &mut Rng| -> Vec<u8> {
                match rng.below(8) {
                    0 => to_be(&c.p, 64),
                    1 => to_be(&(&c.p - BigUint::one()), 64),
                    2 => vec![0u8; 64],
                    3 => {
                        let mut o = to_be(&BigUint::from(5u8), 64);
                        o[rng.usize(16)] = 1;
                        o
                    }
                    4 => rng.bytes(64),
                    _ => {
                        let mut b = rng.bytes(48);
                        b[0] &= 0x0f;
                        to_be(&(be(&b) % &c.p), 64)
                    }
                }
            };
            let mut v = fp(rng);
            if pc == Pc::MapFp2 {
                v.extend(fp(rng));
            }
            hint.class = "field-element";
            if rng.chance(1, 10) {
                let (v2, cl) = mangle(rng, v);
                hint.class = cl;
                v2
            } else {
                v
            }
        }
    };
    (input, hint)
}

/// the real precompile's answer, flattened
#[derive(Clone, Debug, PartialEq)]
pub enum Real {
    Ok { gas: u64, out: Vec<u8> },
    Oog,
    Err(String),
    Fatal(String),
    Missing,
}
impl Real {
    pub fn to_json(&self) -> Value {
        match self {
            Real::Ok { gas, out } => json!({"ok": {"gas": gas, "out": hex(out)}}),
            Real::Oog => json!("out-of-gas"),
            Real::Err(e) => json!({"error": e}),
            Real::Fatal(e) => json!({"fatal": e}),
            Real::Missing => json!("no-precompile"),
        }
    }
    pub fn class(&self) -> &'static str {
        match self {
            Real::Ok { .. } => "ok",
            Real::Oog => "oog",
            Real::Err(_) => "error",
            Real::Fatal(_) => "fatal",
            Real::Missing => "missing",
        }
    }
}

pub fn call_real(pc: Pc, ps: PrecompileSpecId, input: &[u8], gas: u64) -> Real {
    let pcs = Precompiles::new(ps);
    let mut a = [0u8; 20];
    a[19] = pc.addr();
    let Some(p) = pcs.get(&Address::from(a)) else { return Real::Missing };
    match p.call_ref(&Bytes::copy_from_slice(input), gas, &Env::default()) {
        Ok(o) => Real::Ok { gas: o.gas_used, out: o.bytes.to_vec() },
        Err(PrecompileErrors::Error(e)) => {
            if e.is_oog() {
                Real::Oog
            } else {
                Real::Err(format!("{e:?}").split('(').next().unwrap_or("").to_string())
            }
        }
        Err(PrecompileErrors::Fatal { msg }) => Real::Fatal(msg),
    }
}

fn compare(pc: Pc, fork: &str, input: &[u8], hint: &Hint, limit: u64, r: &RefOut, real: &Real, rep: &mut Report) {
    let case = || json!({"precompile": pc.name(), "fork": fork, "input": hex(input), "gas_limit": limit.to_string(), "class": hint.class, "reference": format!("{:?}", r.val).chars().take(300).collect::<String>(), "reference_gas": r.gas, "real": real.to_json()});
    let sig = |what: &str| format!("C23/{}/{}/{}", pc.name(), what, fork);
    rep.count("comparisons");
    match real {
        Real::Missing => rep.violation(sig("precompile-missing"), "no precompile at the address in this fork".to_string(), case()),
        Real::Fatal(m) => rep.violation(sig("fatal-error"), format!("fatal precompile error: {m}"), case()),
        _ => {}
    }
    let affordable = r.gas.map(|g| g <= limit);
    match (&r.val, real) {
        (RefVal::Output(want), Real::Ok { gas, out }) => {
            if affordable == Some(false) {
                rep.violation(sig("succeeds-below-defined-cost"), format!("defined cost {} > limit {} but the call succeeded (gas_used {})", r.gas.unwrap(), limit, gas), case());
            } else if Some(*gas) != r.gas {
                rep.violation(sig("gas-differs"), format!("gas_used {} vs defined {:?}", gas, r.gas), case());
            } else if out != want {
                rep.violation(sig("output-differs"), format!("output {} vs defined {}", hex(out).chars().take(140).collect::<String>(), hex(want).chars().take(140).collect::<String>()), case());
            }
        }
        (RefVal::Output(_), Real::Oog) => {
            if affordable == Some(true) {
                rep.violation(sig("out-of-gas-with-enough-gas"), format!("defined cost {:?} <= limit {limit} but out of gas was reported", r.gas), case());
            }
        }
        (RefVal::Output(_), Real::Err(e)) => {
            if affordable != Some(false) {
                rep.violation(sig("fails-on-valid-input"), format!("error {e} where the definition gives an output"), case());
            } else {
                // below the cost the failure must be out-of-gas
                rep.violation(sig("wrong-error-below-cost"), format!("limit below the defined cost must report out of gas, got {e}"), case());
            }
        }
        (RefVal::Fail, Real::Ok { gas, out }) => {
            rep.violation(sig("succeeds-on-invalid-input"), format!("the definition fails but the call returned {} bytes (gas {gas})", out.len()), case());
        }
        (RefVal::Fail, _) => {}
        (RefVal::Unknown, Real::Ok { gas, .. }) => {
            if let Some(g) = r.gas {
                if *gas != g {
                    rep.violation(sig("gas-differs"), format!("gas_used {} vs defined {}", gas, g), case());
                }
                if g > limit {
                    rep.violation(sig("succeeds-below-defined-cost"), format!("defined cost {g} > limit {limit} but the call succeeded"), case());
                }
            }
        }
        (RefVal::Unknown, _) => {}
        _ => {}
    }
}

/// structural checks for outputs the definition does not compute (map-to-curve)
fn check_map_output(pc: Pc, fork: &str, input: &[u8], real: &Real, rep: &mut Report) {
    let Real::Ok { out, .. } = real else { return };
    let case = || json!({"precompile": pc.name(), "fork": fork, "input": hex(input), "real": real.to_json()});
    let ok = if pc == Pc::MapFp { out.len() == 128 && matches!(bls_read_g1(out, true), Ok(Some(_))) } else { out.len() == 256 && matches!(bls_read_g2(out, true), Ok(Some(_))) };
    if !ok {
        rep.violation(format!("C23/{}/output-not-in-group/{fork}", pc.name()), "map-to-curve output is not a point of the prime-order subgroup".to_string(), case());
    }
    rep.count("map_outputs_checked_for_group_membership");
}

/// contract: CALL(gas_arg, addr, 0, in=calldata, out=none); returns success(32) ++ returndata
fn caller_contract(addr: u8, gas_arg: u64) -> Vec<u8> {
    let mut a = Asm::new();
    // calldatacopy(0, 0, calldatasize)
    a.op(0x36).push_u(0).push_u(0).op(0x37);
    // call
    a.push_u(0).push_u(0).op(0x36).push_u(0).push_u(0).push_u(addr as u64).push_u(gas_arg).op(0xf1);
    // mstore(0, success); returndatacopy(32, 0, returndatasize); return(0, 32 + rds)
    a.push_u(0).op(0x52);
    a.op(0x3d).push_u(0).push_u(32).op(0x3e);
    a.op(0x3d).push_u(32).op(0x01).push_u(0).op(0xf3);
    a.finish()
}

fn check_through_evm(pc: Pc, spec: SpecId, fork: &str, input: &[u8], hint: &Hint, r: &RefOut, rep: &mut Report) {
    let (RefVal::Output(want), Some(cost)) = (&r.val, r.gas) else { return };
    if cost > 5_000_000 || spec < SpecId::BYZANTIUM {
        return; // RETURNDATACOPY needs Byzantium; Homestead pricing equals later forks for 1..4
    }
    for (gas_arg, expect_ok) in [(cost, true), (cost.saturating_sub(1), cost == 0)] {
        let mut w = World::default();
        w.accounts.insert(SENDER1, Acct { balance: U256::from(10u64).pow(U256::from(20u8)), ..Default::default() });
        w.accounts.insert(C1, Acct { nonce: 1, code: caller_contract(pc.addr(), gas_arg), ..Default::default() });
        let tx = TxSpec { caller: SENDER1, to: Some(C1), data: input.to_vec(), gas_limit: 12_000_000, gas_price: U256::from(1u64), ..Default::default() };
        let mut block = BlockSpec::default();
        block.basefee = 0;
        let case = Case { spec, world: w, block, txs: vec![tx] };
        let run = crate::wrun::run_history(&case, None, false);
        let cj = || json!({"precompile": pc.name(), "fork": fork, "input": hex(input), "gas_arg": gas_arg, "class": hint.class, "via": "CALL"});
        if let Some((_, p)) = &run.panic {
            report_panic(rep, "C23", p, cj());
            return;
        }
        rep.count("calls_through_the_evm");
        match &run.outcomes[0] {
            TxOutcome::Executed { class: "success", output, .. } if output.len() >= 32 => {
                let ok = output[31] == 1;
                if ok != expect_ok {
                    rep.violation(format!("C23/{}/call-success-flag/{fork}", pc.name()), format!("CALL with gas {gas_arg} (defined cost {cost}) returned success={ok}"), cj());
                } else if ok && &output[32..] != want.as_slice() {
                    rep.violation(format!("C23/{}/call-return-data/{fork}", pc.name()), format!("return data {} vs defined {}", hex(&output[32..]).chars().take(120).collect::<String>(), hex(want).chars().take(120).collect::<String>()), cj());
                }
            }
            o => rep.inconclusive(format!("caller contract did not complete for {}: {}", pc.name(), o.to_json())),
        }
    }
}

pub fn check_input(pc: Pc, input: &[u8], hint: &Hint, rng: &mut Rng, rep: &mut Report, through_evm: bool) {
    rep.eval();
    rep.cell("inputs_per_precompile", pc.name());
    rep.cell(&format!("input_classes/{}", pc.name()), hint.class);
    let mut nontrivial = false;
    for (ps, spec, fork) in pc.forks() {
        let r = match guarded(|| reference(pc, fork, input, hint)) {
            Ok(r) => r,
            Err(p) => {
                rep.inconclusive(format!("reference definition panicked for {}: {} at {}", pc.name(), p.message, p.location));
                return;
            }
        };
        if let (Pc::Ecrecover, Some(a), RefVal::Output(o)) = (pc, hint.ecrecover_addr, &r.val) {
            if o.len() != 32 || o[12..] != a {
                rep.inconclusive("reference ecrecover does not recover the address the generator signed with".to_string());
                return;
            }
        }
        rep.cell(&format!("reference_verdicts/{}", pc.name()), match &r.val { RefVal::Output(_) => "output", RefVal::Fail => "fail", RefVal::Unknown => "unknown" });
        // limits that pay for the call are only used while the defined cost is below 50 M gas:
        // beyond that the real code legitimately computes for hours (modexp on gigabyte operands)
        let mut limits: Vec<u64> = vec![0, rng.below(100_000)];
        match r.gas {
            Some(g) if g <= 50_000_000 => limits.extend([g.saturating_sub(1), g, g.saturating_add(1), u64::MAX]),
            Some(g) => limits.extend([50_000_000, g.saturating_sub(1).min(1 << 40)]),
            None => limits.push(u64::MAX),
        }
        limits.sort();
        limits.dedup();
        for limit in limits {
            let real = match guarded(|| call_real(pc, ps, input, limit)) {
                Ok(x) => x,
                Err(p) => {
                    report_panic(rep, "C23", &p, json!({"precompile": pc.name(), "fork": fork, "input": hex(input), "gas_limit": limit.to_string()}));
                    return;
                }
            };
            rep.cell(&format!("real_results/{}", pc.name()), real.class());
            compare(pc, fork, input, hint, limit, &r, &real, rep);
            if matches!(pc, Pc::MapFp | Pc::MapFp2) && limit == u64::MAX && rng.chance(1, 4) {
                check_map_output(pc, fork, input, &real, rep);
            }
            if matches!(real, Real::Ok { .. }) {
                nontrivial = true;
            }
        }
        if through_evm {
            check_through_evm(pc, spec, fork, input, hint, &r, rep);
        }
    }
    if nontrivial {
        rep.nontrivial(hash64(input) ^ pc.addr() as u64);
    }
}

/// how many inputs per precompile (relative weights; curve arithmetic in the definitions is slow)
fn weight(pc: Pc) -> u64 {
    match pc {
        Pc::Sha256 | Pc::Ripemd | Pc::Identity | Pc::Blake2f => 40,
        Pc::Modexp => 60,
        Pc::BnAdd => 20,
        Pc::Ecrecover | Pc::BnMul => 6,
        Pc::G1Add | Pc::G2Add => 10,
        Pc::MapFp | Pc::MapFp2 => 4,
        Pc::Kzg => 3,
        Pc::BnPair | Pc::G1Msm | Pc::G2Msm | Pc::BlsPair => 2,
    }
}

pub fn run(ctx: &Ctx) -> i32 {
    let mut rep = Report::new();
    if let Err(e) = self_test() {
        rep.inconclusive(format!("the definitions' self-test failed: {e}"));
        return finish(ctx, rep, Finish { level: "exploration", rule: "self-test".into(), assumptions: vec![] });
    }
    if let Some(path) = &ctx.replay {
        let v: Value = serde_json::from_str(&std::fs::read_to_string(path).expect("replay")).expect("json");
        let c = &v["case"];
        let pc = Pc::from_name(c["precompile"].as_str().unwrap()).unwrap();
        let input = unhex(c["input"].as_str().unwrap());
        let mut rng = Rng::new(1);
        // hints cannot be rebuilt from the bytes: constructed-value checks are skipped on replay
        check_input(pc, &input, &Hint { class: "replay", ..Default::default() }, &mut rng, &mut rep, true);
        println!("replayed: {} violation(s)", rep.violations.len());
        for v in &rep.violations {
            println!("  {} — {}", v.signature, v.what);
        }
        return finish(ctx, rep, Finish { level: "exploration", rule: "replay".into(), assumptions: vec![] });
    }
    let units = ctx.n(25, 1_500);
    let nsh = 64usize;
    let r = par_shards(ctx, nsh, |si, rng, rep| {
        let pools = Pools::new();
        for pc in ALL_PC {
            let n = (units * weight(pc)).div_ceil(nsh as u64);
            for k in 0..n {
                let (input, hint) = gen_input(pc, rng, &pools);
                let via_evm = k % 5 == 0;
                check_input(pc, &input, &hint, rng, rep, via_evm);
                if si == 0 && k == 1 && rep.samples.len() < 4 && input.len() < 300 {
                    rep.sample(json!({"precompile": pc.name(), "class": hint.class, "input": hex(&input)}));
                }
            }
        }
    });
    rep.merge(r);
    for pc in ALL_PC {
        let have = rep.table_get("inputs_per_precompile", pc.name());
        rep.floor(&format!("inputs for {}", pc.name()), have, 50);
        let ok = rep.table_get(&format!("real_results/{}", pc.name()), "ok");
        rep.floor(&format!("successful calls of {}", pc.name()), ok, 20);
        let er = rep.table_get(&format!("real_results/{}", pc.name()), "error") + rep.table_get(&format!("real_results/{}", pc.name()), "oog");
        rep.floor(&format!("failing calls of {}", pc.name()), er, 10);
    }
    let c = rep.counter("calls_through_the_evm");
    rep.floor("calls through the Evm", c, 200);
    finish(ctx, rep, Finish {
        level: "exploration",
        rule: "For each of the 17 precompiles and each pricing fork in which it exists: generated inputs (valid by construction, boundary values of every length/field/scalar, non-canonical encodings, dirty padding, points off the curve / outside the subgroup, truncated and extended inputs, random bytes) are given to the real run function at gas limits {0, cost-1, cost, cost+1, 2^64-1, random} and compared with the independent definitions of pcref.rs (own SHA-256 / RIPEMD-160 / BLAKE2 F, BigUint modexp and curve arithmetic for secp256k1, BN254 and BLS12-381 incl. Fp2, public-key recovery, EIP-198/2565 pricing, EIP-2537 discount tables): success => same bytes and same gas; defined failure => failure; out of gas exactly when defined cost > limit. Pairing values are decided for inputs whose product is known by construction (bilinearity identities, single non-degenerate pair, infinities); KZG verdicts for commitments to constant polynomials (proof = point at infinity) plus the versioned-hash and canonical-field rules; map-to-curve outputs are checked for membership in the prime-order subgroup. Every fifth input also goes through a real CALL at gas = cost and cost-1 (success flag and return data). Non-trivial = at least one successful call; distinct by input bytes.".into(),
        assumptions: vec!["curve and hash constants in pcref.rs are validated by its self-test (generators on curve and of prime order, hash test vectors); a failing self-test makes the run inconclusive".into(), "pairing / KZG / map-to-curve values outside the constructed classes are not judged here (cost and validity are); C24 compares them across back ends and C01 replays the EEST precompile fixtures".into()],
    })
}
