//! Online monitors on generated workloads W: C06(B) C07 C08 C09 C10 C11(B) C13(B) C28 C29 C30.
//! One runner executes every case plain and with the monitoring inspector; a property's check
//! keeps the violations that belong to it and reports the coverage relevant to it.
use crate::evmrun::*;
use crate::fw::*;
use crate::interp::*;
use crate::mon::*;
use crate::world::*;
use crate::wrun::*;
use num_bigint::BigUint;
use num_traits::Zero as _;
use revm::primitives::{SpecId, U256};
use serde_json::{json, Value};

fn big(x: &U256) -> BigUint {
    BigUint::from_bytes_be(&x.to_be_bytes::<32>())
}

// ------------------------------------------------------------------------------------------------
// independent intrinsic / floor gas (Appendix A.2)
// ------------------------------------------------------------------------------------------------

pub fn intrinsic_gas(spec: SpecId, tx: &TxSpec) -> (u128, u128) {
    let zeros = tx.data.iter().filter(|b| **b == 0).count() as u128;
    let nonzeros = tx.data.len() as u128 - zeros;
    let mut g: u128 = 21_000;
    g += zeros * 4 + nonzeros * if spec >= SpecId::ISTANBUL { 16 } else { 68 };
    if tx.to.is_none() {
        if spec >= SpecId::HOMESTEAD {
            g += 32_000;
        }
        if spec >= SpecId::SHANGHAI {
            g += 2 * ((tx.data.len() as u128 + 31) / 32);
        }
    }
    if spec >= SpecId::BERLIN {
        for (_, ks) in &tx.access_list {
            g += 2400 + 1900 * ks.len() as u128;
        }
    }
    if spec >= SpecId::PRAGUE {
        if let Some(l) = &tx.auth_list {
            g += 25_000 * l.len() as u128;
        }
    }
    let floor = if spec >= SpecId::PRAGUE { 21_000 + 10 * (zeros + 4 * nonzeros) } else { 0 };
    (g, floor)
}

fn blob_fee(spec: SpecId, block: &BlockSpec, tx: &TxSpec) -> BigUint {
    if spec < SpecId::CANCUN || tx.blob_hashes.is_empty() {
        return BigUint::from(0u32);
    }
    // EIP-4844 price from the exact reference (same definition as C32's oracle)
    let frac: u64 = if spec >= SpecId::PRAGUE { 5007716 } else { 3338477 };
    let price = fake_exp_exact(1, block.excess_blob_gas, frac);
    price * BigUint::from(tx.blob_hashes.len() as u64) * BigUint::from(131072u64)
}

fn fake_exp_exact(f: u64, n: u64, d: u64) -> BigUint {
    let den = BigUint::from(d);
    let num = BigUint::from(n);
    let mut i = BigUint::from(1u32);
    let mut output = BigUint::from(0u32);
    let mut accum = BigUint::from(f) * &den;
    while accum > BigUint::from(0u32) {
        output += &accum;
        accum = (&accum * &num) / (&den * &i);
        i += 1u32;
    }
    output / den
}

fn eff_price(spec: SpecId, block: &BlockSpec, tx: &TxSpec) -> BigUint {
    match tx.priority_fee {
        Some(p) if spec >= SpecId::LONDON => big(&tx.gas_price).min(BigUint::from(block.basefee) + big(&p)),
        Some(p) => big(&tx.gas_price).min(BigUint::from(block.basefee) + big(&p)),
        None => big(&tx.gas_price),
    }
}

fn contains_addr(hay: &[u8], a: &revm::primitives::Address) -> bool {
    hay.windows(20).any(|w| w == a.as_slice())
}

// ------------------------------------------------------------------------------------------------
// per-case execution and checks
// ------------------------------------------------------------------------------------------------

/// transaction type by the fields it carries (coverage table)
pub fn tx_shape(tx: &TxSpec) -> &'static str {
    if tx.auth_list.is_some() {
        "set-code(7702)"
    } else if !tx.blob_hashes.is_empty() || tx.max_fee_per_blob_gas.is_some() {
        "blob(4844)"
    } else if tx.priority_fee.is_some() {
        if tx.to.is_none() { "dynamic-fee(1559)/create" } else { "dynamic-fee(1559)" }
    } else if !tx.access_list.is_empty() {
        "access-list(2930)"
    } else if tx.to.is_none() {
        "legacy/create"
    } else {
        "legacy"
    }
}

pub struct CaseStats {
    pub executed_txs: u64,
    pub nontrivial: bool,
    /// gas used by the first transaction in the plain run (None: rejected)
    pub first_gas_used: Option<u64>,
}

/// Execute one case plain and monitored; push violations of all online properties into `rep`
/// tagged by property id in the signature prefix.
pub fn check_case(case: &Case, rep: &mut Report, snapshots: bool, short_circuit: Option<u64>) -> CaseStats {
    let cj = || case.to_json();
    let mut stats = CaseStats { executed_txs: 0, nontrivial: false, first_gas_used: None };
    let plain = run_history(case, None, true);
    stats.first_gas_used = plain.outcomes.first().and_then(|o| o.gas_used());
    if let Some((i, p)) = &plain.panic {
        report_panic(rep, "C25", p, json!({"case": cj(), "tx_index": i, "mode": "plain"}));
        return stats;
    }
    let mut cfg = mon_cfg_for(case.spec, snapshots);
    cfg.short_circuit_every = short_circuit;
    let mut mon = Mon::new(cfg);
    // monitored run, transaction by transaction so that per-tx ground truth can be read
    let mut db = RefDB::new(case.world.clone(), case.spec);
    let mut mon_outcomes = vec![];
    for (i, tx) in case.txs.iter().enumerate() {
        let pre = db.world.clone();
        let r = guarded(|| transact_mon(&mut db, case.spec, &case.block, tx, &mut mon));
        let res = match r {
            Err(p) => {
                // the same case ran to completion without an inspector, so this panic belongs to the
                // inspector path: it is a failure of the hook discipline (C29), of "an observing
                // inspector does not change execution" when the inspector only observes (C28), and
                // a panic as such (C25)
                let cjv = json!({"case": cj(), "tx_index": i, "mode": if short_circuit.is_some() { "inspected, inspector answers some calls/creates itself" } else { "inspected" }});
                report_panic(rep, "C25", &p, cjv.clone());
                report_panic(rep, "C29", &p, cjv.clone());
                if short_circuit.is_none() {
                    report_panic(rep, "C28", &p, cjv);
                }
                return stats;
            }
            Ok(r) => r,
        };
        let out = outcome_of(&res.as_ref().map(|r| r.result.clone()).map_err(|e| e.clone()));
        mon_outcomes.push(out.clone());
        rep.cell("tx_outcomes", out.class());
        if !matches!(out, TxOutcome::Rejected(_)) {
            rep.cell("executed_tx_shapes", tx_shape(tx));
        }
        if let Ok(rs) = res {
            use revm::DatabaseCommit;
            let burns: BigUint = mon.burns.iter().map(|b| big(&b.amount)).sum();
            if std::env::var("VERIF_DEBUG").is_ok() {
                eprintln!("tx {i}: outcome {} burns {:?} sd_completed {:?} sd_notified {:?} counters {:?}", out.to_json(), mon.burns, mon.sd_completed, mon.sd_notified, mon.counters);
            }
            let destroyed_at_end: BigUint = rs.state.values().filter(|a| a.is_touched() && a.is_selfdestructed()).map(|a| big(&a.info.balance)).sum();
            db.commit(rs.state.clone());
            stats.executed_txs += 1;
            if short_circuit.is_none() {
                check_c08(case, i, tx, &pre, &db.world, &out, &burns, &destroyed_at_end, &mon.sd_completed, rep);
                check_c09(case, i, tx, &pre, &db.world, &out, &mon, rep);
            }
        }
        // C28 (short-circuiting inspector is not an observing one)
        if short_circuit.is_none() {
            if let Some(po) = plain.outcomes.get(i) {
                if *po != out {
                    rep.violation(format!("C28/result-differs/recording-inspector/{}-vs-{}", po.class(), out.class()), format!("tx {i}: plain {:?} vs inspected {:?}", po.to_json().to_string(), out.to_json().to_string()), json!({"case": cj(), "tx_index": i}));
                }
            }
        }
    }
    if short_circuit.is_none() {
        if let Some(d) = world_diff(&plain.post, &db.world) {
            rep.violation("C28/state-differs/recording-inspector", format!("post-state plain vs inspected: {d}"), json!({"case": cj()}));
        }
    }
    // monitors' own findings
    for v in &mon.violations {
        rep.violation(v.sig.clone(), v.what.clone(), json!({"case": cj(), "monitor": v.prop}));
    }
    // coverage
    rep.add("events/step", mon.n_step);
    rep.add("events/step_end", mon.n_step_end);
    rep.add("events/call", mon.n_call);
    rep.add("events/call_end", mon.n_call_end);
    rep.add("events/create", mon.n_create);
    rep.add("events/create_end", mon.n_create_end);
    rep.add("events/log", mon.n_log);
    rep.add("events/selfdestruct", mon.n_selfdestruct);
    for (k, v) in &mon.counters {
        rep.add(k, *v);
    }
    let md = mon.max_depth;
    rep.cell("max_journal_depth_bucket", match md { 0..=1 => "<=1", 2..=3 => "2-3", 4..=15 => "4-15", 16..=255 => "16-255", 256..=1023 => "256-1023", _ => ">=1024" });
    for (op, n) in mon.opcodes_seen.iter().enumerate() {
        if *n > 0 {
            rep.cell_add("opcodes_executed", &format!("{:02x}", op), *n);
        }
    }
    stats.nontrivial = mon.n_step >= 5 && (mon.n_call + mon.n_create) >= 1;
    stats
}

#[allow(clippy::too_many_arguments)]
fn check_c08(case: &Case, i: usize, tx: &TxSpec, pre: &World, post: &World, out: &TxOutcome, burns: &BigUint, destroyed_at_end: &BigUint, sd_completed: &[SdRecord], rep: &mut Report) {
    let Some(gas_used) = out.gas_used() else { return };
    let spec = case.spec;
    let base_burn = if spec >= SpecId::LONDON { BigUint::from(case.block.basefee) * BigUint::from(gas_used) } else { BigUint::from(0u32) };
    let bf = blob_fee(spec, &case.block, tx);
    let lhs = post.total_balance() + &base_burn + &bf + burns + destroyed_at_end;
    let rhs = pre.total_balance();
    rep.count("c08_transactions_checked");
    if !burns.eq(&BigUint::from(0u32)) {
        rep.count("c08_with_self_burn");
    }
    if !destroyed_at_end.eq(&BigUint::from(0u32)) {
        rep.count("c08_with_destroyed_balance");
    }
    if lhs != rhs {
        // discrete causes for the signature
        let dir = if lhs > rhs { "created" } else { "destroyed" };
        let amount = if lhs > rhs { &lhs - &rhs } else { &rhs - &lhs };
        let two256 = BigUint::from(1u32) << 256;
        let maxb = &two256 - BigUint::from(1u32);
        let cb = case.block.coinbase;
        let price = eff_price(spec, &case.block, tx);
        let tip = if spec >= SpecId::LONDON { &price - BigUint::from(case.block.basefee).min(price.clone()) } else { price.clone() };
        let reward = &tip * BigUint::from(gas_used);
        let cb_pre = big(&pre.accounts.get(&cb).map(|a| a.balance).unwrap_or_default());
        let cb_post = big(&post.accounts.get(&cb).map(|a| a.balance).unwrap_or_default());
        let s_post = big(&post.accounts.get(&tx.caller).map(|a| a.balance).unwrap_or_default());
        // a wrapping credit removes exactly 2^256 from the sum; the credited balance may have grown
        // inside the transaction, so the pre-transaction balance alone does not show it
        let sd_overflow = sd_completed.iter().any(|r| r.target != r.contract && big(&pre.accounts.get(&r.target).map(|a| a.balance).unwrap_or_default()) + big(&r.value) >= two256)
            || (dir == "destroyed" && !amount.is_zero() && (&amount % &two256).is_zero() && sd_completed.iter().any(|r| r.target != r.contract && !r.value.is_zero()));
        let _ = &cb_pre;
        // the coinbase ends exactly at 2^256-1 and what is missing is at most the reward it was due
        // (its balance may have come close to the maximum inside the transaction)
        let cause = if dir == "destroyed" && cb_post == maxb && amount <= reward {
            "beneficiary-reward-saturates-at-2^256-1"
        } else if s_post == maxb {
            "sender-reimbursement-saturates-at-2^256-1"
        } else if sd_overflow {
            "selfdestruct-into-balance-that-overflows"
        } else {
            "other"
        };
        let sig = format!("C08/ether-{dir}/{cause}");
        rep.violation(sig, format!("tx {i}: sum before {} after {} (+burned base fee {} +blob fee {} +self-burn {} +deleted {}): {} wei {dir}", rhs, post.total_balance(), base_burn, bf, burns, destroyed_at_end, amount), json!({"case": case.to_json(), "tx_index": i}));
    }
}

#[allow(clippy::too_many_arguments)]
fn check_c09(case: &Case, i: usize, tx: &TxSpec, pre: &World, post: &World, out: &TxOutcome, mon: &Mon, rep: &mut Report) {
    let TxOutcome::Executed { class, gas_used, gas_refunded, .. } = out else { return };
    let spec = case.spec;
    let cj = || json!({"case": case.to_json(), "tx_index": i});
    let (intrinsic, floor) = intrinsic_gas(spec, tx);
    let gu = *gas_used as u128;
    rep.count("c09_transactions_checked");
    if gu > tx.gas_limit as u128 {
        rep.violation("C09/gas-used-above-limit", format!("gas_used {gu} > gas_limit {}", tx.gas_limit), cj());
    }
    // EIP-7702: the authorization refund (12 500 per tuple whose authority already exists) is granted
    // whatever the execution outcome and is not part of the reported execution refund
    let auth_slack: u128 = if spec >= SpecId::PRAGUE { 12_500 * tx.auth_list.as_ref().map(|l| l.len()).unwrap_or(0) as u128 } else { 0 };
    // before refunds the spent gas is at least the intrinsic gas
    if gu + (*gas_refunded as u128) + auth_slack < intrinsic {
        rep.violation("C09/spent-below-intrinsic", format!("gas_used {gu} + refund {gas_refunded} < intrinsic {intrinsic}"), cj());
    }
    if spec >= SpecId::PRAGUE && gu < floor {
        rep.violation("C09/gas-used-below-floor", format!("gas_used {gu} < floor {floor}"), cj());
    }
    let q: u128 = if spec >= SpecId::LONDON { 5 } else { 2 };
    if (*gas_refunded as u128) > (gu + *gas_refunded as u128) / q {
        rep.violation(format!("C09/refund-above-cap/q{q}"), format!("refund {gas_refunded} > (gas_used {gu} + refund)/{q}"), cj());
    }
    if *gas_refunded as u128 == (gu + *gas_refunded as u128) / q && *gas_refunded > 0 {
        rep.count("c09_refund_exactly_at_cap");
    }
    if *class != "success" && *gas_refunded != 0 {
        rep.violation("C09/refund-on-failure", format!("{class} with refund {gas_refunded}"), cj());
    }
    if *class == "halt" && (gu > tx.gas_limit as u128 || gu + auth_slack.min(tx.gas_limit as u128 / 5) < tx.gas_limit as u128) {
        rep.violation("C09/halt-did-not-use-all-gas", format!("halt used {gu} of {}", tx.gas_limit), cj());
    }
    if gu == intrinsic {
        rep.count("c09_gas_used_equals_intrinsic");
    }
    // closed-form payments on executions that cannot name the fee parties
    let sender = tx.caller;
    let coinbase = case.block.coinbase;
    if sender == coinbase {
        return;
    }
    let sender_has_code = pre.accounts.get(&sender).map(|a| !a.code.is_empty()).unwrap_or(false);
    let named = pre.accounts.values().any(|a| contains_addr(&a.code, &sender) || contains_addr(&a.code, &coinbase)) || contains_addr(&tx.data, &sender) || contains_addr(&tx.data, &coinbase);
    let ops = &mon.opcodes_seen;
    let produced = ops[0x32] > 0 || ops[0x33] > 0 || ops[0x41] > 0;
    let party_is_target = tx.to == Some(coinbase) || tx.to == Some(sender);
    let auth_touches = tx.auth_list.as_ref().map(|l| l.iter().any(|a| a.authority == Some(sender) || a.authority == Some(coinbase))).unwrap_or(false);
    // ground truth from the inspector: did any nested frame call, create or name as beneficiary
    // one of the fee parties (addresses can be computed, e.g. 0x..c1 + 10 = 0x..cb)
    let reached = mon.frame_targets.contains(&sender) || mon.frame_targets.contains(&coinbase);
    if sender_has_code || named || produced || party_is_target || auth_touches || reached {
        rep.count("c09_closed_form_skipped(fee party nameable)");
        return;
    }
    rep.count("c09_closed_form_checked");
    let price = eff_price(spec, &case.block, tx);
    let bf = blob_fee(spec, &case.block, tx);
    let moved = if *class == "success" { big(&tx.value) } else { BigUint::from(0u32) };
    let pay = &price * BigUint::from(*gas_used) + &bf + &moved;
    let sb = big(&pre.accounts.get(&sender).map(|a| a.balance).unwrap_or_default());
    let sa = big(&post.accounts.get(&sender).map(|a| a.balance).unwrap_or_default());
    if sb < sa || &sb - &sa != pay {
        rep.violation(format!("C09/sender-payment/{class}"), format!("sender balance {} -> {}, expected to pay {} (= price {} x gas_used {} + blob fee {} + value {})", sb, sa, pay, price, gas_used, bf, moved), cj());
    }
    let cb = big(&pre.accounts.get(&coinbase).map(|a| a.balance).unwrap_or_default());
    let ca = big(&post.accounts.get(&coinbase).map(|a| a.balance).unwrap_or_default());
    let tip = if spec >= SpecId::LONDON { &price - BigUint::from(case.block.basefee).min(price.clone()) } else { price.clone() };
    let want = &tip * BigUint::from(*gas_used);
    if ca < cb || &ca - &cb != want {
        let maxb = (BigUint::from(1u32) << 256) - BigUint::from(1u32);
        let saturated = ca == maxb && &cb + &want > maxb;
        rep.violation(format!("C09/beneficiary-reward/{}", if saturated { "saturates-at-2^256-1" } else { "wrong-amount" }), format!("beneficiary balance {} -> {}, expected +{}", cb, ca, want), cj());
    }
}

// ------------------------------------------------------------------------------------------------
// directed workloads
// ------------------------------------------------------------------------------------------------

fn simple_world() -> World {
    let mut w = World::default();
    let eth = U256::from(10u64).pow(U256::from(18u8));
    w.accounts.insert(SENDER1, Acct { balance: eth * U256::from(1000u64), ..Default::default() });
    w
}

fn tx_to(to: revm::primitives::Address, gas: u64) -> TxSpec {
    TxSpec { to: Some(to), gas_limit: gas, gas_price: U256::from(10u64), ..Default::default() }
}

/// C07 depth probe. Contract P: d = CALLDATALOAD(0); [d == 0: run K sibling calls/creates that
/// complete or fail in different ways]; MSTORE(0, d+1); ok = <kind>(GAS-100000, self, in 0..32,
/// out 0..32); ok ? RETURN(0,32) (the deepest level's answer) : MSTORE(0,d), RETURN(0,32).
/// Level d runs at journal depth d+1, so the transaction must return exactly 1024.
pub fn depth_probe_cases(spec: SpecId) -> Vec<(String, Case)> {
    let mut out = vec![];
    for kind in ["CALL", "DELEGATECALL", "STATICCALL", "CALLCODE"] {
        if kind == "DELEGATECALL" && spec < SpecId::HOMESTEAD {
            continue;
        }
        if kind == "STATICCALL" && spec < SpecId::BYZANTIUM {
            continue;
        }
        for siblings in [0u64, 18, 72] {
            let mut a = Asm::new();
            let skip = a.new_label();
            a.push_u(0).op(0x35).push_label(skip).op(0x57);
            // plain message call with no data and no output window
            fn call0(a: &mut Asm, op: u8, to: revm::primitives::Address, gas: u64, value: U256) {
                a.push_u(0).push_u(0).push_u(0).push_u(0);
                if op == 0xf1 || op == 0xf2 {
                    a.push(value);
                }
                a.push_addr(to).push_u(gas).op(op).op(0x50);
            }
            for s in 0..siblings {
                // every early-return path of make_call_frame / make_create_frame and every way a
                // frame can end; kinds that need a later fork fall back to a codeless call
                let mut k = s % 18;
                if (k == 7 || k == 8) && spec < SpecId::PRAGUE {
                    k = 2;
                }
                if k == 9 && spec < SpecId::BYZANTIUM {
                    k = 2;
                }
                if k == 15 && spec < SpecId::PETERSBURG {
                    k = 2;
                }
                if (k == 16 || k == 17) && spec < SpecId::HOMESTEAD {
                    k = 2;
                }
                match k {
                    0 => {
                        // value transfer that fails (insufficient balance)
                        a.push_u(0).push_u(0).push_u(0).push_u(0).push(U256::MAX).push_addr(C2).push_u(50_000).op(0xf1).op(0x50);
                    }
                    1 => {
                        // precompile call, success
                        a.push_u(32).push_u(0).push_u(32).push_u(0).push_u(0).push_addr(precompile(4)).push_u(50_000).op(0xf1).op(0x50);
                    }
                    2 => {
                        // call to an account without code
                        a.push_u(0).push_u(0).push_u(0).push_u(0).push_u(0).push_addr(NONEXISTENT).push_u(50_000).op(0xf1).op(0x50);
                    }
                    3 => {
                        // precompile that runs out of gas
                        a.push_u(0).push_u(0).push_u(64).push_u(0).push_u(0).push_addr(precompile(1)).push_u(100).op(0xf1).op(0x50);
                    }
                    4 => {
                        // CREATE whose init code halts (inside a helper with bounded gas, since a halting
                        // init code burns everything forwarded to it)
                        a.push_u(0).push_u(0).push_u(0).push_u(0).push_u(0).push_addr(C4).push_u(200_000).op(0xf1).op(0x50);
                    }
                    5 => {
                        // CREATE with empty init code (succeeds), and one with a value it cannot pay
                        a.push_u(0).push_u(0).push_u(0).op(0xf0).op(0x50);
                        a.push_u(0).push_u(0).push(U256::MAX).op(0xf0).op(0x50);
                    }
                    6 => {
                        // call into a contract that reverts / halts
                        a.push_u(0).push_u(0).push_u(0).push_u(0).push_u(0).push_addr(C3).push_u(50_000).op(0xf1).op(0x50);
                    }
                    7 => {
                        // EIP-7702: calls through a designator whose delegate has no code
                        call0(&mut a, 0xf1, addr(0xd701), 50_000, U256::ZERO);
                        call0(&mut a, 0xfa, addr(0xd701), 50_000, U256::ZERO);
                        call0(&mut a, 0xf4, addr(0xd701), 50_000, U256::ZERO);
                    }
                    8 => {
                        // EIP-7702: designator pointing at a precompile (executes as empty code)
                        call0(&mut a, 0xf1, addr(0xd702), 50_000, U256::ZERO);
                        call0(&mut a, 0xf2, addr(0xd702), 50_000, U256::ZERO);
                    }
                    9 => {
                        // STATICCALL into a writer (static violation halts the callee)
                        call0(&mut a, 0xfa, addr(0xd703), 60_000, U256::ZERO);
                    }
                    10 => {
                        // value call whose credit overflows the recipient's balance
                        call0(&mut a, 0xf1, addr(0xd704), 50_000, U256::from(1u8));
                    }
                    11 => {
                        // CREATE by a contract whose nonce is 2^64-1 (inside a helper)
                        call0(&mut a, 0xf1, addr(0xd705), 100_000, U256::ZERO);
                    }
                    12 => {
                        // code deposit that cannot be paid (Frontier: succeeds with empty code;
                        // later: out of gas), inside a helper with bounded gas
                        call0(&mut a, 0xf1, addr(0xd706), 45_000, U256::ZERO);
                    }
                    13 => {
                        // returned code too large (Spurious+) / starting with 0xEF (London+)
                        call0(&mut a, 0xf1, addr(0xd707), 150_000, U256::ZERO);
                        call0(&mut a, 0xf1, addr(0xd708), 100_000, U256::ZERO);
                    }
                    14 => {
                        // init code above the EIP-3860 limit (Shanghai+: halts the creator), in a helper
                        call0(&mut a, 0xf1, addr(0xd709), 150_000, U256::ZERO);
                    }
                    15 => {
                        // CREATE2 twice with the same salt and init code: the second one collides
                        call0(&mut a, 0xf1, addr(0xd70a), 200_000, U256::ZERO);
                    }
                    16 => {
                        // DELEGATECALL to a codeless account and to a precompile
                        call0(&mut a, 0xf4, NONEXISTENT, 50_000, U256::ZERO);
                        call0(&mut a, 0xf4, precompile(2), 50_000, U256::ZERO);
                    }
                    _ => {
                        // CALLCODE with a value it cannot pay; DELEGATECALL into a reverting contract
                        call0(&mut a, 0xf2, C2, 50_000, U256::MAX);
                        call0(&mut a, 0xf4, C3, 50_000, U256::ZERO);
                    }
                }
            }
            a.place(skip);
            a.push_u(0).op(0x35).push_u(1).op(0x01).push_u(0).op(0x52);
            let op = match kind {
                "CALL" => 0xf1u8,
                "CALLCODE" => 0xf2,
                "DELEGATECALL" => 0xf4,
                _ => 0xfa,
            };
            a.push_u(32).push_u(0).push_u(32).push_u(0);
            if op == 0xf1 || op == 0xf2 {
                a.push_u(0);
            }
            a.op(0x30);
            a.push_u(100_000).op(0x5a).op(0x03); // GAS - 100000
            a.op(op);
            let ok = a.new_label();
            a.push_label(ok).op(0x57);
            a.push_u(0).op(0x35).push_u(0).op(0x52);
            a.place(ok);
            a.push_u(32).push_u(0).op(0xf3);
            let code = a.finish();
            let mut w = simple_world();
            w.accounts.insert(C1, Acct { nonce: 1, code, ..Default::default() });
            w.accounts.insert(C2, Acct { nonce: 1, code: vec![0x00], ..Default::default() });
            {
                let mut h = Asm::new();
                h.push32(U256::from(0xfeu64) << 248).push_u(0).op(0x52);
                h.push_u(1).push_u(0).push_u(0).op(0xf0).op(0x50).op(0x00);
                w.accounts.insert(C4, Acct { nonce: 1, code: h.finish(), ..Default::default() });
            }
            w.accounts.insert(C3, Acct { nonce: 1, code: if siblings % 2 == 0 { vec![0xfe] } else { vec![0x60, 0x00, 0x60, 0x00, 0xfd] }, ..Default::default() });
            w.accounts.get_mut(&C1).unwrap().balance = U256::from(1000u64);
            if spec >= SpecId::PRAGUE {
                w.accounts.insert(addr(0xd701), Acct { nonce: 1, code: designator(NONEXISTENT), ..Default::default() });
                w.accounts.insert(addr(0xd702), Acct { nonce: 1, code: designator(precompile(4)), ..Default::default() });
            }
            w.accounts.insert(addr(0xd703), Acct { nonce: 1, code: vec![0x60, 0x01, 0x60, 0x00, 0x55, 0x00], ..Default::default() });
            w.accounts.insert(addr(0xd704), Acct { balance: U256::MAX, ..Default::default() });
            // creator helpers: CREATE(0, 0, n) with the init code first written to memory
            let creator = |init: &[u8], create2: bool, times: usize| -> Vec<u8> {
                let mut h = Asm::new();
                for (i, chunk) in init.chunks(32).enumerate() {
                    let mut wd = [0u8; 32];
                    wd[..chunk.len()].copy_from_slice(chunk);
                    h.push32(U256::from_be_bytes(wd)).push_u(32 * i as u64).op(0x52);
                }
                for _ in 0..times {
                    if create2 {
                        h.push_u(0).push_u(init.len() as u64).push_u(0).push_u(0).op(0xf5).op(0x50);
                    } else {
                        h.push_u(init.len() as u64).push_u(0).push_u(0).op(0xf0).op(0x50);
                    }
                }
                h.op(0x00);
                h.finish()
            };
            // RETURN(0, n): n zero bytes of code
            let ret_n = |n: u16| -> Vec<u8> { vec![0x61, (n >> 8) as u8, n as u8, 0x60, 0x00, 0xf3] };
            w.accounts.insert(addr(0xd705), Acct { nonce: u64::MAX, code: creator(&[0x00], false, 1), ..Default::default() });
            w.accounts.insert(addr(0xd706), Acct { nonce: 1, code: creator(&ret_n(300), false, 1), ..Default::default() });
            w.accounts.insert(addr(0xd707), Acct { nonce: 1, code: creator(&ret_n(24_577), false, 1), ..Default::default() });
            // MSTORE8(0, 0xEF); RETURN(0, 1)
            w.accounts.insert(addr(0xd708), Acct { nonce: 1, code: creator(&[0x60, 0xef, 0x60, 0x00, 0x53, 0x60, 0x01, 0x60, 0x00, 0xf3], false, 1), ..Default::default() });
            {
                // CREATE(0, 0, 49153)
                let mut h = Asm::new();
                h.push_u(49_153).push_u(0).push_u(0).op(0xf0).op(0x50).op(0x00);
                w.accounts.insert(addr(0xd709), Acct { nonce: 1, code: h.finish(), ..Default::default() });
            }
            w.accounts.insert(addr(0xd70a), Acct { nonce: 1, code: creator(&[0x00], true, 2), ..Default::default() });
            let mut tx = tx_to(C1, 1u64 << 56);
            tx.gas_price = U256::from(0u8);
            tx.data = vec![0u8; 32];
            let mut block = BlockSpec::default();
            block.gas_limit = u64::MAX;
            block.basefee = 0;
            out.push((format!("{kind}/siblings={siblings}"), Case { spec, world: w, block, txs: vec![tx] }));
        }
    }
    out
}

pub struct Workload {
    pub include_osaka: bool,
    pub snapshots: bool,
    pub max_txs: usize,
}

/// run `n` generated cases in parallel shards and return the merged report
pub fn run_generated(ctx: &Ctx, n: u64, wl: &Workload, bias: fn(&mut Rng, &mut Case)) -> Report {
    let shards = 64usize;
    let per = (n / shards as u64).max(1);
    par_shards(ctx, shards, |_si, rng, rep| {
        for k in 0..per {
            let spec = random_spec(rng, wl.include_osaka);
            let mut case = gen_case(rng, spec, wl.max_txs);
            bias(rng, &mut case);
            if wl.include_osaka && rng.chance(1, 8) {
                // validated EOF containers (EXT*CALL, EOFCREATE, RETURNCONTRACT frames)
                case = super::c26_eof::gen_eof_case(rng);
                case.txs.truncate(wl.max_txs.max(2));
            }
            let spec = case.spec;
            rep.eval();
            let sc = None;
            let st = check_case(&case, rep, wl.snapshots, sc);
            rep.cell("cases_per_spec", spec_name(spec));
            // gas-limit sweep: the same case again with limits between the intrinsic gas and what
            // the full run used, so that frames run out of gas at many different instructions
            // (where reverts, refunds and the order of checks inside an instruction are decided)
            if rng.chance(1, 20) {
                if let Some(used) = st.first_gas_used {
                    let (i, f) = intrinsic_gas(case.spec, &case.txs[0]);
                    let lo = i.max(f) as u64;
                    if used > lo && used - lo < 2_000_000 {
                        for k in 0..10u64 {
                            let mut c2 = case.clone();
                            c2.txs.truncate(1);
                            c2.txs[0].gas_limit = if k < 3 { used - 1 - k.min(used - lo - 1) } else { lo + rng.below(used - lo) };
                            rep.eval();
                            rep.count("gas_limit_sweep_cases");
                            let s2 = check_case(&c2, rep, wl.snapshots, sc);
                            if s2.nontrivial {
                                rep.nontrivial(c2.hash());
                            }
                        }
                    }
                }
            }
            if st.nontrivial {
                rep.nontrivial(case.hash());
                if rep.samples.len() < 2 && k > 2 {
                    rep.sample(json!({"spec": spec_name(case.spec), "tx0": case.txs[0].to_json(), "to_code": case.txs[0].to.and_then(|a| case.world.accounts.get(&a)).map(|a| hex(&a.code))}));
                }
            }
        }
    })
}

pub fn no_bias(_: &mut Rng, _: &mut Case) {}

/// keep only the violations of property `pid` (signature prefix), turn everything else into notes
pub fn keep_only(rep: &mut Report, pid: &str) {
    let prefix = format!("{pid}/");
    let mut others: std::collections::BTreeMap<String, u64> = Default::default();
    rep.violations.retain(|v| {
        if v.signature.starts_with(&prefix) {
            true
        } else {
            *others.entry(v.signature.clone()).or_insert(0) += 1;
            false
        }
    });
    rep.counters.retain(|k, _| !k.starts_with("violations/") || k.starts_with(&format!("violations/{prefix}")));
    if !others.is_empty() {
        rep.extra.insert("violations_of_other_properties_seen_in_this_workload(reported_by_their_own_checks)".into(), json!(others));
    }
}

pub fn replay_case(ctx: &Ctx, rep: &mut Report, snapshots: bool) -> bool {
    let Some(path) = &ctx.replay else { return false };
    let v: Value = serde_json::from_str(&std::fs::read_to_string(path).expect("replay")).expect("json");
    let c = &v["case"]["case"];
    let case = Case::from_json(c);
    check_case(&case, rep, snapshots, None);
    println!("replayed case: {} violation(s) (all online properties)", rep.violations.len());
    for v in &rep.violations {
        println!("  {} — {}", v.signature, v.what);
    }
    true
}
