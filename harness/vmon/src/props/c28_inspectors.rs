//! C28 — an observing inspector does not change execution: plain vs NoOpInspector, GasInspector,
//! TracerEip3155 (with and without memory), CustomPrintTracer is excluded (prints to stdout).
use super::online::*;
use crate::evmrun::*;
use crate::fw::*;
use crate::interp::*;
use crate::world::*;
use revm::inspectors::{GasInspector, NoOpInspector, TracerEip3155};
use revm::primitives::{EVMError, EvmState, ResultAndState, SpecId};
use revm::{inspector_handle_register, Database, Evm, GetInspector};
use serde_json::json;

fn with_insp<DB: Database, I: GetInspector<DB>>(db: DB, spec: SpecId, block: &BlockSpec, tx: &TxSpec, insp: I, extra_noop_before: bool) -> Result<ResultAndState, EVMError<DB::Error>> {
    let b = Evm::builder().with_db(db).with_external_context(insp).with_spec_id(spec).with_env(make_env(spec, block, tx));
    let mut evm = if extra_noop_before {
        b.append_handler_register(|_h| {}).append_handler_register(inspector_handle_register).build()
    } else {
        b.append_handler_register(inspector_handle_register).append_handler_register(|_h| {}).build()
    };
    evm.transact()
}

fn state_diff(a: &EvmState, b: &EvmState) -> Option<String> {
    if a == b {
        return None;
    }
    for (k, x) in a.iter() {
        match b.get(k) {
            None => return Some(format!("account {} only in the plain run", hex(k.as_slice()))),
            Some(y) => {
                if x.info != y.info {
                    return Some(format!("account {} info differs: {:?} vs {:?}", hex(k.as_slice()), x.info.balance, y.info.balance));
                }
                if x.status != y.status {
                    return Some(format!("account {} status differs: {:?} vs {:?}", hex(k.as_slice()), x.status, y.status));
                }
                if x.storage != y.storage {
                    return Some(format!("account {} storage differs", hex(k.as_slice())));
                }
            }
        }
    }
    Some("account only in the inspected run".into())
}

fn check(case: &Case, rep: &mut Report) -> bool {
    use revm::DatabaseCommit;
    let mut db = RefDB::new(case.world.clone(), case.spec);
    let mut steps_any = false;
    for (i, tx) in case.txs.iter().enumerate() {
        let cj = || json!({"case": case.to_json(), "tx_index": i});
        let plain = match guarded(|| crate::wrun::transact_plain(&mut db.clone(), case.spec, &case.block, tx)) {
            Ok(r) => r,
            Err(p) => {
                report_panic(rep, "C28", &p, cj());
                return false;
            }
        };
        macro_rules! variant {
            ($name:expr, $insp:expr, $before:expr) => {{
                let r = guarded(|| with_insp(&mut db.clone(), case.spec, &case.block, tx, $insp, $before));
                rep.cell("variants", $name);
                match r {
                    Err(p) => report_panic(rep, "C28", &p, cj()),
                    Ok(r) => match (&plain, &r) {
                        (Ok(a), Ok(b)) => {
                            if a.result != b.result {
                                rep.violation(format!("C28/result-differs/{}", $name), format!("tx {i}: plain {:?} vs {} {:?}", outcome_of::<String>(&Ok(a.result.clone())).to_json().to_string(), $name, outcome_of::<String>(&Ok(b.result.clone())).to_json().to_string()), cj());
                            } else if let Some(d) = state_diff(&a.state, &b.state) {
                                rep.violation(format!("C28/state-differs/{}", $name), format!("tx {i}: {d}"), cj());
                            }
                        }
                        (Err(a), Err(b)) => {
                            if format!("{:?}", a) != format!("{:?}", b) {
                                rep.violation(format!("C28/error-differs/{}", $name), format!("tx {i}: plain {:?} vs {:?}", a, b), cj());
                            }
                        }
                        (a, b) => {
                            rep.violation(format!("C28/verdict-differs/{}", $name), format!("tx {i}: plain ok={} inspected ok={}", a.is_ok(), b.is_ok()), cj());
                        }
                    },
                }
            }};
        }
        variant!("NoOpInspector", NoOpInspector, false);
        variant!("GasInspector", GasInspector::default(), i % 2 == 0);
        variant!("TracerEip3155", TracerEip3155::new(Box::new(std::io::sink())), false);
        variant!("TracerEip3155+memory", TracerEip3155::new(Box::new(std::io::sink())).with_memory().without_summary(), true);
        if let Ok(rs) = plain {
            steps_any = true;
            db.commit(rs.state);
        }
    }
    steps_any
}

pub fn run(ctx: &Ctx) -> i32 {
    let mut rep = Report::new();
    if let Some(path) = &ctx.replay {
        let v: serde_json::Value = serde_json::from_str(&std::fs::read_to_string(path).expect("replay")).expect("json");
        let case = Case::from_json(&v["case"]["case"]);
        check(&case, &mut rep);
        // the recording inspector variant
        check_case(&case, &mut rep, false, None);
        keep_only(&mut rep, "C28");
        println!("replayed: {} violation(s)", rep.violations.len());
    } else {
        let n = ctx.n(8_000, 1_000_000);
        let shards = 64;
        rep = par_shards(ctx, shards, |_si, rng, rep| {
            for k in 0..(n / shards as u64).max(1) {
                let spec = random_spec(rng, true);
                // one case in eight runs validated EOF containers under OSAKA (EXT*CALL, EOFCREATE,
                // RETURNCONTRACT frames, factories whose nonce is exhausted)
                let case = if rng.chance(1, 8) { super::c26_eof::gen_eof_case(rng) } else { gen_case(rng, spec, 3) };
                let spec = case.spec;
                if spec == SpecId::OSAKA {
                    rep.count("osaka_cases");
                }
                rep.eval();
                rep.cell("cases_per_spec", spec_name(spec));
                if check(&case, rep) {
                    rep.nontrivial(case.hash());
                }
                // plus the harness's own recording inspector (same comparison inside check_case)
                if k % 4 == 0 {
                    let mut r2 = Report::new();
                    check_case(&case, &mut r2, false, None);
                    r2.violations.retain(|v| v.signature.starts_with("C28/"));
                    r2.counters.clear();
                    r2.tables.clear();
                    rep.merge_light(r2);
                }
                if rep.samples.len() < 2 && k == 3 {
                    rep.sample(json!({"spec": spec_name(case.spec), "tx0": case.txs[0].to_json()}));
                }
            }
        });
        for v in ["NoOpInspector", "GasInspector", "TracerEip3155", "TracerEip3155+memory"] {
            let have = rep.table_get("variants", v);
            rep.floor(&format!("runs with {v}"), have, 1000);
        }
    }
    finish(ctx, rep, Finish {
        level: "exploration",
        rule: "every transaction of every generated case (all SpecIds; one case in eight is a set of validated EOF containers under OSAKA) runs plain and with NoOpInspector, GasInspector, TracerEip3155 (sink writer; with and without memory capture) registered through inspector_handle_register, before or after another no-op register; ExecutionResult and the complete returned EvmState (info, status flags, every slot with original and present value and warmth) must be equal. Generated cases as in W (see C29). Non-trivial = at least one transaction executed; distinct by case hash.".into(),
        assumptions: vec!["CustomPrintTracer is not exercised (it only prints)".into()],
    })
}
