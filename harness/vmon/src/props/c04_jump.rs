//! C04 — jumps only onto real JUMPDESTs outside push data.
use crate::fw::*;
use crate::interp::*;
use revm_interpreter::{
    analysis::to_analysed,
    opcode::{make_boxed_instruction_table, BoxedInstructionTable},
    DummyHost, InstructionResult, Interpreter, SharedMemory,
};
use revm_primitives::{Bytecode, Bytes, Env, SpecId, U256};
use serde_json::{json, Value};
use std::cell::RefCell;
use std::rc::Rc;

/// the definition: linear scan, skipping PUSH immediates
fn valid_dests(code: &[u8]) -> Vec<bool> {
    let mut v = vec![false; code.len()];
    let mut i = 0;
    while i < code.len() {
        let op = code[i];
        if op == 0x5b {
            v[i] = true;
            i += 1;
        } else if (0x60..=0x7f).contains(&op) {
            i += 1 + (op - 0x5f) as usize;
        } else {
            i += 1;
        }
    }
    v
}

fn check_table(code: &[u8], rep: &mut Report, origin: &str) {
    rep.eval();
    let case = || json!({"kind": "table", "code": hex(code), "origin": origin});
    let r = guarded(|| {
        let bc = to_analysed(Bytecode::new_legacy(Bytes::copy_from_slice(code)));
        let t = bc.legacy_jump_table().expect("analysed").clone();
        let want = valid_dests(code);
        for pc in 0..code.len() + 40 {
            let w = want.get(pc).copied().unwrap_or(false);
            if t.is_valid(pc) != w {
                return Some((pc, w));
            }
        }
        for pc in [usize::MAX, usize::MAX / 2, 1 << 32, (1usize << 32) + 1, code.len() + 33, code.len() + 34, code.len() + 64] {
            if t.is_valid(pc) {
                return Some((pc, false));
            }
        }
        None
    });
    match r {
        Ok(None) => {}
        Ok(Some((pc, w))) => {
            let kind = if w { "real-jumpdest-rejected" } else if pc >= code.len() { "beyond-code-accepted" } else if code[pc] == 0x5b { "jumpdest-in-push-data-accepted" } else { "non-jumpdest-accepted" };
            rep.violation(format!("C04/table/{kind}"), format!("code {} pc {pc}: table says {}, definition {}", hex(code), !w, w), case());
        }
        Err(p) => report_panic(rep, "C04", &p, case()),
    }
}

type Obs = Rc<RefCell<Option<(InstructionResult, usize)>>>;

fn make_table(spec: SpecId, obs: Obs) -> BoxedInstructionTable<'static, DummyHost> {
    let plain = table_for(spec);
    let mut idx = 0usize;
    make_boxed_instruction_table(&plain, move |f| {
        let op = idx;
        idx += 1;
        if op == 0x56 || op == 0x57 {
            let obs = obs.clone();
            Box::new(move |i: &mut Interpreter, h: &mut DummyHost| {
                f(i, h);
                if obs.borrow().is_none() {
                    *obs.borrow_mut() = Some((i.instruction_result, i.program_counter()));
                    // first jump observed: stop the run here
                    if i.instruction_result == InstructionResult::Continue {
                        i.instruction_result = InstructionResult::Stop;
                    }
                }
            })
        } else {
            Box::new(f)
        }
    })
}

/// execute `PUSH32 t JUMP ++ body` (or the JUMPI form) and compare acceptance with the definition
fn check_exec(body: &[u8], target: U256, jumpi: Option<bool>, spec: SpecId, rep: &mut Report, counts: &mut [u64; 8]) {
    rep.eval();
    let mut code = vec![];
    if let Some(c) = jumpi {
        code.push(0x60);
        code.push(c as u8);
    }
    code.push(0x7f);
    code.extend_from_slice(&target.to_be_bytes::<32>());
    code.push(if jumpi.is_some() { 0x57 } else { 0x56 });
    let jump_pc = code.len() - 1;
    code.extend_from_slice(body);
    let case = || json!({"kind": "exec", "body": hex(body), "target": format!("{:#x}", target), "jumpi_cond": jumpi, "spec": spec_name(spec)});
    let want_table = valid_dests(&code);
    let t_usize: Option<usize> = if target <= U256::from(usize::MAX) { Some(target.as_limbs()[0] as usize) } else { None };
    let want = t_usize.map(|t| want_table.get(t).copied().unwrap_or(false)).unwrap_or(false);
    let obs: Obs = Rc::new(RefCell::new(None));
    let o2 = obs.clone();
    let codec = code.clone();
    let r = guarded(move || {
        let table = make_table(spec, o2);
        let mut host = DummyHost::new(Env::default());
        let mut interp = Interpreter::new(contract(&codec, &[]), 1_000_000, false);
        let mut mem = SharedMemory::new();
        mem.new_context();
        let _ = interp.run(mem, &table, &mut host);
    });
    if let Err(p) = r {
        report_panic(rep, "C04", &p, case());
        return;
    }
    let Some((res, pc_after)) = *obs.borrow() else {
        rep.inconclusive("C04 harness: jump instruction was not reached".to_string());
        return;
    };
    let form = if jumpi.is_some() { "JUMPI" } else { "JUMP" };
    if jumpi == Some(false) {
        // not taken: must continue at the next instruction whatever the target is
        counts[2] += 1;
        if res != InstructionResult::Continue || pc_after != jump_pc + 1 {
            rep.violation("C04/exec/JUMPI-not-taken-failed", format!("JUMPI with cond 0 and target {:#x}: {:?} pc {}", target, res, pc_after), case());
        }
        return;
    }
    if want {
        counts[0] += 1;
        if res != InstructionResult::Continue || Some(pc_after) != t_usize {
            rep.violation(format!("C04/exec/{form}/real-jumpdest-rejected"), format!("target {:#x} is a JUMPDEST outside push data but {form} gave {:?} (pc {})", target, res, pc_after), case());
        }
    } else {
        counts[1] += 1;
        if res != InstructionResult::InvalidJump {
            let kind = match t_usize {
                None => "target-above-usize-accepted",
                Some(t) if t >= code.len() => "beyond-code-accepted",
                Some(t) if code[t] == 0x5b => "jumpdest-in-push-data-accepted",
                _ => "non-jumpdest-accepted",
            };
            rep.violation(format!("C04/exec/{form}/{kind}"), format!("target {:#x}: definition rejects, {form} gave {:?} (pc {})", target, res, pc_after), case());
        }
    }
}

fn gen_body(rng: &mut Rng) -> Vec<u8> {
    let len = match rng.below(5) {
        0 => rng.usize(8),
        1 => rng.usize(40),
        2 => rng.usize(300),
        _ => rng.usize(120),
    };
    let mut b = Vec::with_capacity(len + 40);
    let style = rng.below(4);
    while b.len() < len {
        match style {
            0 => b.push(rng.below(256) as u8),
            1 => {
                // PUSH-dense with JUMPDEST bytes inside the data
                let n = rng.range(1, 32) as u8;
                b.push(0x5f + n);
                for _ in 0..n {
                    b.push(if rng.chance(1, 3) { 0x5b } else { rng.below(256) as u8 });
                }
                if rng.chance(1, 2) {
                    b.push(0x5b);
                }
            }
            2 => b.push(*rng.pick(&[0x5bu8, 0x5b, 0x60, 0x61, 0x7f, 0x00, 0x56, 0x57, 0x01])),
            _ => {
                if rng.chance(1, 3) {
                    b.push(0x5b)
                } else {
                    b.push(rng.below(256) as u8)
                }
            }
        }
    }
    // tails: truncated PUSHn, JUMPDEST as last byte
    match rng.below(4) {
        0 => {
            let n = rng.range(1, 32) as u8;
            b.push(0x5f + n);
            let have = rng.below(n as u64) as usize;
            for _ in 0..have {
                b.push(0x5b);
            }
        }
        1 => b.push(0x5b),
        _ => {}
    }
    b
}

pub fn run(ctx: &Ctx) -> i32 {
    let mut rep;
    let miri = ctx.lane == "miri";
    if let Some(path) = &ctx.replay {
        rep = Report::new();
        let v: Value = serde_json::from_str(&std::fs::read_to_string(path).expect("replay")).expect("json");
        let c = &v["case"];
        if c["kind"] == "table" {
            check_table(&unhex(c["code"].as_str().unwrap()), &mut rep, "replay");
        } else {
            let mut cnt = [0u64; 8];
            let t = U256::from_str_radix(c["target"].as_str().unwrap().trim_start_matches("0x"), 16).unwrap();
            check_exec(&unhex(c["body"].as_str().unwrap()), t, c["jumpi_cond"].as_bool(), spec_from_name(c["spec"].as_str().unwrap()).unwrap(), &mut rep, &mut cnt);
        }
        println!("replayed: {} violation(s)", rep.violations.len());
    } else {
        // (a) exhaustive alphabet strings
        let alpha = [0x5bu8, 0x60, 0x61, 0x7f, 0x00, 0x56];
        let maxlen = if miri { 3 } else if ctx.quick() { 6 } else { 7 };
        let shards = 36usize; // first two symbols select the shard
        rep = par_shards(ctx, shards + 1, |si, _rng, rep| {
            if si == shards {
                // lengths 0 and 1
                check_table(&[], rep, "alphabet");
                for a in alpha {
                    check_table(&[a], rep, "alphabet");
                    rep.nontrivial(hash64(&[a]));
                }
                return;
            }
            let (a, b) = (alpha[si / 6], alpha[si % 6]);
            for len in 2..=maxlen {
                let rest = len - 2;
                let total = 6usize.pow(rest as u32);
                for mut k in 0..total {
                    let mut code = vec![a, b];
                    for _ in 0..rest {
                        code.push(alpha[k % 6]);
                        k /= 6;
                    }
                    check_table(&code, rep, "alphabet");
                    rep.nontrivial(hash64(&code));
                }
            }
        });
        rep.extra.insert("alphabet_exhaustive_max_len".into(), json!(maxlen));
        rep.exhaustive = Some(false);
        // (b) generated code: table + executed JUMP/JUMPI
        let ncodes = if miri { ctx.n(30, 60) } else { ctx.n(6_000, 300_000) };
        let nsh = if miri { 1 } else { 64 };
        let per = (ncodes as usize / nsh).max(1);
        let r2 = par_shards(ctx, nsh, |_si, rng, rep| {
            let mut cnt = [0u64; 8];
            let specs = [SpecId::FRONTIER, SpecId::BERLIN, SpecId::CANCUN, SpecId::PRAGUE];
            for _ in 0..per {
                let body = gen_body(rng);
                check_table(&body, rep, "generated");
                rep.nontrivial(hash64(&body));
                if rep.samples.len() < 2 && body.len() > 4 && body.len() < 60 {
                    rep.sample(json!({"generated_body": hex(&body)}));
                }
                let spec = *rng.pick(&specs);
                let full_len = body.len() + 34;
                let step = if miri { 7 } else { 1 };
                // every target 0..len+40 with the JUMP form
                let mut t = 0usize;
                while t < full_len + 40 {
                    check_exec(&body, U256::from(t), None, spec, rep, &mut cnt);
                    t += step;
                }
                // wide targets: a valid destination d plus multiples of 2^32, 2^64, 2^128 (truncation bugs)
                let full = {
                    let mut c = vec![0x7f];
                    c.extend_from_slice(&[0u8; 32]);
                    c.push(0x56);
                    c.extend_from_slice(&body);
                    c
                };
                let dests: Vec<usize> = valid_dests(&full).iter().enumerate().filter(|(_, v)| **v).map(|(i, _)| i).collect();
                for d in dests.iter().take(3) {
                    for sh in [32usize, 64, 128, 255] {
                        let t = (U256::from(1u8) << sh) + U256::from(*d);
                        check_exec(&body, t, None, spec, rep, &mut cnt);
                        check_exec(&body, t, Some(true), spec, rep, &mut cnt);
                    }
                }
                for t in [U256::MAX, U256::from(full_len), U256::from(full_len + 33), U256::from(u64::MAX), U256::from(u32::MAX)] {
                    check_exec(&body, t, None, spec, rep, &mut cnt);
                }
                // JUMPI forms on a sample of targets
                for _ in 0..(if miri { 2 } else { 12 }) {
                    let t = if !dests.is_empty() && rng.chance(1, 2) { *rng.pick(&dests) } else { rng.usize(full_len + 44) };
                    let t = t + if jumpi_shift(rng) { 2 } else { 0 }; // JUMPI prefix is 2 bytes longer
                    check_exec(&body, U256::from(t), Some(true), spec, rep, &mut cnt);
                    check_exec(&body, U256::from(t), Some(false), spec, rep, &mut cnt);
                }
            }
            rep.add("exec_targets_definition_accepts", cnt[0]);
            rep.add("exec_targets_definition_rejects", cnt[1]);
            rep.add("exec_jumpi_not_taken", cnt[2]);
        });
        rep.merge(r2);
        if !miri {
            let (a, b) = (rep.counter("exec_targets_definition_accepts"), rep.counter("exec_targets_definition_rejects"));
            rep.floor("executed jumps onto valid destinations", a, 1000);
            rep.floor("executed jumps onto invalid destinations", b, 1000);
        }
        rep.sample(json!({"alphabet_string": "0x605b5b56", "meaning": "PUSH1 0x5b; JUMPDEST; JUMP — pc 1 is push data, pc 2 is a real JUMPDEST"}));
    }
    finish(ctx, rep, Finish {
        level: "exploration",
        rule: "(a) every byte string over {JUMPDEST,PUSH1,PUSH2,PUSH32,STOP,JUMP} up to length 7 (thorough; 6 quick): jump table vs linear-scan definition for every pc in 0..len+40 and far values; (b) generated code (random, PUSH-dense with JUMPDEST bytes in data, truncated trailing PUSHn, JUMPDEST last): table comparison plus executed `PUSH32 t JUMP` / `PUSH1 c PUSH32 t JUMPI` for every t in 0..len+40, t = d + 2^32/2^64/2^128/2^255 for valid d, 2^256-1, observed by wrapping the real JUMP/JUMPI instruction functions. Non-trivial = non-empty code; distinct by code bytes.".into(),
        assumptions: vec!["the 10-line linear scan is the definition (yellow paper 9.4.3)".into(), "lazy vs eager analysis of CREATE-deployed code is exercised through the Evm in C01/C25 workloads".into()],
    })
}

fn jumpi_shift(rng: &mut Rng) -> bool {
    rng.chance(1, 2)
}
