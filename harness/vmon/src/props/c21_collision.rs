//! C21 — contract creation collides with any address that has code, nonce or storage (EIP-7610),
//! whichever database layer holds that storage.
use crate::evmrun::*;
use crate::fw::*;
use crate::interp::*;
use crate::world::*;
use revm::db::{CacheDB, State};
use revm::primitives::{AccountInfo, Address, HashMap, SpecId, U256};
use revm::{Database, DatabaseCommit};
use serde_json::{json, Value};
use std::collections::BTreeMap;

const CREATOR: Address = addr(0xc7ea);

#[derive(Clone, Copy, Debug, PartialEq)]
enum Kind {
    Create,
    Create2,
    CreateTx,
}

#[derive(Clone, Debug)]
struct Shape {
    code: bool,
    nonce: bool,
    storage: bool,
    balance: bool,
}

const HOLDERS: [&str; 6] = ["RefDB", "WrapDatabaseRef<&RefDB>", "State<RefDB>", "State+cached-prestate", "CacheDB<RefDB>", "CacheDB+insert_account_storage"];

/// how the target address is made warm before the creation (EIP-2929): not at all, by an access-list
/// entry, by a BALANCE of the target executed by the creator first
#[derive(Clone, Copy, Debug, PartialEq)]
enum Warm {
    No,
    AccessList,
    BalanceFirst,
}

fn init_code() -> Vec<u8> {
    initcode_returning(&[0x00])
}

fn creator_code(kind: Kind, value: u64, touch_first: Option<Address>) -> Vec<u8> {
    let init = init_code();
    let mut a = Asm::new();
    if let Some(t) = touch_first {
        a.push_addr(t).op(0x31).op(0x50);
    }
    let mut off = 0;
    for chunk in init.chunks(32) {
        let mut w = [0u8; 32];
        w[..chunk.len()].copy_from_slice(chunk);
        a.push32(U256::from_be_bytes(w)).push_u(off).op(0x52);
        off += 32;
    }
    a.op(0x5a).push_u(2).op(0x55); // slot2 = gas before
    if kind == Kind::Create2 {
        a.push_u(5); // salt
    }
    a.push_u(init.len() as u64).push_u(0).push_u(value);
    a.op(if kind == Kind::Create2 { 0xf5 } else { 0xf0 });
    a.op(0x5a).push_u(1).op(0x55); // slot1 = gas after
    a.push_u(0).op(0x55); // slot0 = result
    a.op(0x00);
    a.finish()
}

fn target_address(kind: Kind, sender_nonce: u64) -> Address {
    match kind {
        Kind::Create => CREATOR.create(1),
        Kind::Create2 => CREATOR.create2_from_code(U256::from(5u8).to_be_bytes::<32>(), init_code()),
        Kind::CreateTx => SENDER1.create(sender_nonce),
    }
}

struct Setup {
    world_full: World,
    /// world without the target's storage / account (for holders that insert it themselves)
    target: Address,
    tx: TxSpec,
    block: BlockSpec,
}

fn setup(kind: Kind, shape: &Shape, value: u64, spec: SpecId, warm: Warm) -> Setup {
    let mut w = World::default();
    let eth = U256::from(10u64).pow(U256::from(18u8));
    w.accounts.insert(SENDER1, Acct { balance: eth * U256::from(10u64), nonce: 3, ..Default::default() });
    let target = target_address(kind, 3);
    if kind != Kind::CreateTx {
        w.accounts.insert(CREATOR, Acct { nonce: 1, balance: U256::from(1000u64), code: creator_code(kind, value, if warm == Warm::BalanceFirst { Some(target) } else { None }), ..Default::default() });
    }
    let mut t = Acct::default();
    if shape.code {
        t.code = vec![0x60, 0x01, 0x00];
    }
    if shape.nonce {
        t.nonce = 1;
    }
    if shape.storage {
        t.storage.insert(U256::from(3u8), U256::from(9u8));
    }
    if shape.balance {
        t.balance = U256::from(77u8);
    }
    if shape.code || shape.nonce || shape.storage || shape.balance {
        w.accounts.insert(target, t);
    }
    let mut block = BlockSpec::default();
    block.basefee = if spec >= SpecId::LONDON { 7 } else { 0 };
    let tx = match kind {
        Kind::CreateTx => TxSpec { to: None, data: init_code(), value: U256::from(value), gas_limit: 500_000, gas_price: U256::from(10u64), nonce: Some(3), ..Default::default() },
        _ => TxSpec { to: Some(CREATOR), gas_limit: 10_000_000, gas_price: U256::from(10u64), nonce: Some(3), ..Default::default() },
    };
    let mut tx = tx;
    if warm == Warm::AccessList {
        tx.access_list = vec![(target, vec![])];
    }
    Setup { world_full: w, target, tx, block }
}

/// the target as the transaction's returned state shows it (whether or not it is marked touched)
type Returned = Option<(u64, U256, revm::primitives::B256)>;

/// run on a holder; returns (outcome, post world as read through the holder, target in the returned state)
fn run_on(holder: &str, s: &Setup, spec: SpecId) -> Result<(TxOutcome, World, Returned), String> {
    let uni: BTreeMap<Address, std::collections::BTreeSet<U256>> = [s.target, CREATOR, SENDER1].iter().map(|a| (*a, (0..5u64).map(U256::from).collect())).collect();
    let codes = BTreeMap::new();
    let tacc = s.world_full.accounts.get(&s.target).cloned();
    let mut without_target = s.world_full.clone();
    without_target.accounts.remove(&s.target);
    let info_of = |a: &Acct| AccountInfo { balance: a.balance, nonce: a.nonce, code_hash: code_hash(&a.code), code: Some(to_bytecode(&a.code)) };
    macro_rules! go {
        ($db:expr) => {{
            let mut db = $db;
            let res = crate::wrun::transact_plain(&mut db, spec, &s.block, &s.tx);
            let out = outcome_of(&res.as_ref().map(|r| r.result.clone()).map_err(|e| e.clone()));
            let mut ret: Returned = None;
            if let Ok(rs) = res {
                ret = rs.state.get(&s.target).map(|a| (a.info.nonce, a.info.balance, a.info.code_hash));
                db.commit(rs.state);
            }
            let w = crate::statehist::read_universe(&mut db, &uni, &codes)?;
            Ok((out, w, ret))
        }};
    }
    match holder {
        "RefDB" => go!(RefDB::new(s.world_full.clone(), spec)),
        "WrapDatabaseRef<&RefDB>" => {
            // the read-only wrapper has no commit: execute through it, commit into the wrapped database
            let mut db = RefDB::new(s.world_full.clone(), spec);
            let res = crate::wrun::transact_plain(revm::db::WrapDatabaseRef(&db), spec, &s.block, &s.tx);
            let out = outcome_of(&res.as_ref().map(|r| r.result.clone()).map_err(|e| e.clone()));
            let mut ret: Returned = None;
            if let Ok(rs) = res {
                ret = rs.state.get(&s.target).map(|a| (a.info.nonce, a.info.balance, a.info.code_hash));
                db.commit(rs.state);
            }
            let w = crate::statehist::read_universe(&mut db, &uni, &codes)?;
            Ok((out, w, ret))
        }
        "State<RefDB>" => go!(crate::statehist::new_state(RefDB::new(s.world_full.clone(), spec), spec, false, None)),
        "State+cached-prestate" => {
            // (the account lives only in State's cache; its code is known to the database by hash, as
            // it would be for any real backing store — State's insert_account* helpers do not
            // register code for code_by_hash)
            let mut base = RefDB::new(without_target, spec);
            if let Some(t) = &tacc {
                if !t.code.is_empty() {
                    base.codes.insert(code_hash(&t.code), t.code.clone());
                }
            }
            let mut st = crate::statehist::new_state(base, spec, false, None);
            if let Some(t) = &tacc {
                let storage: HashMap<U256, U256> = t.storage.iter().map(|(k, v)| (*k, *v)).collect();
                st.insert_account_with_storage(s.target, info_of(t), storage);
            }
            go!(st)
        }
        "CacheDB<RefDB>" => go!(CacheDB::new(RefDB::new(s.world_full.clone(), spec))),
        _ => {
            let mut c = CacheDB::new(RefDB::new(without_target, spec));
            if let Some(t) = &tacc {
                c.insert_account_info(s.target, info_of(t));
                for (k, v) in t.storage.iter() {
                    c.insert_account_storage(s.target, *k, *v).map_err(|e| e.to_string())?;
                }
            }
            go!(c)
        }
    }
}

fn check(kind: Kind, shape: &Shape, value: u64, spec: SpecId, holder: &str, warm: Warm, rep: &mut Report) {
    rep.eval();
    let s = setup(kind, shape, value, spec, warm);
    let case = || json!({"kind": format!("{:?}", kind), "shape": {"code": shape.code, "nonce": shape.nonce, "storage": shape.storage, "balance": shape.balance}, "value": value, "spec": spec_name(spec), "holder": holder, "warm": format!("{:?}", warm)});
    rep.cell("target_warmed_before_creation", &format!("{:?}", warm));
    rep.nontrivial(hash64(case().to_string().as_bytes()));
    rep.cell("holders", holder);
    rep.cell("kinds", &format!("{:?}", kind));
    let want_collision = shape.code || shape.nonce || shape.storage;
    let shape_name = match (shape.code, shape.nonce, shape.storage) {
        (false, false, true) => "storage-only-target",
        (false, false, false) => "free-target",
        (true, _, _) => "target-with-code",
        (_, true, _) => "target-with-nonce",
    };
    let r = guarded(|| run_on(holder, &s, spec));
    let (out, post, returned) = match r {
        Err(p) => {
            report_panic(rep, "C21", &p, case());
            return;
        }
        Ok(Err(e)) => {
            rep.inconclusive(format!("C21 harness database error: {e}"));
            return;
        }
        Ok(Ok(x)) => x,
    };
    let pre_t = s.world_full.accounts.get(&s.target).cloned();
    let post_t = post.accounts.get(&s.target).cloned();
    let collided = match kind {
        Kind::CreateTx => matches!(&out, TxOutcome::Executed { class: "halt", reason, .. } if reason.contains("CreateCollision")),
        _ => {
            // slot0 of the creator = result of CREATE
            let r = post.accounts.get(&CREATOR).and_then(|a| a.storage.get(&U256::ZERO).copied()).unwrap_or_default();
            if !matches!(&out, TxOutcome::Executed { class: "success", .. }) {
                rep.inconclusive(format!("C21 harness: creator transaction did not succeed: {}", out.to_json()));
                return;
            }
            r.is_zero()
        }
    };
    rep.count(if want_collision { "cases_expecting_collision" } else { "cases_expecting_success" });
    if collided != want_collision {
        let dir = if want_collision { "no-collision" } else { "spurious-collision" };
        rep.violation(format!("C21/{dir}/{shape_name}/{holder}"), format!("{:?} onto {} ({shape_name}) behind {holder} in {}: collided={collided}, expected {want_collision}; outcome {}", kind, addr_hex(&s.target), spec_name(spec), out.to_json()), case());
        return;
    }
    if want_collision {
        // nothing changes at the target, value not moved
        if pre_t != post_t {
            rep.violation(format!("C21/target-changed-by-collision/{shape_name}/{holder}"), format!("target before {:?} after {:?}", pre_t, post_t), case());
        }
        // also in the state the transaction returns, whether or not the account is marked touched
        // (a caller that inspects or merges the returned state sees it)
        if let (Some(p), Some((n, b, h))) = (&pre_t, returned) {
            let hh = if h.is_zero() { revm::primitives::KECCAK_EMPTY } else { h };
            if n != p.nonce || b != p.balance || hh != code_hash(&p.code) {
                rep.violation(format!("C21/target-changed-in-returned-state/{shape_name}/{holder}"), format!("target before: nonce {} balance {} ; in the returned state: nonce {n} balance {b} code hash {hh}", p.nonce, p.balance), case());
            }
            rep.count("collisions_with_target_in_returned_state");
        }
        match kind {
            Kind::CreateTx => {
                if let TxOutcome::Executed { gas_used, .. } = &out {
                    if *gas_used != s.tx.gas_limit {
                        rep.violation(format!("C21/collision-did-not-consume-all-gas/tx/{holder}"), format!("gas_used {} of {}", gas_used, s.tx.gas_limit), case());
                    }
                }
                let sn = post.accounts.get(&SENDER1).map(|a| a.nonce).unwrap_or(0);
                if sn != 4 {
                    rep.violation(format!("C21/sender-nonce-after-collision/{holder}"), format!("sender nonce {sn}, expected 4"), case());
                }
            }
            _ => {
                let c = post.accounts.get(&CREATOR).cloned().unwrap_or_default();
                if c.nonce != 2 {
                    rep.violation(format!("C21/creator-nonce-after-collision/{holder}"), format!("creator nonce {}, expected 2", c.nonce), case());
                }
                if c.balance != U256::from(1000u64) {
                    rep.violation(format!("C21/value-moved-by-collision/{holder}"), format!("creator balance {}", c.balance), case());
                }
                if spec >= SpecId::TANGERINE {
                    let before = c.storage.get(&U256::from(2u8)).copied().unwrap_or_default();
                    let after = c.storage.get(&U256::from(1u8)).copied().unwrap_or_default();
                    // all gas passed (63/64 of what was left after the CREATE charge) is consumed
                    if after * U256::from(64u8) > before {
                        rep.violation(format!("C21/collision-did-not-consume-passed-gas/{holder}"), format!("gas before CREATE {before}, after {after}"), case());
                    }
                }
            }
        }
    } else {
        // success: code deployed at the target
        let code = post_t.map(|t| t.code).unwrap_or_default();
        if code != vec![0x00] {
            rep.violation(format!("C21/successful-create-wrong-code/{holder}"), format!("code at target {}", hex(&code)), case());
        }
    }
}

pub fn run(ctx: &Ctx) -> i32 {
    let mut rep = Report::new();
    if let Some(path) = &ctx.replay {
        let v: Value = serde_json::from_str(&std::fs::read_to_string(path).expect("replay")).expect("json");
        let c = &v["case"];
        let kind = match c["kind"].as_str().unwrap() {
            "Create" => Kind::Create,
            "Create2" => Kind::Create2,
            _ => Kind::CreateTx,
        };
        let sh = Shape { code: c["shape"]["code"].as_bool().unwrap(), nonce: c["shape"]["nonce"].as_bool().unwrap(), storage: c["shape"]["storage"].as_bool().unwrap(), balance: c["shape"]["balance"].as_bool().unwrap() };
        check(kind, &sh, c["value"].as_u64().unwrap(), spec_from_name(c["spec"].as_str().unwrap()).unwrap(), c["holder"].as_str().unwrap(), match c["warm"].as_str() { Some("AccessList") => Warm::AccessList, Some("BalanceFirst") => Warm::BalanceFirst, _ => Warm::No }, &mut rep);
        println!("replayed: {} violation(s)", rep.violations.len());
    } else {
        let mut jobs = vec![];
        for spec in ALL_SPECS.iter().copied().filter(|s| *s != SpecId::OSAKA || true) {
            for kind in [Kind::Create, Kind::Create2, Kind::CreateTx] {
                if kind == Kind::Create2 && spec < SpecId::CONSTANTINOPLE {
                    continue;
                }
                if kind == Kind::Create && spec < SpecId::TANGERINE {
                    continue;
                }
                for bits in 0..16u8 {
                    let sh = Shape { code: bits & 1 != 0, nonce: bits & 2 != 0, storage: bits & 4 != 0, balance: bits & 8 != 0 };
                    for value in [0u64, 5] {
                        for holder in HOLDERS {
                            jobs.push((kind, sh.clone(), value, spec, holder, Warm::No));
                            // the target already warm when the creation starts (EIP-2929 forks)
                            if spec >= SpecId::BERLIN && value == 0 {
                                jobs.push((kind, sh.clone(), value, spec, holder, Warm::AccessList));
                                if kind != Kind::CreateTx {
                                    jobs.push((kind, sh.clone(), value, spec, holder, Warm::BalanceFirst));
                                }
                            }
                        }
                    }
                }
            }
        }
        let jr = &jobs;
        let nsh = 32;
        rep = par_shards(ctx, nsh, |si, _rng, rep| {
            for (j, (k, sh, v, sp, h, wm)) in jr.iter().enumerate() {
                if j % nsh == si {
                    check(*k, sh, *v, *sp, h, *wm, rep);
                }
            }
        });
        rep.exhaustive = Some(true);
        rep.sample(json!({"kind": "Create2", "shape": {"code": false, "nonce": false, "storage": true, "balance": false}, "holder": "CacheDB<RefDB>", "spec": "CANCUN"}));
        rep.extra.insert("product".into(), json!("kind {CREATE(>=Tangerine), CREATE2(>=Constantinople), create tx} x target shape (code, nonce, storage, balance)^2 x value {0,5} x 6 holders x target warm/cold x all SpecIds"));
        let (a, b) = (rep.counter("cases_expecting_collision"), rep.counter("cases_expecting_success"));
        rep.floor("cases expecting a collision", a, 500);
        rep.floor("cases expecting success", b, 100);
    }
    finish(ctx, rep, Finish {
        level: "exploration",
        rule: "complete directed product: creation kind x 16 target pre-state shapes x endowment {0,5} x 6 holders of the target's data (RefDB directly; RefDB behind WrapDatabaseRef; State<RefDB>; State with the target inserted as cached prestate; CacheDB<RefDB>; CacheDB with insert_account_info/insert_account_storage) x every SpecId where the kind exists; from Berlin on also with the target address already warm when the creation starts (access-list entry; BALANCE of the target executed first). Oracle: collision <=> code or nonce or a non-zero slot; on collision the create result is 0 / Halt(CreateCollision), gas passed is consumed, the target and the endowment are untouched, the creator's nonce is bumped. EOF creation kinds are exercised by the C26 workload. Non-trivial/distinct: every cell of the product.".into(),
        assumptions: vec!["EIP-7610 is retroactive, so the same oracle applies to every SpecId".into()],
    })
}
