//! S1 — reference EVM (FRONTIER..PRAGUE), written from the yellow paper / EIPs / EELS structure.
//! Plain data structures (whole-state snapshots instead of a journal, sets instead of flags),
//! BigUint arithmetic for the ALU opcodes, explicit frame stack (no native recursion).
//! Precompile *internals* are delegated to revm-precompile (C23 judges those separately).
use crate::evmrun::{code_hash, LogRec, TxOutcome};
use crate::keccak::keccak256;
use crate::props::c03_arith::{arith_by_opcode, arity_of};
use crate::world::*;
use revm_primitives::{Address, SpecId, B256, U256};
use std::collections::{BTreeMap, BTreeSet};

const STACK_LIMIT: usize = 1024;
const DEPTH_LIMIT: usize = 1024;

#[derive(Clone)]
struct St {
    world: World,
    accessed_addrs: BTreeSet<Address>,
    accessed_slots: BTreeSet<(Address, U256)>,
    transient: BTreeMap<(Address, U256), U256>,
    logs: Vec<LogRec>,
    refund: i128,
    touched: BTreeSet<Address>,
    selfdestructs: BTreeSet<Address>,
    created: BTreeSet<Address>,
}

/// transaction-start values of storage slots (for net gas metering)
type Originals = BTreeMap<(Address, U256), U256>;

#[derive(Clone, Copy, PartialEq, Debug)]
enum Halt {
    OutOfGas,
    Invalid,
}

#[derive(Clone, Copy, PartialEq, Debug)]
enum FrameKind {
    Call,
    Create(Address),
}

struct Frame {
    kind: FrameKind,
    code: Vec<u8>,
    jumpdests: Vec<bool>,
    pc: usize,
    stack: Vec<U256>,
    mem: Vec<u8>,
    gas: u64,
    /// execution context
    address: Address,
    caller: Address,
    value: U256,
    input: Vec<u8>,
    is_static: bool,
    returndata: Vec<u8>,
    depth: usize,
    snapshot: Option<Box<St>>,
    /// where the parent wants the output (CALL family)
    out_off: usize,
    out_len: usize,
    /// the code was reached through an EIP-7702 designator (trace bookkeeping only: the real
    /// interpreter builds a frame for such a call even when the delegate's code is empty)
    via_delegation: bool,
}

enum Step {
    Continue,
    Done { ok: bool, revert: bool, output: Vec<u8> },
    /// a child frame has to run
    Spawn(Box<Frame>),
}

/// one record per dispatched instruction (lock-step comparison with the real interpreter)
#[derive(Clone, Debug, PartialEq)]
pub struct TraceRec {
    pub depth: u32,
    pub pc: u64,
    pub op: u8,
    pub gas: u64,
    pub stack_len: u32,
    pub top: U256,
    pub mem_len: u64,
}
pub const TRACE_CAP: usize = 40_000;

pub struct RefResult {
    pub trace: Vec<TraceRec>,
    pub op_hist: Vec<u32>,
    /// a balance would have exceeded 2^256-1: the case is outside the specification's domain
    pub out_of_domain: bool,
    pub outcome: TxOutcome,
    pub post: World,
    pub steps: u64,
}

fn u(x: u64) -> U256 {
    U256::from(x)
}

fn fits_usize(x: &U256) -> Option<usize> {
    if *x <= U256::from(u32::MAX as u64 * 64) {
        Some(x.as_limbs()[0] as usize)
    } else {
        None
    }
}

fn to_addr(x: &U256) -> Address {
    Address::from_slice(&x.to_be_bytes::<32>()[12..])
}

fn jumpdests(code: &[u8]) -> Vec<bool> {
    let mut v = vec![false; code.len()];
    let mut i = 0;
    while i < code.len() {
        let op = code[i];
        if op == 0x5b {
            v[i] = true;
        }
        i += if (0x60..=0x7f).contains(&op) { (op - 0x5f) as usize + 1 } else { 1 };
    }
    v
}

fn rlp_create_address(sender: &Address, nonce: u64) -> Address {
    // rlp([sender, nonce])
    let mut n = vec![];
    if nonce == 0 {
        n.push(0x80);
    } else if nonce < 0x80 {
        n.push(nonce as u8);
    } else {
        let b = nonce.to_be_bytes();
        let lead = b.iter().position(|x| *x != 0).unwrap();
        n.push(0x80 + (8 - lead) as u8);
        n.extend_from_slice(&b[lead..]);
    }
    let mut body = vec![0x94];
    body.extend_from_slice(sender.as_slice());
    body.extend_from_slice(&n);
    let mut out = vec![0xc0 + body.len() as u8];
    out.extend_from_slice(&body);
    Address::from_slice(&keccak256(&out)[12..])
}

fn create2_address(sender: &Address, salt: &U256, init: &[u8]) -> Address {
    let mut v = vec![0xff];
    v.extend_from_slice(sender.as_slice());
    v.extend_from_slice(&salt.to_be_bytes::<32>());
    v.extend_from_slice(&keccak256(init));
    Address::from_slice(&keccak256(&v)[12..])
}

fn delegation_target(code: &[u8]) -> Option<Address> {
    if code.len() == 23 && code[0] == 0xef && code[1] == 0x01 && code[2] == 0x00 {
        Some(Address::from_slice(&code[3..]))
    } else {
        None
    }
}

pub struct Machine<'a> {
    spec: SpecId,
    block: &'a BlockSpec,
    tx: &'a TxSpec,
    st: St,
    originals: Originals,
    pre_world: World,
    eff_price: U256,
    pub steps: u64,
    pub overflowed: bool,
    pub op_hist: Vec<u32>,
    pub trace: Vec<TraceRec>,
}

impl<'a> Machine<'a> {
    fn is(&self, s: SpecId) -> bool {
        self.spec >= s
    }
    fn acct(&self, a: &Address) -> Option<&Acct> {
        self.st.world.accounts.get(a)
    }
    fn exists(&self, a: &Address) -> bool {
        self.st.world.accounts.contains_key(a)
    }
    /// dead = absent or empty (EIP-161)
    fn dead(&self, a: &Address) -> bool {
        self.acct(a).map(|x| x.is_empty()).unwrap_or(true)
    }
    fn balance(&self, a: &Address) -> U256 {
        self.acct(a).map(|x| x.balance).unwrap_or_default()
    }
    fn code(&self, a: &Address) -> Vec<u8> {
        self.acct(a).map(|x| x.code.clone()).unwrap_or_default()
    }
    fn touch(&mut self, a: Address) {
        self.st.touched.insert(a);
        if !self.is(SpecId::SPURIOUS_DRAGON) {
            // before EIP-161 a touched address exists from then on
            self.st.world.accounts.entry(a).or_default();
        }
    }
    fn add_balance(&mut self, a: Address, v: U256) {
        let e = self.st.world.accounts.entry(a).or_default();
        match e.balance.checked_add(v) {
            Some(b) => e.balance = b,
            None => {
                // a balance above 2^256-1 is outside the specification's domain (total supply)
                self.overflowed = true;
                e.balance = e.balance.wrapping_add(v);
            }
        }
    }
    fn storage(&self, a: &Address, k: &U256) -> U256 {
        self.acct(a).and_then(|x| x.storage.get(k).copied()).unwrap_or_default()
    }
    fn original(&mut self, a: &Address, k: &U256) -> U256 {
        if let Some(v) = self.originals.get(&(*a, *k)) {
            return *v;
        }
        // accounts created in this transaction start from empty storage
        let v = if self.st.created.contains(a) { U256::ZERO } else { self.pre_world.accounts.get(a).and_then(|x| x.storage.get(k).copied()).unwrap_or_default() };
        v
    }
    fn access_addr(&mut self, a: Address) -> bool {
        // returns true if it was cold
        self.st.accessed_addrs.insert(a)
    }
    fn access_slot(&mut self, a: Address, k: U256) -> bool {
        self.st.accessed_slots.insert((a, k))
    }
    fn precompile_addrs(&self) -> Vec<Address> {
        let mut v: Vec<u8> = vec![1, 2, 3, 4];
        if self.is(SpecId::BYZANTIUM) {
            v.extend([5, 6, 7, 8]);
        }
        if self.is(SpecId::ISTANBUL) {
            v.push(9);
        }
        if self.is(SpecId::CANCUN) {
            v.push(10);
        }
        if self.is(SpecId::PRAGUE) {
            v.extend(11..=17u8);
        }
        v.into_iter().map(precompile).collect()
    }
    fn is_precompile(&self, a: &Address) -> bool {
        self.precompile_addrs().contains(a)
    }

    // ---------------------------------------------------------------------------------------
    // gas helpers
    // ---------------------------------------------------------------------------------------
    fn mem_cost(words: u128) -> u128 {
        3 * words + words * words / 512
    }
    /// charge for expanding memory to cover [off, off+len); returns false on out-of-gas
    fn expand(f: &mut Frame, off: &U256, len: &U256) -> bool {
        if len.is_zero() {
            return true;
        }
        let (Some(o), Some(l)) = (fits_usize(off), fits_usize(len)) else { return false };
        let end = o as u128 + l as u128;
        let new_words = (end + 31) / 32;
        let cur_words = (f.mem.len() / 32) as u128;
        if new_words > cur_words {
            let cost = Self::mem_cost(new_words) - Self::mem_cost(cur_words);
            if cost > f.gas as u128 {
                return false;
            }
            f.gas -= cost as u64;
            f.mem.resize(new_words as usize * 32, 0);
        }
        true
    }
    fn charge(f: &mut Frame, g: u128) -> bool {
        if g > f.gas as u128 {
            false
        } else {
            f.gas -= g as u64;
            true
        }
    }
    fn copy_words_cost(len: &U256, per: u128) -> Option<u128> {
        let l = fits_usize(len)? as u128;
        Some(per * ((l + 31) / 32))
    }
    fn read_padded(src: &[u8], off: &U256, len: usize) -> Vec<u8> {
        let mut out = vec![0u8; len];
        if let Some(o) = fits_usize(off) {
            if o < src.len() {
                let n = (src.len() - o).min(len);
                out[..n].copy_from_slice(&src[o..o + n]);
            }
        }
        out
    }

    // ---------------------------------------------------------------------------------------
    // one instruction
    // ---------------------------------------------------------------------------------------
    fn step(&mut self, f: &mut Frame) -> Result<Step, Halt> {
        self.steps += 1;
        // the real interpreter builds no frame for a message call into empty code; everywhere else
        // running off the end of the code is an executed STOP
        if self.trace.len() < TRACE_CAP && !(f.code.is_empty() && f.kind == FrameKind::Call && !f.via_delegation) {
            self.trace.push(TraceRec { depth: f.depth as u32, pc: f.pc as u64, op: f.code.get(f.pc).copied().unwrap_or(0), gas: f.gas, stack_len: f.stack.len() as u32, top: f.stack.last().copied().unwrap_or_default(), mem_len: f.mem.len() as u64 });
        }
        if f.pc >= f.code.len() {
            return Ok(Step::Done { ok: true, revert: false, output: vec![] });
        }
        let op = f.code[f.pc];
        self.op_hist[op as usize] += 1;
        macro_rules! oog {
            ($e:expr) => {
                if !$e {
                    return Err(Halt::OutOfGas);
                }
            };
        }
        macro_rules! need {
            ($n:expr) => {
                if f.stack.len() < $n {
                    return Err(Halt::Invalid);
                }
            };
        }
        macro_rules! pop {
            () => {{
                f.stack.pop().unwrap()
            }};
        }
        macro_rules! push {
            ($v:expr) => {{
                if f.stack.len() >= STACK_LIMIT {
                    return Err(Halt::Invalid);
                }
                f.stack.push($v);
            }};
        }
        let spec = self.spec;
        let berlin = self.is(SpecId::BERLIN);
        match op {
            0x00 => return Ok(Step::Done { ok: true, revert: false, output: vec![] }),
            // ALU
            0x01..=0x0b | 0x10..=0x1d => {
                let Some(ar) = arity_of(op) else { return Err(Halt::Invalid) };
                if (0x1b..=0x1d).contains(&op) && !self.is(SpecId::CONSTANTINOPLE) {
                    return Err(Halt::Invalid);
                }
                need!(ar);
                let n = f.stack.len();
                let args: Vec<U256> = (0..ar).map(|i| f.stack[n - 1 - i]).collect();
                let cost: u128 = match op {
                    0x01 | 0x03 | 0x10..=0x1d => 3,
                    0x02 | 0x04..=0x07 | 0x0b => 5,
                    0x08 | 0x09 => 8,
                    _ => {
                        // EXP
                        let bytes = (args[1].bit_len() as u128 + 7) / 8;
                        10 + bytes * if self.is(SpecId::SPURIOUS_DRAGON) { 50 } else { 10 }
                    }
                };
                oog!(Self::charge(f, cost));
                let r = arith_by_opcode(op, &args).ok_or(Halt::Invalid)?;
                f.stack.truncate(n - ar);
                f.stack.push(r);
            }
            0x20 => {
                need!(2);
                let off = pop!();
                let len = pop!();
                let w = Self::copy_words_cost(&len, 6).ok_or(Halt::OutOfGas)?;
                oog!(Self::charge(f, 30 + w));
                oog!(Self::expand(f, &off, &len));
                let l = fits_usize(&len).unwrap_or(0);
                let o = fits_usize(&off).unwrap_or(0);
                let h = keccak256(if l == 0 { &[] } else { &f.mem[o..o + l] });
                push!(U256::from_be_bytes(h));
            }
            0x30 => {
                oog!(Self::charge(f, 2));
                push!(U256::from_be_slice(f.address.as_slice()));
            }
            0x31 | 0x3b | 0x3f => {
                if op == 0x3f && !self.is(SpecId::CONSTANTINOPLE) {
                    return Err(Halt::Invalid);
                }
                need!(1);
                let a = to_addr(&pop!());
                let cost: u128 = if berlin {
                    if self.access_addr(a) { 2600 } else { 100 }
                } else {
                    match op {
                        0x31 => if self.is(SpecId::ISTANBUL) { 700 } else if self.is(SpecId::TANGERINE) { 400 } else { 20 },
                        0x3b => if self.is(SpecId::TANGERINE) { 700 } else { 20 },
                        _ => if self.is(SpecId::ISTANBUL) { 700 } else { 400 },
                    }
                };
                oog!(Self::charge(f, cost));
                let v = match op {
                    0x31 => self.balance(&a),
                    0x3b => u(self.code(&a).len() as u64),
                    _ => {
                        if self.dead(&a) {
                            U256::ZERO
                        } else {
                            U256::from_be_bytes(code_hash(&self.code(&a)).0)
                        }
                    }
                };
                push!(v);
            }
            0x32 => {
                oog!(Self::charge(f, 2));
                push!(U256::from_be_slice(self.tx.caller.as_slice()));
            }
            0x33 => {
                oog!(Self::charge(f, 2));
                push!(U256::from_be_slice(f.caller.as_slice()));
            }
            0x34 => {
                oog!(Self::charge(f, 2));
                push!(f.value);
            }
            0x35 => {
                need!(1);
                oog!(Self::charge(f, 3));
                let off = pop!();
                let d = Self::read_padded(&f.input, &off, 32);
                push!(U256::from_be_slice(&d));
            }
            0x36 => {
                oog!(Self::charge(f, 2));
                push!(u(f.input.len() as u64));
            }
            0x37 | 0x39 | 0x3e => {
                if op == 0x3e && !self.is(SpecId::BYZANTIUM) {
                    return Err(Halt::Invalid);
                }
                need!(3);
                let mo = pop!();
                let so = pop!();
                let len = pop!();
                let w = Self::copy_words_cost(&len, 3).ok_or(Halt::OutOfGas)?;
                oog!(Self::charge(f, 3 + w));
                if op == 0x3e {
                    // out-of-bounds read of return data is an exceptional halt
                    let end = so.checked_add(len);
                    match end {
                        Some(e) if e <= u(f.returndata.len() as u64) => {}
                        _ => return Err(Halt::Invalid),
                    }
                }
                oog!(Self::expand(f, &mo, &len));
                let l = fits_usize(&len).unwrap_or(0);
                if l > 0 {
                    let src: &[u8] = match op {
                        0x37 => &f.input,
                        0x39 => &f.code,
                        _ => &f.returndata,
                    };
                    let d = Self::read_padded(src, &so, l);
                    let o = fits_usize(&mo).unwrap();
                    f.mem[o..o + l].copy_from_slice(&d);
                }
            }
            0x38 => {
                oog!(Self::charge(f, 2));
                push!(u(f.code.len() as u64));
            }
            0x3a => {
                oog!(Self::charge(f, 2));
                push!(self.eff_price);
            }
            0x3c => {
                need!(4);
                let a = to_addr(&pop!());
                let mo = pop!();
                let so = pop!();
                let len = pop!();
                let base: u128 = if berlin { if self.access_addr(a) { 2600 } else { 100 } } else if self.is(SpecId::TANGERINE) { 700 } else { 20 };
                let w = Self::copy_words_cost(&len, 3).ok_or(Halt::OutOfGas)?;
                oog!(Self::charge(f, base + w));
                oog!(Self::expand(f, &mo, &len));
                let l = fits_usize(&len).unwrap_or(0);
                if l > 0 {
                    let d = Self::read_padded(&self.code(&a), &so, l);
                    let o = fits_usize(&mo).unwrap();
                    f.mem[o..o + l].copy_from_slice(&d);
                }
            }
            0x3d => {
                if !self.is(SpecId::BYZANTIUM) {
                    return Err(Halt::Invalid);
                }
                oog!(Self::charge(f, 2));
                push!(u(f.returndata.len() as u64));
            }
            0x40 => {
                need!(1);
                oog!(Self::charge(f, 20));
                let n = pop!();
                let cur = u(self.block.number);
                let v = if n < cur && n + u(256) >= cur {
                    fits_usize(&n).and_then(|x| self.st.world.block_hashes.get(&(x as u64)).copied()).map(|h| U256::from_be_bytes(h.0)).unwrap_or_default()
                } else {
                    U256::ZERO
                };
                push!(v);
            }
            0x41 => {
                oog!(Self::charge(f, 2));
                push!(U256::from_be_slice(self.block.coinbase.as_slice()));
            }
            0x42 => {
                oog!(Self::charge(f, 2));
                push!(u(self.block.timestamp));
            }
            0x43 => {
                oog!(Self::charge(f, 2));
                push!(u(self.block.number));
            }
            0x44 => {
                oog!(Self::charge(f, 2));
                push!(if self.is(SpecId::MERGE) { U256::from_be_bytes(self.block.prevrandao.0) } else { self.block.difficulty });
            }
            0x45 => {
                oog!(Self::charge(f, 2));
                push!(u(self.block.gas_limit));
            }
            0x46 => {
                if !self.is(SpecId::ISTANBUL) {
                    return Err(Halt::Invalid);
                }
                oog!(Self::charge(f, 2));
                push!(u(1));
            }
            0x47 => {
                if !self.is(SpecId::ISTANBUL) {
                    return Err(Halt::Invalid);
                }
                oog!(Self::charge(f, 5));
                push!(self.balance(&f.address));
            }
            0x48 => {
                if !self.is(SpecId::LONDON) {
                    return Err(Halt::Invalid);
                }
                oog!(Self::charge(f, 2));
                push!(u(self.block.basefee));
            }
            0x49 => {
                if !self.is(SpecId::CANCUN) {
                    return Err(Halt::Invalid);
                }
                need!(1);
                oog!(Self::charge(f, 3));
                let i = pop!();
                let v = fits_usize(&i).and_then(|i| self.tx.blob_hashes.get(i)).map(|h| U256::from_be_bytes(h.0)).unwrap_or_default();
                push!(v);
            }
            0x4a => {
                if !self.is(SpecId::CANCUN) {
                    return Err(Halt::Invalid);
                }
                oog!(Self::charge(f, 2));
                push!(blob_price(self.spec, self.block.excess_blob_gas));
            }
            0x50 => {
                need!(1);
                oog!(Self::charge(f, 2));
                pop!();
            }
            0x51 => {
                need!(1);
                oog!(Self::charge(f, 3));
                let off = pop!();
                oog!(Self::expand(f, &off, &u(32)));
                let o = fits_usize(&off).unwrap();
                push!(U256::from_be_slice(&f.mem[o..o + 32]));
            }
            0x52 | 0x53 => {
                need!(2);
                oog!(Self::charge(f, 3));
                let off = pop!();
                let v = pop!();
                let l = if op == 0x52 { 32 } else { 1 };
                oog!(Self::expand(f, &off, &u(l)));
                let o = fits_usize(&off).unwrap();
                if op == 0x52 {
                    f.mem[o..o + 32].copy_from_slice(&v.to_be_bytes::<32>());
                } else {
                    f.mem[o] = v.to_be_bytes::<32>()[31];
                }
            }
            0x54 => {
                need!(1);
                let k = pop!();
                let cost: u128 = if berlin {
                    if self.access_slot(f.address, k) { 2100 } else { 100 }
                } else if self.is(SpecId::ISTANBUL) {
                    800
                } else if self.is(SpecId::TANGERINE) {
                    200
                } else {
                    50
                };
                oog!(Self::charge(f, cost));
                push!(self.storage(&f.address, &k));
            }
            0x55 => {
                need!(2);
                if f.is_static {
                    return Err(Halt::Invalid);
                }
                let k = pop!();
                let new = pop!();
                if self.is(SpecId::ISTANBUL) && f.gas <= 2300 {
                    return Err(Halt::OutOfGas);
                }
                let cur = self.storage(&f.address, &k);
                let orig = self.original(&f.address, &k);
                let mut cost: u128;
                if self.is(SpecId::ISTANBUL) {
                    let (sload, reset): (u128, u128) = if berlin { (100, 2900) } else { (800, 5000) };
                    cost = if new == cur { sload } else if orig == cur { if orig.is_zero() { 20_000 } else { reset } } else { sload };
                    if berlin && self.access_slot(f.address, k) {
                        cost += 2100;
                    }
                    // refunds (EIP-2200 / 3529)
                    let clear: i128 = if self.is(SpecId::LONDON) { 4800 } else { 15_000 };
                    if new != cur {
                        if orig == cur {
                            if !orig.is_zero() && new.is_zero() {
                                self.st.refund += clear;
                            }
                        } else {
                            if !orig.is_zero() {
                                if cur.is_zero() {
                                    self.st.refund -= clear;
                                } else if new.is_zero() {
                                    self.st.refund += clear;
                                }
                            }
                            if orig == new {
                                if orig.is_zero() {
                                    self.st.refund += 20_000 - sload as i128;
                                } else {
                                    self.st.refund += reset as i128 - sload as i128;
                                }
                            }
                        }
                    }
                } else {
                    cost = if cur.is_zero() && !new.is_zero() { 20_000 } else { 5_000 };
                    if !cur.is_zero() && new.is_zero() {
                        self.st.refund += 15_000;
                    }
                }
                oog!(Self::charge(f, cost));
                self.originals.entry((f.address, k)).or_insert(orig);
                let e = self.st.world.accounts.entry(f.address).or_default();
                if new.is_zero() {
                    e.storage.remove(&k);
                } else {
                    e.storage.insert(k, new);
                }
            }
            0x56 | 0x57 => {
                need!(if op == 0x56 { 1 } else { 2 });
                oog!(Self::charge(f, if op == 0x56 { 8 } else { 10 }));
                let t = pop!();
                let cond = if op == 0x57 { !pop!().is_zero() } else { true };
                if cond {
                    match fits_usize(&t) {
                        Some(t) if t < f.code.len() && f.jumpdests[t] => {
                            f.pc = t;
                            return Ok(Step::Continue);
                        }
                        _ => return Err(Halt::Invalid),
                    }
                }
            }
            0x58 => {
                oog!(Self::charge(f, 2));
                push!(u(f.pc as u64));
            }
            0x59 => {
                oog!(Self::charge(f, 2));
                push!(u(f.mem.len() as u64));
            }
            0x5a => {
                oog!(Self::charge(f, 2));
                push!(u(f.gas));
            }
            0x5b => {
                oog!(Self::charge(f, 1));
            }
            0x5c | 0x5d => {
                if !self.is(SpecId::CANCUN) {
                    return Err(Halt::Invalid);
                }
                if op == 0x5c {
                    need!(1);
                    oog!(Self::charge(f, 100));
                    let k = pop!();
                    push!(self.st.transient.get(&(f.address, k)).copied().unwrap_or_default());
                } else {
                    need!(2);
                    if f.is_static {
                        return Err(Halt::Invalid);
                    }
                    oog!(Self::charge(f, 100));
                    let k = pop!();
                    let v = pop!();
                    self.st.transient.insert((f.address, k), v);
                }
            }
            0x5e => {
                if !self.is(SpecId::CANCUN) {
                    return Err(Halt::Invalid);
                }
                need!(3);
                let dst = pop!();
                let src = pop!();
                let len = pop!();
                let w = Self::copy_words_cost(&len, 3).ok_or(Halt::OutOfGas)?;
                oog!(Self::charge(f, 3 + w));
                let far = if dst > src { dst } else { src };
                oog!(Self::expand(f, &far, &len));
                let l = fits_usize(&len).unwrap_or(0);
                if l > 0 {
                    let (d, s) = (fits_usize(&dst).unwrap(), fits_usize(&src).unwrap());
                    let tmp = f.mem[s..s + l].to_vec();
                    f.mem[d..d + l].copy_from_slice(&tmp);
                }
            }
            0x5f => {
                if !self.is(SpecId::SHANGHAI) {
                    return Err(Halt::Invalid);
                }
                oog!(Self::charge(f, 2));
                push!(U256::ZERO);
            }
            0x60..=0x7f => {
                oog!(Self::charge(f, 3));
                let n = (op - 0x5f) as usize;
                let mut b = [0u8; 32];
                for i in 0..n {
                    b[32 - n + i] = f.code.get(f.pc + 1 + i).copied().unwrap_or(0);
                }
                push!(U256::from_be_bytes(b));
                f.pc += n;
            }
            0x80..=0x8f => {
                let n = (op - 0x7f) as usize;
                need!(n);
                oog!(Self::charge(f, 3));
                let v = f.stack[f.stack.len() - n];
                push!(v);
            }
            0x90..=0x9f => {
                let n = (op - 0x8f) as usize;
                need!(n + 1);
                oog!(Self::charge(f, 3));
                let l = f.stack.len();
                f.stack.swap(l - 1, l - 1 - n);
            }
            0xa0..=0xa4 => {
                let nt = (op - 0xa0) as usize;
                need!(2 + nt);
                if f.is_static {
                    return Err(Halt::Invalid);
                }
                let off = pop!();
                let len = pop!();
                let l = fits_usize(&len).ok_or(Halt::OutOfGas)? as u128;
                oog!(Self::charge(f, 375 + 375 * nt as u128 + 8 * l));
                oog!(Self::expand(f, &off, &len));
                let topics: Vec<B256> = (0..nt).map(|_| B256::from(f.stack.pop().unwrap().to_be_bytes::<32>())).collect();
                let o = fits_usize(&off).unwrap_or(0);
                let data = if l == 0 { vec![] } else { f.mem[o..o + l as usize].to_vec() };
                self.st.logs.push(LogRec { address: f.address, topics, data });
            }
            0xf0 | 0xf5 => return self.op_create(f, op),
            0xf1 | 0xf2 | 0xf4 | 0xfa => return self.op_call(f, op),
            0xf3 | 0xfd => {
                if op == 0xfd && !self.is(SpecId::BYZANTIUM) {
                    return Err(Halt::Invalid);
                }
                need!(2);
                let off = pop!();
                let len = pop!();
                oog!(Self::expand(f, &off, &len));
                let l = fits_usize(&len).unwrap_or(0);
                let o = fits_usize(&off).unwrap_or(0);
                let out = if l == 0 { vec![] } else { f.mem[o..o + l].to_vec() };
                return Ok(Step::Done { ok: op == 0xf3, revert: op == 0xfd, output: out });
            }
            0xff => {
                need!(1);
                if f.is_static {
                    return Err(Halt::Invalid);
                }
                let b = to_addr(&pop!());
                let bal = self.balance(&f.address);
                let mut cost: u128 = 0;
                if self.is(SpecId::TANGERINE) {
                    cost += 5000;
                    let topup = if self.is(SpecId::SPURIOUS_DRAGON) { self.dead(&b) && !bal.is_zero() } else { !self.exists(&b) };
                    if topup {
                        cost += 25_000;
                    }
                }
                if berlin && self.access_addr(b) {
                    cost += 2600;
                }
                oog!(Self::charge(f, cost));
                if !self.is(SpecId::LONDON) && !self.st.selfdestructs.contains(&f.address) {
                    self.st.refund += 24_000;
                }
                let created_now = self.st.created.contains(&f.address);
                if !self.is(SpecId::CANCUN) || created_now {
                    // the account is scheduled for deletion; its balance goes to the beneficiary
                    // (and is burned when the beneficiary is the account itself)
                    self.st.world.accounts.entry(f.address).or_default().balance = U256::ZERO;
                    if b != f.address {
                        self.add_balance(b, bal);
                    }
                    self.st.selfdestructs.insert(f.address);
                } else if b != f.address {
                    self.st.world.accounts.entry(f.address).or_default().balance = U256::ZERO;
                    self.add_balance(b, bal);
                }
                self.touch(b);
                return Ok(Step::Done { ok: true, revert: false, output: vec![] });
            }
            _ => return Err(Halt::Invalid),
        }
        let _ = spec;
        f.pc += 1;
        Ok(Step::Continue)
    }

    fn op_call(&mut self, f: &mut Frame, op: u8) -> Result<Step, Halt> {
        if op == 0xf4 && !self.is(SpecId::HOMESTEAD) {
            return Err(Halt::Invalid);
        }
        if op == 0xfa && !self.is(SpecId::BYZANTIUM) {
            return Err(Halt::Invalid);
        }
        let has_value = op == 0xf1 || op == 0xf2;
        let n = if has_value { 7 } else { 6 };
        if f.stack.len() < n {
            return Err(Halt::Invalid);
        }
        let gas_req = f.stack.pop().unwrap();
        let to = to_addr(&f.stack.pop().unwrap());
        let value = if has_value { f.stack.pop().unwrap() } else { U256::ZERO };
        let in_off = f.stack.pop().unwrap();
        let in_len = f.stack.pop().unwrap();
        let out_off = f.stack.pop().unwrap();
        let out_len = f.stack.pop().unwrap();
        if op == 0xf1 && f.is_static && !value.is_zero() {
            return Err(Halt::Invalid);
        }
        if !Self::expand(f, &in_off, &in_len) || !Self::expand(f, &out_off, &out_len) {
            return Err(Halt::OutOfGas);
        }
        // access cost
        let mut cost: u128 = if self.is(SpecId::BERLIN) { if self.access_addr(to) { 2600 } else { 100 } } else if self.is(SpecId::TANGERINE) { 700 } else { 40 };
        // EIP-7702: executing through a delegation pays for the target's access as well
        let mut code_addr = to;
        let mut code = self.code(&to);
        if self.is(SpecId::PRAGUE) {
            if let Some(t) = delegation_target(&code) {
                cost += if self.access_addr(t) { 2600 } else { 100 };
                code_addr = t;
                code = self.code(&t);
            }
        }
        if !value.is_zero() {
            cost += 9000;
        }
        if op == 0xf1 {
            let new_account = if self.is(SpecId::SPURIOUS_DRAGON) { !value.is_zero() && self.dead(&to) } else { !self.exists(&to) };
            if new_account {
                cost += 25_000;
            }
        }
        if !Self::charge(f, cost) {
            return Err(Halt::OutOfGas);
        }
        // gas to forward
        let forwarded: u64 = if self.is(SpecId::TANGERINE) {
            let max = f.gas - f.gas / 64;
            if gas_req > u(max) { max } else { gas_req.as_limbs()[0] }
        } else {
            if gas_req > u(f.gas) {
                return Err(Halt::OutOfGas);
            }
            gas_req.as_limbs()[0]
        };
        f.gas -= forwarded;
        let child_gas = forwarded + if !value.is_zero() { 2300 } else { 0 };
        f.returndata.clear();
        let (ol, oo) = (fits_usize(&out_len).unwrap_or(0), fits_usize(&out_off).unwrap_or(0));
        let il = fits_usize(&in_len).unwrap_or(0);
        let input = if il == 0 { vec![] } else { f.mem[fits_usize(&in_off).unwrap()..fits_usize(&in_off).unwrap() + il].to_vec() };
        // depth and balance checks: the call does not happen, the gas comes back
        let transfers = op == 0xf1 || op == 0xf2;
        if f.depth > DEPTH_LIMIT || (transfers && self.balance(&f.address) < value) {
            f.gas += child_gas;
            f.stack.push(U256::ZERO);
            f.pc += 1;
            return Ok(Step::Continue);
        }
        let (address, caller, cvalue, is_static) = match op {
            0xf1 => (to, f.address, value, f.is_static),
            0xf2 => (f.address, f.address, value, f.is_static),
            0xf4 => (f.address, f.caller, f.value, f.is_static),
            _ => (to, f.address, U256::ZERO, true),
        };
        let snapshot = Box::new(self.st.clone());
        // value moves for CALL; CALLCODE sends to itself (net zero)
        if op == 0xf1 && !value.is_zero() {
            let e = self.st.world.accounts.entry(f.address).or_default();
            e.balance -= value;
            self.add_balance(to, value);
        }
        self.touch(address);
        let is_pre = self.is_precompile(&code_addr) && code_addr == to;
        let jd = jumpdests(&code);
        let mut child = Frame { kind: FrameKind::Call, code, jumpdests: jd, pc: 0, stack: vec![], mem: vec![], gas: child_gas, address, caller, value: cvalue, input, is_static, returndata: vec![], depth: f.depth + 1, snapshot: Some(snapshot), out_off: oo, out_len: ol, via_delegation: code_addr != to };
        if is_pre {
            // run the precompile right here as a one-step frame: encode by empty code + marker
            child.code = vec![];
            child.jumpdests = vec![];
            child.kind = FrameKind::Call;
            child.pc = usize::MAX; // marker understood by run()
            child.address = to;
        } else if self.is(SpecId::PRAGUE) && code_addr != to && self.is_precompile(&code_addr) {
            // delegation to a precompile address executes empty code
            child.code = vec![];
            child.jumpdests = vec![];
        }
        Ok(Step::Spawn(Box::new(child)))
    }

    fn op_create(&mut self, f: &mut Frame, op: u8) -> Result<Step, Halt> {
        if op == 0xf5 && !self.is(SpecId::CONSTANTINOPLE) {
            return Err(Halt::Invalid);
        }
        let n = if op == 0xf5 { 4 } else { 3 };
        if f.stack.len() < n {
            return Err(Halt::Invalid);
        }
        if f.is_static {
            return Err(Halt::Invalid);
        }
        let value = f.stack.pop().unwrap();
        let off = f.stack.pop().unwrap();
        let len = f.stack.pop().unwrap();
        let salt = if op == 0xf5 { f.stack.pop().unwrap() } else { U256::ZERO };
        if !Self::expand(f, &off, &len) {
            return Err(Halt::OutOfGas);
        }
        let l = fits_usize(&len).unwrap_or(0);
        if self.is(SpecId::SHANGHAI) && l > 49_152 {
            return Err(Halt::OutOfGas);
        }
        let mut cost: u128 = 32_000;
        let words = ((l + 31) / 32) as u128;
        if op == 0xf5 {
            cost += 6 * words;
        }
        if self.is(SpecId::SHANGHAI) {
            cost += 2 * words;
        }
        if !Self::charge(f, cost) {
            return Err(Halt::OutOfGas);
        }
        let init = if l == 0 { vec![] } else { f.mem[fits_usize(&off).unwrap()..fits_usize(&off).unwrap() + l].to_vec() };
        let child_gas = if self.is(SpecId::TANGERINE) { f.gas - f.gas / 64 } else { f.gas };
        f.gas -= child_gas;
        f.returndata.clear();
        let sender = f.address;
        let nonce = self.acct(&sender).map(|a| a.nonce).unwrap_or(0);
        if self.balance(&sender) < value || nonce == u64::MAX || f.depth > DEPTH_LIMIT {
            f.gas += child_gas;
            f.stack.push(U256::ZERO);
            f.pc += 1;
            return Ok(Step::Continue);
        }
        self.st.world.accounts.entry(sender).or_default().nonce = nonce + 1;
        let addr = if op == 0xf5 { create2_address(&sender, &salt, &init) } else { rlp_create_address(&sender, nonce) };
        if self.is(SpecId::BERLIN) {
            self.access_addr(addr);
        }
        match self.begin_create(sender, addr, value, init, child_gas, f.depth + 1) {
            Some(child) => Ok(Step::Spawn(child)),
            None => {
                // collision: the gas given to the creation is consumed
                f.stack.push(U256::ZERO);
                f.pc += 1;
                Ok(Step::Continue)
            }
        }
    }

    /// collision check + account set-up; None on collision
    fn begin_create(&mut self, sender: Address, addr: Address, value: U256, init: Vec<u8>, gas: u64, depth: usize) -> Option<Box<Frame>> {
        let collision = self.acct(&addr).map(|a| !a.code.is_empty() || a.nonce != 0 || a.storage.values().any(|v| !v.is_zero())).unwrap_or(false);
        if collision {
            return None;
        }
        let snapshot = Box::new(self.st.clone());
        self.st.created.insert(addr);
        let e = self.st.world.accounts.entry(addr).or_default();
        e.storage.clear();
        if self.spec >= SpecId::SPURIOUS_DRAGON {
            e.nonce = 1;
        }
        if !value.is_zero() {
            self.st.world.accounts.entry(sender).or_default().balance -= value;
            self.add_balance(addr, value);
        }
        self.touch(addr);
        let jd = jumpdests(&init);
        Some(Box::new(Frame { kind: FrameKind::Create(addr), code: init, jumpdests: jd, pc: 0, stack: vec![], mem: vec![], gas, address: addr, caller: sender, value, input: vec![], is_static: false, returndata: vec![], depth, snapshot: Some(snapshot), out_off: 0, out_len: 0, via_delegation: false }))
    }

    /// finish a create frame that returned `code`; returns (ok, gas_left)
    fn finish_create(&mut self, addr: Address, code: Vec<u8>, mut gas: u64) -> Result<u64, Halt> {
        if self.is(SpecId::LONDON) && code.first() == Some(&0xef) {
            return Err(Halt::Invalid);
        }
        if self.is(SpecId::SPURIOUS_DRAGON) && code.len() > 24_576 {
            return Err(Halt::OutOfGas);
        }
        let deposit = 200u128 * code.len() as u128;
        if deposit > gas as u128 {
            if self.is(SpecId::HOMESTEAD) {
                return Err(Halt::OutOfGas);
            }
            // Frontier: the contract is created without code
            return Ok(gas);
        }
        gas -= deposit as u64;
        self.st.world.accounts.entry(addr).or_default().code = code;
        Ok(gas)
    }

    fn restore(&mut self, snap: Box<St>) {
        let ripemd = precompile(3);
        let keep_ripemd = self.is(SpecId::SPURIOUS_DRAGON) && self.st.touched.contains(&ripemd);
        let accessed_a = std::mem::take(&mut self.st.accessed_addrs);
        let accessed_s = std::mem::take(&mut self.st.accessed_slots);
        self.st = *snap;
        // EIP-2929: accesses inside a reverted frame are forgotten (snapshot has the older sets)
        let _ = (accessed_a, accessed_s);
        if keep_ripemd {
            self.st.touched.insert(ripemd);
        }
    }

    fn run_precompile(&mut self, addr: &Address, input: &[u8], gas: u64) -> (bool, Vec<u8>, u64) {
        use revm_precompile::{PrecompileErrors, PrecompileSpecId, Precompiles};
        let pre = Precompiles::new(PrecompileSpecId::from_spec_id(self.spec));
        let Some(p) = pre.get(addr) else { return (true, vec![], gas) };
        let env = revm_primitives::Env::default();
        let inp = revm_primitives::Bytes::copy_from_slice(input);
        let r = match p {
            revm_precompile::Precompile::Standard(f) => f(&inp, gas),
            revm_precompile::Precompile::Env(f) => f(&inp, gas, &env),
            _ => return (false, vec![], 0),
        };
        match r {
            Ok(o) if o.gas_used <= gas => (true, o.bytes.to_vec(), gas - o.gas_used),
            Ok(_) => (false, vec![], 0),
            Err(PrecompileErrors::Error(_)) => (false, vec![], 0),
            Err(_) => (false, vec![], 0),
        }
    }

    /// run a frame stack to completion; returns (ok, revert, output, gas_left) of the bottom frame
    fn run(&mut self, first: Box<Frame>) -> (bool, bool, Vec<u8>, u64) {
        let mut stack: Vec<Box<Frame>> = vec![first];
        loop {
            let mut f = stack.pop().unwrap();
            // result of this frame once it finishes: (ok, revert, output, gas_left)
            let res: (bool, bool, Vec<u8>, u64) = if f.pc == usize::MAX {
                // precompile frame
                let (ok, out, left) = self.run_precompile(&f.address.clone(), &f.input.clone(), f.gas);
                (ok, false, out, if ok { left } else { 0 })
            } else {
                let mut out = None;
                let mut spawned = None;
                loop {
                    match self.step(&mut f) {
                        Ok(Step::Continue) => continue,
                        Ok(Step::Done { ok, revert, output }) => {
                            out = Some((ok, revert, output, f.gas));
                            break;
                        }
                        Ok(Step::Spawn(child)) => {
                            spawned = Some(child);
                            break;
                        }
                        Err(_) => {
                            out = Some((false, false, vec![], 0));
                            break;
                        }
                    }
                }
                if let Some(child) = spawned {
                    stack.push(f);
                    stack.push(child);
                    continue;
                }
                out.unwrap()
            };
            let (mut ok, revert, mut output, mut gas_left) = res;
            // frame epilogue
            let kind = f.kind;
            let snap = f.snapshot.take();
            if let FrameKind::Create(addr) = kind {
                if ok {
                    match self.finish_create(addr, output.clone(), gas_left) {
                        Ok(g) => {
                            gas_left = g;
                        }
                        Err(_) => {
                            ok = false;
                            gas_left = 0;
                            output = vec![];
                        }
                    }
                }
            }
            if !ok {
                if let Some(s) = snap {
                    self.restore(s);
                }
                if !revert {
                    gas_left = 0;
                    output = vec![];
                }
            }
            let Some(parent) = stack.last_mut() else {
                return (ok, revert, output, gas_left);
            };
            // hand the result to the parent
            parent.gas += gas_left;
            match kind {
                FrameKind::Call => {
                    parent.stack.push(if ok { U256::from(1u8) } else { U256::ZERO });
                    let n = f.out_len.min(output.len());
                    if n > 0 {
                        parent.mem[f.out_off..f.out_off + n].copy_from_slice(&output[..n]);
                    }
                    parent.returndata = output;
                }
                FrameKind::Create(addr) => {
                    parent.stack.push(if ok { U256::from_be_slice(addr.as_slice()) } else { U256::ZERO });
                    parent.returndata = if revert { output } else { vec![] };
                }
            }
            parent.pc += 1;
        }
    }
}

pub fn blob_price(spec: SpecId, excess: u64) -> U256 {
    use num_bigint::BigUint;
    let d = BigUint::from(if spec >= SpecId::PRAGUE { 5007716u64 } else { 3338477u64 });
    let n = BigUint::from(excess);
    let mut i = BigUint::from(1u32);
    let mut out = BigUint::from(0u32);
    let mut acc = d.clone();
    while acc > BigUint::from(0u32) {
        out += &acc;
        acc = (&acc * &n) / (&d * &i);
        i += 1u32;
    }
    let v = out / d;
    let b = v.to_bytes_be();
    if b.len() > 32 {
        U256::MAX
    } else {
        U256::from_be_slice(&b)
    }
}

/// transaction validity (Appendix A.3); Some(reason) = rejected
pub fn validate(world: &World, spec: SpecId, block: &BlockSpec, tx: &TxSpec) -> Option<&'static str> {
    let is = |s: SpecId| spec >= s;
    if let Some(c) = tx.chain_id {
        if c != 1 {
            return Some("chain-id");
        }
    }
    if tx.gas_limit > block.gas_limit {
        return Some("gas-limit-above-block");
    }
    if !is(SpecId::BERLIN) && !tx.access_list.is_empty() {
        return Some("access-list-before-berlin");
    }
    let base = U256::from(block.basefee);
    if is(SpecId::LONDON) {
        if let Some(p) = tx.priority_fee {
            if p > tx.gas_price {
                return Some("priority-above-max-fee");
            }
        }
        let eff = match tx.priority_fee {
            Some(p) => tx.gas_price.min(base.saturating_add(p)),
            None => tx.gas_price,
        };
        if eff < base {
            return Some("fee-below-base-fee");
        }
    }
    if is(SpecId::SHANGHAI) && tx.to.is_none() && tx.data.len() > 49_152 {
        return Some("initcode-too-large");
    }
    if !is(SpecId::CANCUN) && (tx.max_fee_per_blob_gas.is_some() || !tx.blob_hashes.is_empty()) {
        return Some("blob-fields-before-cancun");
    }
    if let Some(maxfee) = tx.max_fee_per_blob_gas {
        if blob_price(spec, block.excess_blob_gas) > maxfee {
            return Some("blob-fee-cap-below-price");
        }
        if tx.blob_hashes.is_empty() {
            return Some("blob-tx-without-blobs");
        }
        if tx.to.is_none() {
            return Some("blob-create");
        }
        if tx.blob_hashes.iter().any(|h| h.0[0] != 1) {
            return Some("blob-hash-version");
        }
        let max = if is(SpecId::PRAGUE) { 9 } else { 6 };
        if tx.blob_hashes.len() > max {
            return Some("too-many-blobs");
        }
    } else if !tx.blob_hashes.is_empty() {
        return Some("blob-hashes-without-fee-cap");
    }
    if !is(SpecId::PRAGUE) && tx.auth_list.is_some() {
        return Some("auth-list-before-prague");
    }
    if let Some(l) = &tx.auth_list {
        if l.is_empty() {
            return Some("empty-auth-list");
        }
        if tx.max_fee_per_blob_gas.is_some() || !tx.blob_hashes.is_empty() {
            return Some("auth-list-with-blob-fields");
        }
        if tx.to.is_none() {
            return Some("auth-list-on-create");
        }
    }
    // intrinsic gas / floor
    let (intrinsic, floor) = crate::props::online::intrinsic_gas(spec, tx);
    if intrinsic > tx.gas_limit as u128 || floor > tx.gas_limit as u128 {
        return Some("intrinsic-gas");
    }
    // sender
    let s = world.accounts.get(&tx.caller).cloned().unwrap_or_default();
    if !s.code.is_empty() && !(is(SpecId::PRAGUE) && delegation_target(&s.code).is_some()) {
        return Some("sender-has-code");
    }
    if let Some(n) = tx.nonce {
        if n != s.nonce {
            return Some("nonce-mismatch");
        }
        if n == u64::MAX {
            return Some("nonce-max");
        }
    }
    // max cost
    let Some(gas_cost) = U256::from(tx.gas_limit).checked_mul(tx.gas_price) else { return Some("cost-overflow") };
    let Some(mut total) = gas_cost.checked_add(tx.value) else { return Some("cost-overflow") };
    if is(SpecId::CANCUN) {
        if let Some(mf) = tx.max_fee_per_blob_gas {
            let bg = U256::from(131_072u64 * tx.blob_hashes.len() as u64);
            let Some(bf) = mf.checked_mul(bg) else { return Some("cost-overflow") };
            let Some(t) = total.checked_add(bf) else { return Some("cost-overflow") };
            total = t;
        }
    }
    if total > s.balance {
        return Some("insufficient-funds");
    }
    None
}

/// Execute one transaction on `world` (mutated to the post-state when accepted).
pub fn ref_transact(world: &mut World, spec: SpecId, block: &BlockSpec, tx: &TxSpec) -> RefResult {
    if let Some(r) = validate(world, spec, block, tx) {
        return RefResult { trace: vec![], op_hist: vec![], out_of_domain: false, outcome: TxOutcome::Rejected(r.to_string()), post: world.clone(), steps: 0 };
    }
    let is = |s: SpecId| spec >= s;
    let base = U256::from(block.basefee);
    let eff_price = match tx.priority_fee {
        Some(p) => tx.gas_price.min(base.saturating_add(p)),
        None => tx.gas_price,
    };
    let st = St { world: world.clone(), accessed_addrs: BTreeSet::new(), accessed_slots: BTreeSet::new(), transient: BTreeMap::new(), logs: vec![], refund: 0, touched: BTreeSet::new(), selfdestructs: BTreeSet::new(), created: BTreeSet::new() };
    let mut m = Machine { spec, block, tx, st, originals: BTreeMap::new(), pre_world: world.clone(), eff_price, steps: 0, overflowed: false, op_hist: vec![0; 256], trace: vec![] };
    let (intrinsic, floor) = crate::props::online::intrinsic_gas(spec, tx);
    let sender = tx.caller;
    let sender_nonce = m.acct(&sender).map(|a| a.nonce).unwrap_or(0);
    // pre-warm
    if is(SpecId::BERLIN) {
        m.st.accessed_addrs.insert(sender);
        for p in m.precompile_addrs() {
            m.st.accessed_addrs.insert(p);
        }
        for (a, ks) in &tx.access_list {
            m.st.accessed_addrs.insert(*a);
            for k in ks {
                m.st.accessed_slots.insert((*a, *k));
            }
        }
        if is(SpecId::SHANGHAI) {
            m.st.accessed_addrs.insert(block.coinbase);
        }
    }
    // up-front payment and nonce
    let blob_fee = if is(SpecId::CANCUN) && !tx.blob_hashes.is_empty() { blob_price(spec, block.excess_blob_gas) * U256::from(131_072u64 * tx.blob_hashes.len() as u64) } else { U256::ZERO };
    {
        let e = m.st.world.accounts.entry(sender).or_default();
        e.balance = e.balance - U256::from(tx.gas_limit) * eff_price - blob_fee;
        e.nonce = sender_nonce.wrapping_add(1);
    }
    m.touch(sender);
    // EIP-7702 authorizations
    let mut auth_refund: i128 = 0;
    if is(SpecId::PRAGUE) {
        if let Some(l) = &tx.auth_list {
            for a in l {
                if a.chain_id != 0 && a.chain_id != 1 {
                    continue;
                }
                if a.nonce == u64::MAX {
                    continue;
                }
                let Some(auth) = a.authority else { continue };
                m.st.accessed_addrs.insert(auth);
                let acc = m.acct(&auth).cloned().unwrap_or_default();
                if !acc.code.is_empty() && delegation_target(&acc.code).is_none() {
                    continue;
                }
                if acc.nonce != a.nonce {
                    continue;
                }
                if m.exists(&auth) && !m.dead(&auth) {
                    auth_refund += 12_500;
                } else if m.exists(&auth) {
                    // exists in the trie although empty
                }
                let e = m.st.world.accounts.entry(auth).or_default();
                e.code = if a.address.is_zero() { vec![] } else { designator(a.address) };
                e.nonce += 1;
                m.st.touched.insert(auth);
            }
        }
    }
    let gas = tx.gas_limit - intrinsic as u64;
    let (ok, revert, output, gas_left, created): (bool, bool, Vec<u8>, u64, Option<Address>) = match tx.to {
        None => {
            let addr = rlp_create_address(&sender, sender_nonce);
            if is(SpecId::BERLIN) {
                m.st.accessed_addrs.insert(addr);
            }
            match m.begin_create(sender, addr, tx.value, tx.data.clone(), gas, 1) {
                None => (false, false, vec![], 0, None),
                Some(fr) => {
                    let (ok, rv, out, left) = m.run(fr);
                    (ok, rv, out, left, if ok { Some(addr) } else { None })
                }
            }
        }
        Some(to) => {
            if is(SpecId::BERLIN) {
                m.st.accessed_addrs.insert(to);
            }
            let mut code = m.code(&to);
            let mut pre = m.is_precompile(&to);
            let mut delegated = false;
            if is(SpecId::PRAGUE) {
                if let Some(t) = delegation_target(&code) {
                    delegated = true;
                    m.st.accessed_addrs.insert(t);
                    code = if m.is_precompile(&t) { vec![] } else { m.code(&t) };
                    pre = false;
                }
            }
            if m.balance(&sender) < tx.value {
                // cannot happen after validation
                (false, false, vec![], 0, None)
            } else {
                let snapshot = Box::new(m.st.clone());
                if !tx.value.is_zero() {
                    m.st.world.accounts.entry(sender).or_default().balance -= tx.value;
                    m.add_balance(to, tx.value);
                }
                m.touch(to);
                let jd = jumpdests(&code);
                let mut fr = Box::new(Frame { kind: FrameKind::Call, code, jumpdests: jd, pc: 0, stack: vec![], mem: vec![], gas, address: to, caller: sender, value: tx.value, input: tx.data.clone(), is_static: false, returndata: vec![], depth: 1, snapshot: Some(snapshot), out_off: 0, out_len: 0, via_delegation: delegated });
                if pre {
                    fr.pc = usize::MAX;
                }
                let (ok, rv, out, left) = m.run(fr);
                (ok, rv, out, left, None)
            }
        }
    };
    // refund
    let used_before = tx.gas_limit - gas_left;
    let counter: i128 = auth_refund + if ok { m.st.refund.max(0) } else { 0 };
    let q = if is(SpecId::LONDON) { 5 } else { 2 };
    let refund = (counter.max(0) as u128).min(used_before as u128 / q) as u64;
    let mut gas_used = used_before - refund;
    let mut reported_refund = refund;
    if is(SpecId::PRAGUE) && (gas_used as u128) < floor {
        gas_used = floor as u64;
        reported_refund = 0;
    }
    // pay back the sender, pay the beneficiary
    m.add_balance(sender, U256::from(tx.gas_limit - gas_used) * eff_price);
    let tip = if is(SpecId::LONDON) { eff_price - base } else { eff_price };
    m.add_balance(block.coinbase, tip * U256::from(gas_used));
    m.touch(block.coinbase);
    // deletions
    let logs = if ok { m.st.logs.clone() } else { vec![] };
    for a in m.st.selfdestructs.clone() {
        m.st.world.accounts.remove(&a);
    }
    if is(SpecId::SPURIOUS_DRAGON) {
        for a in m.st.touched.clone() {
            if m.acct(&a).map(|x| x.is_empty()).unwrap_or(false) {
                m.st.world.accounts.remove(&a);
            }
        }
    }
    *world = m.st.world.clone();
    let class = if ok { "success" } else if revert { "revert" } else { "halt" };
    RefResult {
        trace: std::mem::take(&mut m.trace),
        op_hist: m.op_hist.clone(),
        out_of_domain: m.overflowed,
        outcome: TxOutcome::Executed { class, reason: String::new(), gas_used, gas_refunded: if ok { reported_refund } else { 0 }, output: if ok || revert { output } else { vec![] }, logs, created },
        post: world.clone(),
        steps: m.steps,
    }
}
