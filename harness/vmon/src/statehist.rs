//! Histories for the state / bundle layer (C15..C19): steps executed on `State<RefDB>` (the code
//! under test), on `CacheDB<RefDB>`, and on the plain reference (RefDB + independent applier).
use crate::evmrun::*;
use crate::fw::*;
use crate::interp::*;
use crate::world::*;
use revm::db::states::bundle_state::BundleRetention;
use revm::db::states::{PlainStateReverts, StateChangeset};
use revm::db::{BundleState, CacheDB, OriginalValuesKnown, RevertToSlot, State};
use revm::primitives::{Address, SpecId, B256, KECCAK_EMPTY, U256};
use revm::{Database, DatabaseCommit};
use serde_json::{json, Value};
use std::collections::{BTreeMap, BTreeSet};

// ------------------------------------------------------------------------------------------------
// plain state with separate info / storage tables (how a node's plain-state database looks)
// ------------------------------------------------------------------------------------------------

#[derive(Clone, Debug, Default, PartialEq, Eq)]
pub struct Plain {
    pub infos: BTreeMap<Address, (U256, u64, Vec<u8>)>,
    pub storage: BTreeMap<Address, BTreeMap<U256, U256>>,
}

impl Plain {
    pub fn from_world(w: &World) -> Plain {
        let mut p = Plain::default();
        for (a, acc) in &w.accounts {
            p.infos.insert(*a, (acc.balance, acc.nonce, acc.code.clone()));
            let st: BTreeMap<U256, U256> = acc.storage.iter().filter(|(_, v)| !v.is_zero()).map(|(k, v)| (*k, *v)).collect();
            if !st.is_empty() {
                p.storage.insert(*a, st);
            }
        }
        p
    }
    pub fn normalise(&mut self) {
        self.storage.retain(|_, m| {
            m.retain(|_, v| !v.is_zero());
            !m.is_empty()
        });
    }
    pub fn diff(&self, o: &Plain) -> Option<String> {
        let keys: BTreeSet<_> = self.infos.keys().chain(o.infos.keys()).collect();
        for k in keys {
            match (self.infos.get(k), o.infos.get(k)) {
                (Some(a), Some(b)) if a == b => {}
                (Some(a), Some(b)) => {
                    let f = if a.0 != b.0 { "balance" } else if a.1 != b.1 { "nonce" } else { "code" };
                    return Some(format!("account {} {f}: ({}, {}, code {}B) vs ({}, {}, code {}B)", addr_hex(k), a.0, a.1, a.2.len(), b.0, b.1, b.2.len()));
                }
                (Some(_), None) => return Some(format!("account {} present vs absent", addr_hex(k))),
                (None, Some(_)) => return Some(format!("account {} absent vs present", addr_hex(k))),
                _ => {}
            }
        }
        let keys: BTreeSet<_> = self.storage.keys().chain(o.storage.keys()).collect();
        for k in keys {
            let e = BTreeMap::new();
            let (a, b) = (self.storage.get(k).unwrap_or(&e), o.storage.get(k).unwrap_or(&e));
            let sk: BTreeSet<_> = a.keys().chain(b.keys()).collect();
            for s in sk {
                let (x, y) = (a.get(s).copied().unwrap_or_default(), b.get(s).copied().unwrap_or_default());
                if x != y {
                    return Some(format!("storage {} slot {}: {} vs {}", addr_hex(k), s, x, y));
                }
            }
        }
        None
    }
    /// address at which the first difference (as reported by `diff`) sits
    pub fn diff_addr(&self, o: &Plain) -> Option<Address> {
        let d = self.diff(o)?;
        let i = d.find("0x")?;
        let hexs = &d[i + 2..i + 42];
        Some(Address::from_slice(&crate::fw::unhex(hexs)))
    }
    /// classify a difference for signatures
    pub fn diff_kind(&self, o: &Plain) -> &'static str {
        match self.diff(o) {
            None => "equal",
            Some(d) if d.starts_with("storage") => "storage",
            Some(d) if d.contains("present vs absent") || d.contains("absent vs present") => "existence",
            Some(d) if d.contains("balance") => "balance",
            Some(d) if d.contains("nonce") => "nonce",
            Some(_) => "code",
        }
    }
}

fn resolve_code(h: B256, codes: &BTreeMap<B256, Vec<u8>>) -> Vec<u8> {
    if h == KECCAK_EMPTY || h.is_zero() {
        vec![]
    } else {
        codes.get(&h).cloned().unwrap_or_else(|| format!("<unknown code {}>", hex(h.as_slice())).into_bytes())
    }
}

/// apply a StateChangeset (accounts: set/delete; storage: wipe then set; contracts: insert)
pub fn apply_changeset(p: &mut Plain, codes: &mut BTreeMap<B256, Vec<u8>>, cs: &StateChangeset) {
    for (h, c) in &cs.contracts {
        codes.insert(*h, c.original_bytes().to_vec());
    }
    for (a, info) in &cs.accounts {
        match info {
            Some(i) => {
                p.infos.insert(*a, (i.balance, i.nonce, resolve_code(i.code_hash, codes)));
            }
            None => {
                p.infos.remove(a);
            }
        }
    }
    for sc in &cs.storage {
        if sc.wipe_storage {
            p.storage.remove(&sc.address);
        }
        let m = p.storage.entry(sc.address).or_default();
        for (k, v) in &sc.storage {
            if v.is_zero() {
                m.remove(k);
            } else {
                m.insert(*k, *v);
            }
        }
    }
    p.normalise();
}

/// apply revert group `g` of `r` to `p` (= S_k) giving S_{k-1}; `s0` is the pre-bundle state
pub fn apply_revert_group(p: &mut Plain, s0: &Plain, codes: &BTreeMap<B256, Vec<u8>>, r: &PlainStateReverts, g: usize) {
    for (a, info) in &r.accounts[g] {
        match info {
            Some(i) => {
                p.infos.insert(*a, (i.balance, i.nonce, resolve_code(i.code_hash, codes)));
            }
            None => {
                p.infos.remove(a);
            }
        }
    }
    for sr in &r.storage[g] {
        if sr.wiped {
            match s0.storage.get(&sr.address) {
                Some(m) => {
                    p.storage.insert(sr.address, m.clone());
                }
                None => {
                    p.storage.remove(&sr.address);
                }
            }
        }
        let pre_bundle = s0.storage.get(&sr.address).cloned().unwrap_or_default();
        let m = p.storage.entry(sr.address).or_default();
        for (k, v) in &sr.storage_revert {
            let val = match v {
                RevertToSlot::Some(x) => *x,
                // documented meaning (reverts.rs): "if it is destroyed, previous values can be found
                // in database or it can be zero" — in a wiped group the database (pre-bundle) value
                // is the previous value; otherwise the slot did not exist
                RevertToSlot::Destroyed => {
                    if sr.wiped {
                        pre_bundle.get(k).copied().unwrap_or_default()
                    } else {
                        U256::ZERO
                    }
                }
            };
            if val.is_zero() {
                m.remove(k);
            } else {
                m.insert(*k, val);
            }
        }
    }
    p.normalise();
}

// ------------------------------------------------------------------------------------------------
// histories
// ------------------------------------------------------------------------------------------------

#[derive(Clone, Debug, PartialEq)]
pub enum Step {
    Tx(TxSpec),
    Increment(Vec<(Address, u128)>),
    Drain(Vec<Address>),
    /// merge transitions into the bundle (only meaningful with bundle update); true = retain reverts
    Merge(bool),
}

#[derive(Clone, Debug)]
pub struct History {
    pub spec: SpecId,
    pub world: World,
    pub block: BlockSpec,
    pub steps: Vec<Step>,
}

impl History {
    pub fn to_json(&self) -> Value {
        json!({"spec": spec_name(self.spec), "world": self.world.to_json(), "block": self.block.to_json(), "steps": self.steps.iter().map(|s| match s {
            Step::Tx(t) => json!({"tx": t.to_json()}),
            Step::Increment(v) => json!({"increment": v.iter().map(|(a, x)| json!([addr_hex(a), x.to_string()])).collect::<Vec<_>>()}),
            Step::Drain(v) => json!({"drain": v.iter().map(addr_hex).collect::<Vec<_>>()}),
            Step::Merge(r) => json!({"merge": r}),
        }).collect::<Vec<_>>()})
    }
    pub fn from_json(v: &Value) -> History {
        History {
            spec: spec_from_name(v["spec"].as_str().unwrap()).unwrap(),
            world: World::from_json(&v["world"]),
            block: BlockSpec::from_json(&v["block"]),
            steps: v["steps"].as_array().unwrap().iter().map(|s| {
                if let Some(t) = s.get("tx") {
                    Step::Tx(TxSpec::from_json(t))
                } else if let Some(i) = s.get("increment") {
                    Step::Increment(i.as_array().unwrap().iter().map(|e| (parse_addr(e[0].as_str().unwrap()), e[1].as_str().unwrap().parse().unwrap())).collect())
                } else if let Some(d) = s.get("drain") {
                    Step::Drain(d.as_array().unwrap().iter().map(|e| parse_addr(e.as_str().unwrap())).collect())
                } else {
                    Step::Merge(s["merge"].as_bool().unwrap())
                }
            }).collect(),
        }
    }
    pub fn hash(&self) -> u64 {
        hash64(self.to_json().to_string().as_bytes())
    }
    pub fn n_merges(&self) -> usize {
        self.steps.iter().filter(|s| matches!(s, Step::Merge(_))).count()
    }
    pub fn all_reverts_retained(&self) -> bool {
        self.steps.iter().all(|s| !matches!(s, Step::Merge(false)))
    }
}

// --- lifecycle scripts ---------------------------------------------------------------------------

pub const FACTORY: Address = addr(0xfac0);

/// child runtime: w0 = CALLDATALOAD(0): 0 -> STOP; 1 -> SELFDESTRUCT(w1); else SSTORE(w1, w2)
pub fn child_runtime() -> Vec<u8> {
    let mut a = Asm::new();
    let l_sd = a.new_label();
    let l_store = a.new_label();
    a.push_u(0).op(0x35).op(0x80); // w0 w0
    a.push_u(1).op(0x14).push_label(l_sd).op(0x57); // if w0 == 1 -> sd
    a.op(0x15); // iszero(w0)
    let l_stop = a.new_label();
    a.push_label(l_stop).op(0x57);
    a.push_label(l_store).op(0x56);
    a.place(l_stop).op(0x00);
    a.place(l_sd).op(0x50).push_u(32).op(0x35).op(0xff);
    a.place(l_store).push_u(64).op(0x35).push_u(32).op(0x35).op(0x55).op(0x00);
    a.finish()
}

/// init code: SSTORE(0, 7), SSTORE(1, salt-dependent? no: constant 9); returns child_runtime
pub fn child_init() -> Vec<u8> {
    let mut a = Asm::new();
    a.push_u(7).push_u(0).op(0x55);
    a.push_u(9).push_u(1).op(0x55);
    initcode_with_prefix(&a.finish(), &child_runtime())
}

/// factory: CREATE2(value = CALLVALUE, init = embedded, salt = CALLDATALOAD(0)); returns nothing
pub fn factory_code() -> Vec<u8> {
    let init = child_init();
    let mut a = Asm::new();
    // CODECOPY(0, off, len)
    a.op(0x61).ops(&[(init.len() >> 8) as u8, init.len() as u8]);
    a.op(0x61).ops(&[0, 0]); // off, patched
    a.push_u(0).op(0x39);
    a.push_u(0).op(0x35); // salt
    a.op(0x61).ops(&[(init.len() >> 8) as u8, init.len() as u8]);
    a.push_u(0).op(0x34).op(0xf5).op(0x50).op(0x00);
    let mut c = a.finish();
    let off = c.len();
    c[4] = (off >> 8) as u8;
    c[5] = off as u8;
    c.extend(init);
    c
}

pub fn child_address(salt: u64) -> Address {
    FACTORY.create2_from_code(U256::from(salt).to_be_bytes::<32>(), child_init())
}

#[derive(Clone, Debug)]
pub struct ScriptCall {
    pub to: Address,
    pub value: U256,
    pub words: Vec<U256>,
    pub gas: u64,
}

pub fn script_code(calls: &[ScriptCall], end_revert: bool) -> Vec<u8> {
    let mut a = Asm::new();
    for c in calls {
        for (i, w) in c.words.iter().enumerate() {
            a.push(*w).push_u(32 * i as u64).op(0x52);
        }
        a.push_u(0).push_u(0).push_u(32 * c.words.len() as u64).push_u(0).push(c.value).push_addr(c.to).push_u(c.gas).op(0xf1).op(0x50);
    }
    if end_revert {
        a.push_u(0).push_u(0).op(0xfd);
    } else {
        a.op(0x00);
    }
    a.finish()
}

/// A lifecycle history: create / store / destroy / re-create / destroy again / touch / fund,
/// spread over several transactions (and several steps inside one transaction).
pub fn gen_lifecycle(rng: &mut Rng, spec: SpecId) -> History {
    let mut w = World::default();
    let eth = U256::from(10u64).pow(U256::from(18u8));
    w.accounts.insert(SENDER1, Acct { balance: eth * U256::from(1000u64), ..Default::default() });
    w.accounts.insert(FACTORY, Acct { nonce: 1, balance: U256::from(1000u64), code: factory_code(), ..Default::default() });
    if rng.chance(2, 3) {
        w.accounts.insert(EMPTY_EXISTING, Acct::default());
    }
    if rng.chance(2, 3) {
        let mut st = BTreeMap::new();
        st.insert(U256::from(1u8), U256::from(7u8));
        w.accounts.insert(STORAGE_ONLY, Acct { storage: st, balance: if rng.chance(1, 2) { U256::from(3u8) } else { U256::ZERO }, ..Default::default() });
    }
    // a pre-existing destroyable contract with storage (loaded -> destroyed transitions)
    let mut st = BTreeMap::new();
    st.insert(U256::from(1u8), U256::from(11u8));
    st.insert(U256::from(2u8), U256::from(12u8));
    w.accounts.insert(C1, Acct { nonce: 1, balance: U256::from(50u8), code: child_runtime(), storage: st });
    let ntx = rng.range(2, 10) as usize;
    let salts = [1u64, 2];
    let mut steps = vec![];
    let mut nonce = 0u64;
    let mut since_merge = 0;
    let schedule = rng.below(4); // 0: after every tx, 1: every 3, 2: random, 3: only at end
    let retain = !rng.chance(1, 5);
    for i in 0..ntx {
        let ncalls = rng.range(1, 4) as usize;
        let mut calls = vec![];
        for _ in 0..ncalls {
            let salt = *rng.pick(&salts);
            let child = child_address(salt);
            let target = if rng.chance(1, 4) { C1 } else { child };
            let c = match rng.below(10) {
                0 | 1 => ScriptCall { to: FACTORY, value: U256::from(rng.below(3)), words: vec![U256::from(salt)], gas: 400_000 },
                2 | 3 => ScriptCall { to: target, value: U256::ZERO, words: vec![U256::from(2u8), U256::from(rng.below(4)), if rng.chance(1, 3) { U256::ZERO } else { U256::from(rng.below(5)) }], gas: 100_000 },
                4 | 5 => ScriptCall { to: target, value: U256::ZERO, words: vec![U256::from(1u8), U256::from_be_slice(rng.pick(&[SENDER1, EMPTY_EXISTING, NONEXISTENT, child]).as_slice())], gas: 100_000 },
                6 => ScriptCall { to: *rng.pick(&[EMPTY_EXISTING, NONEXISTENT, STORAGE_ONLY, child, C1]), value: U256::ZERO, words: vec![], gas: 50_000 },
                7 => ScriptCall { to: *rng.pick(&[EMPTY_EXISTING, NONEXISTENT, STORAGE_ONLY, child, C1]), value: U256::from(rng.below(3)), words: vec![], gas: 50_000 },
                8 => ScriptCall { to: target, value: U256::ZERO, words: vec![U256::from(2u8), U256::from(1u8), U256::from(7u8)], gas: 100_000 }, // back to an original value
                _ => ScriptCall { to: target, value: U256::ZERO, words: vec![U256::ZERO], gas: 50_000 },
            };
            calls.push(c);
        }
        let saddr = addr(0x5000 + i as u16);
        w.accounts.insert(saddr, Acct { nonce: 1, balance: U256::from(100u8), code: script_code(&calls, rng.chance(1, 8)), ..Default::default() });
        let mut t = TxSpec { to: Some(saddr), gas_limit: 3_000_000, gas_price: U256::from(10u64), nonce: Some(nonce), ..Default::default() };
        if spec >= SpecId::LONDON {
            t.gas_price = U256::from(1000u64);
        }
        nonce += 1;
        steps.push(Step::Tx(t));
        since_merge += 1;
        if rng.chance(1, 6) {
            steps.push(Step::Increment(vec![(*rng.pick(&[NONEXISTENT, EMPTY_EXISTING, child_address(1), C1, COINBASE]), 1 + rng.below(1000) as u128)]));
        }
        if rng.chance(1, 8) {
            steps.push(Step::Drain(vec![*rng.pick(&[C1, FACTORY, COINBASE, child_address(2)])]));
        }
        let merge_now = match schedule {
            0 => true,
            1 => since_merge >= 3,
            2 => rng.chance(1, 2),
            _ => false,
        };
        if merge_now {
            steps.push(Step::Merge(retain));
            since_merge = 0;
        }
    }
    if !matches!(steps.last(), Some(Step::Merge(_))) {
        steps.push(Step::Merge(retain));
    }
    let mut block = BlockSpec::default();
    block.basefee = if spec >= SpecId::LONDON { 7 } else { 0 };
    History { spec, world: w, block, steps }
}

/// Directed family: repeated create / write / destroy cycles of ONE child, one script call per
/// transaction, merges sprinkled at random positions (so that a destroy and the following
/// re-creation fall into the same or into different merge groups), occasional balance steps.
pub fn gen_recreate_cycles(rng: &mut Rng, spec: SpecId) -> History {
    let mut w = World::default();
    let eth = U256::from(10u64).pow(U256::from(18u8));
    w.accounts.insert(SENDER1, Acct { balance: eth * U256::from(1000u64), ..Default::default() });
    w.accounts.insert(FACTORY, Acct { nonce: 1, balance: U256::from(1000u64), code: factory_code(), ..Default::default() });
    let salt = 1 + rng.below(2);
    let child = child_address(salt);
    // sometimes the child address already holds a destroyable contract with storage in the database
    if rng.chance(1, 3) {
        let mut st = BTreeMap::new();
        st.insert(U256::from(2u8), U256::from(21u8));
        st.insert(U256::from(3u8), U256::from(31u8));
        w.accounts.insert(child, Acct { nonce: 1, balance: U256::from(5u8), code: child_runtime(), storage: st });
    }
    let cycles = rng.range(2, 4);
    let mut calls: Vec<ScriptCall> = vec![];
    for c in 0..cycles {
        if c > 0 || !w.accounts.contains_key(&child) {
            calls.push(ScriptCall { to: FACTORY, value: U256::from(rng.below(2)), words: vec![U256::from(salt)], gas: 400_000 });
        }
        for _ in 0..rng.below(3) {
            calls.push(ScriptCall { to: child, value: U256::ZERO, words: vec![U256::from(2u8), U256::from(rng.below(4)), if rng.chance(1, 4) { U256::ZERO } else { U256::from(1 + rng.below(40)) }], gas: 100_000 });
        }
        if c + 1 < cycles || rng.chance(1, 2) {
            calls.push(ScriptCall { to: child, value: U256::ZERO, words: vec![U256::from(1u8), U256::from_be_slice(rng.pick(&[SENDER1, NONEXISTENT, child]).as_slice())], gas: 100_000 });
        }
    }
    let retain = !rng.chance(1, 8);
    let pm = 1 + rng.below(3); // merge probability pm/4
    let mut steps = vec![];
    for (i, c) in calls.iter().enumerate() {
        let saddr = addr(0x5000 + i as u16);
        w.accounts.insert(saddr, Acct { nonce: 1, balance: U256::from(100u8), code: script_code(std::slice::from_ref(c), false), ..Default::default() });
        let mut t = TxSpec { to: Some(saddr), gas_limit: 3_000_000, gas_price: U256::from(10u64), nonce: Some(i as u64), ..Default::default() };
        if spec >= SpecId::LONDON {
            t.gas_price = U256::from(1000u64);
        }
        steps.push(Step::Tx(t));
        if rng.chance(1, 10) {
            steps.push(Step::Increment(vec![(child, 1 + rng.below(100) as u128)]));
        }
        if rng.chance(pm, 4) {
            steps.push(Step::Merge(retain));
        }
    }
    if !matches!(steps.last(), Some(Step::Merge(_))) {
        steps.push(Step::Merge(retain));
    }
    let mut block = BlockSpec::default();
    block.basefee = if spec >= SpecId::LONDON { 7 } else { 0 };
    History { spec, world: w, block, steps }
}

/// factory whose embedded init code is given (CREATE2 with value = CALLVALUE, salt = CALLDATALOAD(0))
pub fn factory_code_with(init: &[u8]) -> Vec<u8> {
    let mut a = Asm::new();
    a.op(0x61).ops(&[(init.len() >> 8) as u8, init.len() as u8]);
    a.op(0x61).ops(&[0, 0]); // off, patched
    a.push_u(0).op(0x39);
    a.push_u(0).op(0x35); // salt
    a.op(0x61).ops(&[(init.len() >> 8) as u8, init.len() as u8]);
    a.push_u(0).op(0x34).op(0xf5).op(0x50).op(0x00);
    let mut c = a.finish();
    let off = c.len();
    c[4] = (off >> 8) as u8;
    c[5] = off as u8;
    c.extend_from_slice(init);
    c
}

pub const FACTORY2: Address = addr(0xfac2);

/// Directed family "silent re-creation": a stored contract with storage in the database is
/// destroyed and re-created by a factory whose init code writes nothing and deploys the same
/// runtime, with an endowment equal to the old balance — so nonce, balance and code hash after the
/// re-creation equal those before it and the *only* change is that the old storage is gone. The
/// destroy and the re-create fall into one merge group or into two; slots are read / written in
/// later groups. (pre-Cancun specs: SELFDESTRUCT really deletes)
pub fn gen_silent_recreate(rng: &mut Rng, spec: SpecId) -> History {
    let mut w = World::default();
    let eth = U256::from(10u64).pow(U256::from(18u8));
    w.accounts.insert(SENDER1, Acct { balance: eth * U256::from(1000u64), ..Default::default() });
    let init = initcode_returning(&child_runtime());
    w.accounts.insert(FACTORY2, Acct { nonce: 1, balance: U256::from(1000u64), code: factory_code_with(&init), ..Default::default() });
    let salt = 1 + rng.below(2);
    let child = FACTORY2.create2_from_code(U256::from(salt).to_be_bytes::<32>(), &init);
    let bal = rng.below(2);
    let mut st = BTreeMap::new();
    st.insert(U256::from(2u8), U256::from(21u8));
    if rng.chance(1, 2) {
        st.insert(U256::from(3u8), U256::from(31u8));
    }
    w.accounts.insert(child, Acct { nonce: 1, balance: U256::from(bal), code: child_runtime(), storage: st });
    let mut calls: Vec<ScriptCall> = vec![];
    // optionally touch a slot first (then the bundle knows a slot), mostly not
    if rng.chance(1, 4) {
        calls.push(ScriptCall { to: child, value: U256::ZERO, words: vec![U256::from(2u8), U256::from(2 + rng.below(2)), U256::from(rng.below(3))], gas: 100_000 });
    }
    let rounds = 1 + rng.below(2);
    for _ in 0..rounds {
        // destroy towards someone else, then re-create with the same balance
        calls.push(ScriptCall { to: child, value: U256::ZERO, words: vec![U256::from(1u8), U256::from_be_slice(rng.pick(&[SENDER1, NONEXISTENT]).as_slice())], gas: 100_000 });
        calls.push(ScriptCall { to: FACTORY2, value: U256::from(bal), words: vec![U256::from(salt)], gas: 400_000 });
    }
    for _ in 0..rng.below(3) {
        calls.push(ScriptCall { to: child, value: U256::ZERO, words: vec![U256::from(2u8), U256::from(2 + rng.below(2)), U256::from(rng.below(3))], gas: 100_000 });
    }
    let retain = !rng.chance(1, 8);
    let pm = rng.below(3); // merge probability pm/4 (0: everything in one group)
    let mut steps = vec![];
    for (i, c) in calls.iter().enumerate() {
        let saddr = addr(0x5000 + i as u16);
        w.accounts.insert(saddr, Acct { nonce: 1, balance: U256::from(100u8), code: script_code(std::slice::from_ref(c), false), ..Default::default() });
        let mut t = TxSpec { to: Some(saddr), gas_limit: 3_000_000, gas_price: U256::from(10u64), nonce: Some(i as u64), ..Default::default() };
        if spec >= SpecId::LONDON {
            t.gas_price = U256::from(1000u64);
        }
        steps.push(Step::Tx(t));
        if rng.chance(pm, 4) {
            steps.push(Step::Merge(retain));
        }
    }
    if !matches!(steps.last(), Some(Step::Merge(_))) {
        steps.push(Step::Merge(retain));
    }
    let mut block = BlockSpec::default();
    block.basefee = if spec >= SpecId::LONDON { 7 } else { 0 };
    History { spec, world: w, block, steps }
}

/// Directed family: one stored contract (pre-existing, with storage) whose two slots are written
/// back and forth over a three-value domain, one write per transaction (sometimes two in one
/// transaction), merges at random positions. Hits "returns to the original value", "returns to an
/// intermediate value of an earlier group", "written twice inside one group".
pub fn gen_slot_pingpong(rng: &mut Rng, spec: SpecId) -> History {
    let mut w = World::default();
    let eth = U256::from(10u64).pow(U256::from(18u8));
    w.accounts.insert(SENDER1, Acct { balance: eth * U256::from(1000u64), ..Default::default() });
    let mut st = BTreeMap::new();
    for k in 0..2u64 {
        let v = rng.below(3);
        if v != 0 {
            st.insert(U256::from(k), U256::from(v));
        }
    }
    w.accounts.insert(C1, Acct { nonce: 1, balance: U256::from(50u8), code: child_runtime(), storage: st });
    let n = rng.range(3, 9) as usize;
    let retain = !rng.chance(1, 8);
    let pm = 1 + rng.below(3);
    let mut steps = vec![];
    for i in 0..n {
        let mut calls = vec![];
        for _ in 0..(1 + rng.below(4) / 3) {
            calls.push(ScriptCall { to: C1, value: U256::ZERO, words: vec![U256::from(2u8), U256::from(rng.below(2)), U256::from(rng.below(3))], gas: 100_000 });
        }
        let saddr = addr(0x5000 + i as u16);
        w.accounts.insert(saddr, Acct { nonce: 1, balance: U256::from(100u8), code: script_code(&calls, rng.chance(1, 10)), ..Default::default() });
        let mut t = TxSpec { to: Some(saddr), gas_limit: 3_000_000, gas_price: U256::from(10u64), nonce: Some(i as u64), ..Default::default() };
        if spec >= SpecId::LONDON {
            t.gas_price = U256::from(1000u64);
        }
        steps.push(Step::Tx(t));
        if rng.chance(pm, 4) {
            steps.push(Step::Merge(retain));
        }
    }
    if !matches!(steps.last(), Some(Step::Merge(_))) {
        steps.push(Step::Merge(retain));
    }
    let mut block = BlockSpec::default();
    block.basefee = if spec >= SpecId::LONDON { 7 } else { 0 };
    History { spec, world: w, block, steps }
}

/// history from the generic W generator
pub fn gen_w_history(rng: &mut Rng, spec: SpecId) -> History {
    let mut case = gen_case(rng, spec, 6);
    // balances near 2^256 belong to C06/C08 (overflow behaviour is a listed finding there); the
    // state-layer histories stay inside the representable range
    for a in case.world.accounts.values_mut() {
        if a.balance > (U256::from(1u8) << 200) {
            a.balance = U256::from(10u64).pow(U256::from(24u8));
        }
    }
    let retain = !rng.chance(1, 5);
    let mut steps = vec![];
    for t in case.txs {
        steps.push(Step::Tx(t));
        if rng.chance(1, 2) {
            steps.push(Step::Merge(retain));
        }
    }
    if !matches!(steps.last(), Some(Step::Merge(_))) {
        steps.push(Step::Merge(retain));
    }
    History { spec: case.spec, world: case.world, block: case.block, steps }
}

// ------------------------------------------------------------------------------------------------
// execution
// ------------------------------------------------------------------------------------------------

pub fn state_clear_for(spec: SpecId) -> bool {
    spec >= SpecId::SPURIOUS_DRAGON
}

pub fn new_state(db: RefDB, spec: SpecId, bundle_update: bool, prestate: Option<BundleState>) -> State<RefDB> {
    let mut b = State::builder().with_database(db);
    if !state_clear_for(spec) {
        b = b.without_state_clear();
    }
    if bundle_update {
        b = b.with_bundle_update();
    }
    if let Some(p) = prestate {
        b = b.with_bundle_prestate(p);
    }
    b.build()
}

/// the reference: RefDB + independent applier; returns outcomes and the world after every step
pub struct RefRun {
    pub outcomes: Vec<TxOutcome>,
    pub worlds: Vec<World>,
    pub codes: BTreeMap<B256, Vec<u8>>,
    pub panic: Option<PanicInfo>,
    /// step indices where reference execution hit a precondition the history must not contain
    pub skipped: bool,
}

pub fn increment_ref(w: &mut World, v: &[(Address, u128)]) {
    for (a, x) in v {
        if *x == 0 {
            continue;
        }
        let e = w.accounts.entry(*a).or_default();
        e.balance = e.balance.saturating_add(U256::from(*x));
    }
}

pub fn drain_ref(w: &mut World, v: &[Address]) -> bool {
    for a in v {
        match w.accounts.get_mut(a) {
            // precondition of drain_balances: the balance fits u128 and the account exists
            Some(acc) if acc.balance <= U256::from(u128::MAX) => acc.balance = U256::ZERO,
            _ => return false,
        }
    }
    true
}

pub fn run_reference(h: &History) -> RefRun {
    let mut db = RefDB::new(h.world.clone(), h.spec);
    let mut out = RefRun { outcomes: vec![], worlds: vec![], codes: BTreeMap::new(), panic: None, skipped: false };
    for s in &h.steps {
        match s {
            Step::Tx(tx) => {
                let r = guarded(|| crate::wrun::transact_plain(&mut db, h.spec, &h.block, tx));
                match r {
                    Err(p) => {
                        out.panic = Some(p);
                        break;
                    }
                    Ok(res) => {
                        out.outcomes.push(outcome_of(&res.as_ref().map(|r| r.result.clone()).map_err(|e| e.clone())));
                        if let Ok(rs) = res {
                            db.commit(rs.state);
                        }
                    }
                }
            }
            Step::Increment(v) => increment_ref(&mut db.world, v),
            Step::Drain(v) => {
                if !drain_ref(&mut db.world, v) {
                    out.skipped = true;
                    break;
                }
            }
            Step::Merge(_) => {}
        }
        out.worlds.push(db.world.clone());
    }
    out.codes = db.codes.clone();
    out
}

/// read the whole universe from a Database and turn it into a World (for comparison)
pub fn read_universe<DB: Database>(db: &mut DB, universe: &BTreeMap<Address, BTreeSet<U256>>, codes: &BTreeMap<B256, Vec<u8>>) -> Result<World, String>
where
    DB::Error: core::fmt::Debug,
{
    let mut w = World::default();
    for (a, slots) in universe {
        let info = db.basic(*a).map_err(|e| format!("{:?}", e))?;
        let mut acc = Acct::default();
        let exists = info.is_some();
        if let Some(i) = info {
            acc.balance = i.balance;
            acc.nonce = i.nonce;
            let _ = codes;
            let inline = match &i.code {
                Some(c) if !c.is_empty() => Some(c.original_bytes().to_vec()),
                _ => None,
            };
            acc.code = if i.code_hash == KECCAK_EMPTY || i.code_hash.is_zero() {
                inline.clone().unwrap_or_default()
            } else {
                // the code is always read by its hash as well (the hash the same database just
                // reported): both ways of reading must give the same bytes
                let c = db.code_by_hash(i.code_hash).map_err(|e| format!("code_by_hash({}) of {}: {:?}", i.code_hash, a, e))?;
                let by_hash = c.original_bytes().to_vec();
                if let Some(inl) = &inline {
                    if *inl != by_hash {
                        return Err(format!("code_by_hash({}) of {} returns {} bytes, basic() carries {} different bytes inline", i.code_hash, a, by_hash.len(), inl.len()));
                    }
                }
                by_hash
            };
        }
        for s in slots {
            let v = db.storage(*a, *s).map_err(|e| format!("{:?}", e))?;
            if !v.is_zero() {
                acc.storage.insert(*s, v);
            }
        }
        if exists {
            w.accounts.insert(*a, acc);
        } else if !acc.storage.is_empty() {
            // storage readable for an account that does not exist
            w.accounts.insert(*a, acc);
            w.block_hashes.insert(u64::MAX, B256::ZERO); // marker: inconsistent read
        }
    }
    Ok(w)
}

pub fn universe_of(worlds: &[&World]) -> BTreeMap<Address, BTreeSet<U256>> {
    let mut u: BTreeMap<Address, BTreeSet<U256>> = BTreeMap::new();
    for a in target_pool() {
        u.entry(a).or_default();
    }
    for w in worlds {
        for (a, acc) in &w.accounts {
            let e = u.entry(*a).or_default();
            e.extend(acc.storage.keys().copied());
        }
    }
    for (_, s) in u.iter_mut() {
        for k in 0..6u64 {
            s.insert(U256::from(k));
        }
    }
    u
}

pub fn worlds_equal_mod_storage_of_absent(a: &World, b: &World) -> Option<String> {
    world_diff(a, b)
}
