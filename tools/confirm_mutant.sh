#!/bin/bash
# confirm_mutant.sh <incoming-dir e.g. /verif/seeded/_incoming/C07/m1>
# In the scratch worktree /tmp/wt-confirm: demo passes without the patch, fails with it; the
# unedited test suite passes with it. Writes <dir>/confirm.log and prints a one-line verdict.
set -u
D=$1
WT=${WT:-/tmp/wt-confirm}
export CARGO_NET_OFFLINE=true CARGO_TARGET_DIR=$WT/target
if [ ! -d $WT ]; then git -C /repo worktree add -q --detach $WT HEAD; fi
cd $WT && git checkout -q --detach $(git -C /repo rev-parse HEAD) && git checkout -q -- . && git clean -fdq -e target
LOG=$D/confirm.log; : > $LOG
DEMO_REL=$(grep -oE 'crates/[A-Za-z0-9_/.-]+\.rs' $D/demo_path.txt | head -1)
[ -z "$DEMO_REL" ] && { echo "NO-DEMO-PATH $D"; exit 2; }
mkdir -p $(dirname $WT/$DEMO_REL) && cp $D/demo.rs $WT/$DEMO_REL
CRATE=$(echo $DEMO_REL | cut -d/ -f2); case $CRATE in revm) PKG=revm;; *) PKG=revm-$CRATE;; esac
TESTNAME=$(basename $DEMO_REL .rs)
# demos of feature-gated code name their features in demo_path.txt ("--features a,b")
FEAT=$(grep -oE -- '--features[= ][A-Za-z0-9_,-]+' $D/demo_path.txt | head -1)
run_demo() { nice -n 5 cargo test --offline -p $PKG $FEAT --test $TESTNAME >> $LOG 2>&1; }
echo "== demo without patch" >> $LOG; run_demo; A=$?
git apply $D/patch.diff >> $LOG 2>&1 || { echo "PATCH-DOES-NOT-APPLY $D"; exit 2; }
echo "== demo with patch" >> $LOG; run_demo; B=$?
echo "== suite with patch" >> $LOG
mv $WT/$DEMO_REL $WT/.demo_hold.rs
nice -n 5 cargo test --workspace --no-fail-fast --offline >> $LOG 2>&1; C=$?
mv $WT/.demo_hold.rs $WT/$DEMO_REL
git checkout -q -- . ; rm -f $WT/$DEMO_REL
echo "$D demo_without=$A demo_with=$B suite_with=$C" | tee -a $LOG
[ $A -eq 0 ] && [ $B -ne 0 ] && [ $C -eq 0 ] && echo "CONFIRMED $D" || echo "NOT-CONFIRMED $D"
