#!/bin/bash
# collect_agent.sh <PID> <first new index>: moves /tmp/wt-<PID>/out/m1,m2 to seeded/_incoming/<PID>/m<k>,m<k+1>
# and removes the agent's scratch worktree with its build output.
set -u
P=$1; K=$2
for i in 1 2; do
  src=/tmp/wt-$P/out/m$i
  [ -d $src ] || continue
  dst=/verif/seeded/_incoming/$P/m$((K + i - 1))
  mkdir -p $dst && cp -r $src/. $dst/ && echo "collected $dst: $(ls $dst | tr '\n' ' ')"
done
git -C /repo worktree remove --force /tmp/wt-$P 2>/dev/null; rm -rf /tmp/wt-$P; git -C /repo worktree prune
