"""Build lanes (DESIGN 3.2) and the per-property lane table."""
import fcntl, os, subprocess

ROOT = os.path.dirname(os.path.dirname(os.path.abspath(__file__)))
H = os.path.join(ROOT, "harness")
CFG = "--cfg risechain_revm_verif"

BASE_ENV = dict(os.environ)
BASE_ENV["CARGO_NET_OFFLINE"] = "true"
BASE_ENV.setdefault("CARGO_TERM_COLOR", "never")

# lane -> (toolchain, rustflags, cargo build args, binary path)
LANES = {
    "rel": dict(tc=None, flags=CFG, args=["build", "--release", "--target-dir", "target", "-p", "vmon"],
                bin="target/release/vmon"),
    "dbg": dict(tc=None, flags=CFG, args=["build", "--profile", "dbg", "--target-dir", "target", "-p", "vmon"],
                bin="target/dbg/vmon"),
    "asan": dict(tc="+nightly", flags=CFG + " -Zsanitizer=address -Cforce-frame-pointers=yes",
                 args=["build", "--release", "--target", "x86_64-unknown-linux-gnu", "--target-dir", "target-asan",
                       "-p", "vmon"],
                 bin="target-asan/x86_64-unknown-linux-gnu/release/vmon"),
    "alt": dict(tc=None, flags=CFG,
                args=["build", "--release", "--target-dir", "target-alt", "-p", "vmon", "--no-default-features",
                      "--features", "altlibs"],
                bin="target-alt/release/vmon"),
    "op": dict(tc=None, flags=CFG,
               args=["build", "--release", "--target-dir", "target-op", "-p", "vmon", "--features", "optimism"],
               bin="target-op/release/vmon"),
    # miri has no build step that leaves a binary; `cargo miri run` is the command
    "miri": dict(tc="+nightly", flags=CFG, args=None, bin=None),
    # memcheck runs the rel binary under valgrind
    "memcheck": dict(tc=None, flags=CFG, args=["build", "--release", "--target-dir", "target", "-p", "vmon"],
                     bin="target/release/vmon"),
}

Q, T = "quick", "thorough"


def L(q, t=None):
    return {Q: q, T: t if t is not None else q}


# property -> lanes per tier (+ optional python runner module for orchestrated lanes)
PROPS = {
    "C01": dict(lanes=L(["rel", "dbg"])),
    "C02": dict(lanes=L(["rel", "dbg"])),
    "C03": dict(lanes=L(["rel", "dbg"])),
    "C04": dict(lanes=L(["rel", "dbg"], ["rel", "dbg", "asan", "miri"])),
    "C05": dict(lanes=L(["rel", "dbg"])),
    "C06": dict(lanes=L(["rel", "dbg"])),
    "C07": dict(lanes=L(["rel", "dbg"])),
    "C08": dict(lanes=L(["rel", "dbg"])),
    "C09": dict(lanes=L(["rel", "dbg"])),
    "C10": dict(lanes=L(["rel", "dbg"])),
    "C11": dict(lanes=L(["rel", "dbg"], ["rel", "dbg", "asan", "miri"])),
    "C12": dict(lanes=L(["rel", "dbg"], ["rel", "dbg", "asan", "miri"])),
    "C14": dict(lanes=L(["rel", "dbg"])),
    "C28": dict(lanes=L(["rel", "dbg"])),
    "C29": dict(lanes=L(["rel", "dbg"])),
    "C30": dict(lanes=L(["rel", "dbg"])),
    "C15": dict(lanes=L(["rel", "dbg"])),
    "C16": dict(lanes=L(["rel", "dbg"])),
    "C17": dict(lanes=L(["rel", "dbg"])),
    "C18": dict(lanes=L(["rel", "dbg"])),
    "C19": dict(lanes=L(["rel", "dbg"])),
    "C20": dict(lanes=L(["rel", "dbg"])),
    "C21": dict(lanes=L(["rel", "dbg"])),
    "C22": dict(lanes=L(["rel", "dbg", "op"])),
    "C23": dict(lanes=L(["rel", "dbg"])),
    "C24": dict(lanes=L(["rel"]), runner="c24runner"),
    "C25": dict(lanes=L(["rel", "dbg", "asan", "miri"], ["rel", "dbg", "asan", "miri", "memcheck"])),
    "C26": dict(lanes=L(["rel", "dbg", "asan"], ["rel", "dbg", "asan", "miri"])),
    "C27": dict(lanes=L(["rel", "dbg"])),
    "C31": dict(lanes=L(["rel", "dbg"])),
    "C33": dict(lanes=L(["op"])),
    "C34": dict(lanes=L(["rel", "dbg"])),
    "C13": dict(lanes=L(["rel", "dbg"])),
    "C32": dict(lanes=L(["rel", "dbg"])),
}

_built = set()


def build_lane(lane):
    """cargo build for one lane; serialised across processes with a lock file."""
    spec = LANES[lane]
    if spec["args"] is None:
        return True, ""
    env = dict(BASE_ENV)
    env["RUSTFLAGS"] = spec["flags"]
    cmd = ["cargo"] + ([spec["tc"]] if spec["tc"] else []) + spec["args"]
    os.makedirs(os.path.join(H, "target"), exist_ok=True)
    with open(os.path.join(H, ".build.lock"), "w") as lk:
        fcntl.flock(lk, fcntl.LOCK_EX)
        r = subprocess.run(cmd, cwd=H, env=env, stdout=subprocess.PIPE, stderr=subprocess.STDOUT, text=True)
    return r.returncode == 0, r.stdout


def lane_cmd(lane, vmon_args):
    spec = LANES[lane]
    env = dict(BASE_ENV)
    if lane == "miri":
        env["RUSTFLAGS"] = spec["flags"]
        env["MIRIFLAGS"] = "-Zmiri-permissive-provenance -Zmiri-disable-isolation"
        cmd = ["cargo", "+nightly", "miri", "run", "-q", "--target-dir", "target-miri", "-p", "vmon",
               "--no-default-features", "--"] + vmon_args + ["--jobs", "1"]
        return cmd, env
    if lane == "memcheck":
        cmd = ["valgrind", "--error-exitcode=99", "--quiet", os.path.join(H, spec["bin"])] + vmon_args + ["--jobs", "2"]
        return cmd, env
    if lane == "asan":
        env["ASAN_OPTIONS"] = "halt_on_error=1:abort_on_error=0:detect_leaks=0:exitcode=98"
    return [os.path.join(H, spec["bin"])] + vmon_args, env
