#!/usr/bin/env python3
"""Prints the prompt given to a mutation sub-agent for one property (property text + its scratch worktree only)."""
import json, sys
pid = sys.argv[1]
n = int(sys.argv[2]) if len(sys.argv) > 2 else 2
avoid = sys.argv[3] if len(sys.argv) > 3 else ""
wt = f"/tmp/wt-{pid}"
for l in open('/verif/properties.jsonl'):
    p = json.loads(l)
    if p['id'] == pid:
        break
print(f"""You are helping test a verification effort by seeding a realistic bug. You work ONLY inside the git worktree {wt} (a checkout of a Rust project: risechain/revm, a fork of revm 19.4, an Ethereum Virtual Machine). Do not read or write anything under /verif or /repo, and do not look at other /tmp/wt-* directories. There is no network; always pass --offline to cargo and set CARGO_TARGET_DIR={wt}/target so your build output stays inside your worktree.

Here is a semantic property that the code is supposed to satisfy:

  Title: {p['title']}
  Statement: {p['statement']}
  Quantified over: {p['quantifier']['text']}
  Anchored in files: {', '.join(p['anchors']['files'])}

Your task: produce {n} DIFFERENT source changes (mutations) to the library crates under {wt}/crates (each independent of the other, each as its own patch against the unmodified worktree) such that each one:
  1. BREAKS the property above (for some input / sequence / configuration the statement becomes false);
  2. still COMPILES (cargo build --offline --workspace) with no new warnings that would stand out;
  3. still PASSES the existing test-suite: `cd {wt} && CARGO_TARGET_DIR={wt}/target cargo test --workspace --no-fail-fast --offline` (about 130 tests; all must still pass);
  4. is REALISTIC and SUBTLE: the kind of slip a maintainer could make in a refactor or "optimisation" (an off-by-one at a boundary, a forgotten case in a match, a wrong fork gate, a missing journal entry, an operand order, a skipped update on one path, two sites that each look fine alone). It must need something specific to manifest — an unusual input, a particular multi-step sequence of operations, a particular fork/configuration, a failure at a particular point — NOT something that ordinary use would expose at once (e.g. not "every transaction now fails"). Do not touch test code, and do not add cfg flags or environment checks.{(" Ideas that earlier rounds already used and that you must NOT repeat (find different sites and different mechanisms): " + avoid) if avoid else ""} Prefer changes whose effect is a wrong *behaviour* deep in a multi-step scenario (state after nested reverts, interaction of two features, a boundary of a rarely used fork or configuration) over changes to a constant that any single call would reveal.

For each mutation also write a DEMONSTRATION: a small Rust integration test file (placed at {wt}/crates/revm/tests/demo_<name>.rs, or under the crate the mutation lives in, using only that crate's existing dependencies/dev-dependencies) that FAILS with the mutation applied and PASSES on the unmodified code. Verify both directions yourself by actually running it (git stash / git apply as needed).

Deliverables (write them to {wt}/out/): for each mutation i in 1..{n}:
  - {wt}/out/m<i>/patch.diff      (output of `git diff` for the library change only, NOT including the demo test; must apply with `git apply` to the unmodified worktree)
  - {wt}/out/m<i>/demo.rs          (the demonstration test file) and {wt}/out/m<i>/demo_path.txt (the path inside the repo where demo.rs must be placed to run, and the exact cargo command to run it)
  - {wt}/out/m<i>/README.md        (what was changed, why it breaks the property, exactly what is needed for it to manifest, and what you ran to confirm: demo fails with patch / passes without / full test-suite passes with patch)
When you are finished, leave the worktree's tracked files UNMODIFIED (git checkout -- . ; the out/ directory and demo tests may stay untracked) and run `rm -rf {wt}/target` to free the disk. In your final reply give a 10-line summary of each mutation (file, function, what it needs to manifest).
""")
