#!/bin/bash
# try_mutant.sh <patch.diff> <ID> [<ID>...] : apply to /repo, run quick checks, always undo.
set -u
P=$1; shift
cd /repo && git diff --quiet || { echo "/repo dirty"; exit 2; }
git apply $P || { echo "patch does not apply"; exit 2; }
# always undo the patch, restore the evidence files and rebuild the lanes from the clean tree (a
# binary built from the patched tree must never be used for anything else)
cleanup() {
  git -C /repo checkout -- .
  git -C /verif checkout -- evidence 2>/dev/null
  [ -n "${NOREBUILD:-}" ] || (cd /verif && python3 -c 'import sys; sys.path.insert(0, "tools"); from lanes import build_lane; import os; [build_lane(l) for l in dict.fromkeys(["rel", "dbg"] + ([os.environ["LANE"]] if os.environ.get("LANE") in ("op", "alt", "asan") else []))]')
}
trap cleanup EXIT
cd /verif
for id in "$@"; do
  ./check $id --tier ${TIER:-quick} ${LANE:+--lane $LANE} > /tmp/try_$id.log 2>&1; rc=$?
  echo "RESULT $id exit=$rc $(grep -c '^VIOLATION' /tmp/try_$id.log) violation line(s): $(grep -m2 'signature:' /tmp/try_$id.log | tr '\n' ' ')"
done
