#!/bin/bash
# try_mutant.sh <patch.diff> <ID> [<ID>...] : apply to /repo, run quick checks, always undo.
set -u
P=$1; shift
cd /repo && git diff --quiet || { echo "/repo dirty"; exit 2; }
git apply $P || { echo "patch does not apply"; exit 2; }
trap 'git -C /repo checkout -- .; git -C /verif checkout -- evidence 2>/dev/null' EXIT
cd /verif
for id in "$@"; do
  ./check $id --tier ${TIER:-quick} > /tmp/try_$id.log 2>&1; rc=$?
  echo "RESULT $id exit=$rc $(grep -c '^VIOLATION' /tmp/try_$id.log) violation line(s): $(grep -m2 'signature:' /tmp/try_$id.log | tr '\n' ' ')"
done
