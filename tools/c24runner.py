"""C24: run the dump workload in lane rel (C back ends) and lane alt (pure-Rust back ends) with the same
seed, compare the dumps line by line, write the evidence part."""
import json, os, subprocess, sys, time, re

ROOT = os.path.dirname(os.path.dirname(os.path.abspath(__file__)))
H = os.path.join(ROOT, "harness")
sys.path.insert(0, os.path.join(ROOT, "tools"))
from lanes import build_lane, lane_cmd  # noqa: E402


def known(pid):
    try:
        k = json.load(open(os.path.join(ROOT, "known_findings.json")))
    except Exception:
        return {}
    out = {}
    for f in k.get("findings", []):
        if f.get("property") == pid and f.get("status") == "open":
            for s in ([f["signature"]] if "signature" in f else []) + f.get("signatures", []):
                out[s] = f.get("what", "")
    return out


def run(pid, tier, seed, lane, part, extra):
    t0 = time.time()
    ok, out = build_lane("alt")
    if not ok:
        print(out[-4000:])
        print(f"INCONCLUSIVE property={pid} build of lane alt failed")
        return 2
    work = os.path.join(ROOT, "evidence", ".parts")
    os.makedirs(work, exist_ok=True)
    dumps, parts = {}, {}
    for ln in ("rel", "alt"):
        dumps[ln] = os.path.join(work, f"{pid}.{ln}.dump")
        parts[ln] = os.path.join(work, f"{pid}.{ln}.part.json")
        for f in (dumps[ln], parts[ln]):
            if os.path.exists(f):
                os.remove(f)
        cmd, env = lane_cmd(ln, [pid, "--tier", tier, "--seed", str(seed), "--lane", ln, "--out", dumps[ln],
                                 "--evidence-out", parts[ln]] + extra)
        env["VERIF_NOFLOOR"] = "1"
        try:
            r = subprocess.run(cmd, env=env, cwd=H, timeout=3600, stdout=subprocess.PIPE, stderr=subprocess.STDOUT, text=True, errors="replace")
        except subprocess.TimeoutExpired:
            print(f"INCONCLUSIVE property={pid} lane {ln} watchdog fired")
            return 2
        sys.stdout.write("".join(l + "\n" for l in r.stdout.splitlines() if l.startswith(("[", "INCONCLUSIVE", "VIOLATION"))))
        if r.returncode != 0 or not os.path.exists(dumps[ln]):
            print(r.stdout[-3000:])
            print(f"INCONCLUSIVE property={pid} dump in lane {ln} exited with {r.returncode}")
            return 2
    a = open(dumps["rel"]).read().splitlines()
    b = open(dumps["alt"]).read().splitlines()
    kn = known(pid)
    worst = 0
    viol = []
    seen = set()
    if len(a) != len(b):
        print(f"INCONCLUSIVE property={pid} the two lanes produced different numbers of lines ({len(a)} vs {len(b)}): input streams diverged")
        worst = 2
    stats = {"lines_compared": 0, "equal": 0, "both_ok": 0, "both_not_ok": 0, "per_precompile": {}, "per_class": {}}
    for la, lb in zip(a, b):
        pa, pb = la.split("\t"), lb.split("\t")
        if pa[:4] != pb[:4]:
            print(f"INCONCLUSIVE property={pid} input streams of the two lanes differ at line {stats['lines_compared']}")
            worst = max(worst, 2) if worst != 1 else 1
            break
        stats["lines_compared"] += 1
        pc, cls, inp, gas = pa[:4]
        stats["per_precompile"][pc] = stats["per_precompile"].get(pc, 0) + 1
        stats["per_class"][f"{pc}/{cls}"] = stats["per_class"].get(f"{pc}/{cls}", 0) + 1
        ra, rb = json.loads(pa[4]), json.loads(pb[4])
        if ra == rb:
            stats["equal"] += 1
            if isinstance(ra, dict) and "ok" in ra:
                stats["both_ok"] += 1
            else:
                stats["both_not_ok"] += 1
            continue
        def kind(r):
            if isinstance(r, dict):
                return next(iter(r.keys()))
            return str(r)
        sig = f"{pid}/{pc}/backends-differ/{kind(ra)}-vs-{kind(rb)}/{cls}"
        what = f"{pc} input {inp[:80]}… gas {gas}: C back end {json.dumps(ra)[:200]} vs Rust back end {json.dumps(rb)[:200]}"
        if sig in kn:
            if sig not in seen:
                print(f"KNOWN-FINDING: property={pid} {kn[sig]} [{sig}]")
            seen.add(sig)
            continue
        if sig not in seen:
            seen.add(sig)
            safe = re.sub(r"[^A-Za-z0-9_.-]", "_", sig)[:120]
            rp = os.path.join(ROOT, "replays", f"{safe}-{seed}.json")
            json.dump({"property": pid, "signature": sig, "what": what, "seed": seed, "tier": tier,
                       "case": {"precompile": pc, "class": cls, "input": inp, "gas_limit": gas, "rel": ra, "alt": rb}}, open(rp, "w"), indent=1)
            print(f"VIOLATION property={pid} replay={rp}")
            print(f"  signature: {sig}")
            print(f"  what: {what}")
        viol.append(sig)
        worst = 1
    # floors
    if worst == 0:
        for pc, need in (("ecrecover", 1000), ("kzg-point-evaluation", 300)):
            if stats["per_precompile"].get(pc, 0) < need:
                print(f"INCONCLUSIVE property={pid} coverage floor not reached: {pc} lines {stats['per_precompile'].get(pc, 0)} < {need}")
                worst = 2
        if stats["both_ok"] < 200:
            print(f"INCONCLUSIVE property={pid} coverage floor not reached: lines where both back ends succeed {stats['both_ok']} < 200")
            worst = 2
    ev = json.load(open(parts["rel"])) if os.path.exists(parts["rel"]) else {"property_id": pid, "coverage": {}}
    ev["coverage"]["comparison"] = stats
    ev["coverage"]["lanes_compared"] = ["rel (secp256k1, c-kzg)", "alt (k256, kzg-rs)"]
    ev["coverage"]["evaluations"] = stats["lines_compared"]
    ev["violations"] = len(viol)
    ev["verdict"] = {0: "held-on-observed", 1: "violated", 2: "inconclusive"}[worst]
    ev["wall_s"] = round(time.time() - t0, 2)
    json.dump(ev, open(part, "w"), indent=1)
    for f in list(dumps.values()) + list(parts.values()):
        if os.path.exists(f):
            os.remove(f)
    print(f"[{pid}] lanes=rel+alt tier={tier} seed={seed} lines={stats['lines_compared']} equal={stats['equal']} both_ok={stats['both_ok']} exit={worst} wall={time.time()-t0:.1f}s")
    return worst
