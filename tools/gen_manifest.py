#!/usr/bin/env python3
"""Regenerates /verif/MANIFEST.json from the per-property table below and tools/lanes.py."""
import json, os, sys

ROOT = os.path.dirname(os.path.dirname(os.path.abspath(__file__)))
sys.path.insert(0, os.path.join(ROOT, "tools"))
from lanes import PROPS  # noqa: E402
from proptext import TEXT  # noqa: E402

props = [json.loads(l) for l in open(os.path.join(ROOT, "properties.jsonl"))]
ids = [p["id"] for p in props]

checks = []
na = []
for pid in ids:
    if pid in PROPS and pid in TEXT:
        t = TEXT[pid]
        checks.append({
            "property_id": pid,
            "quick_cmd": f"./check {pid} --tier quick",
            "thorough_cmd": f"./check {pid} --tier thorough",
            "evidence_file": f"/verif/evidence/{pid}.json",
            "replay_cmd_template": f"./check {pid} --replay {{path}}",
            "engine": "vmon",
            "level_claimed": {
                "category": "exploration",
                "text": t["level"],
                "design_ref": f"DESIGN.md section 5/{pid}",
            },
            "level_note": t["note"],
            "technique": t["technique"],
        })
    else:
        na.append({"property_id": pid,
                   "reason": TEXT.get(pid, {}).get("na", "check not built yet in this phase (see DESIGN.md section 11 for the order); no claim is made")})

manifest = {
    "version": 1,
    "setup_cmd": "./setup.sh",
    "hooks": {
        "guard": "--cfg risechain_revm_verif",
        "enable": "RUSTFLAGS='--cfg risechain_revm_verif' on every harness lane (tools/lanes.py); the harness depends on /repo/crates/* by path",
        "baseline_off_cmd": "cd /repo && cargo test --workspace --no-fail-fast --offline",
        "source_commits": json.load(open(os.path.join(ROOT, "tools", "hook_commits.json"))),
        "add_only": True,
    },
    "engines": [
        {"name": "vmon", "path": "/verif/harness/vmon",
         "serves_properties": [c["property_id"] for c in checks],
         "kind_free_text": "Rust monitor binary linked against /repo/crates/* by path: workload generators, reference models, inspector-based online monitors, history checkers; built per lane (release, debug-assertions, AddressSanitizer, Miri, alt back ends, optimism) by /verif/check"},
    ],
    "checks": checks,
    "not_applicable": na,
    "notes": "Runtime monitoring family. Exit protocol: 0 held on everything observed (KNOWN-FINDING lines for open entries of known_findings.json), 1 VIOLATION with replay file, 2 INCONCLUSIVE (watchdog, harness error, coverage floor). VERIF_SEED selects the PRNG stream.",
}
json.dump(manifest, open(os.path.join(ROOT, "MANIFEST.json"), "w"), indent=1)
print(f"MANIFEST.json: {len(checks)} checks, {len(na)} not claimed")
