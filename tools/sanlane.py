"""Sanitizer lanes (asan, miri, memcheck): the monitor binary runs the property's workload in K short
single-threaded processes; a process that dies with a sanitizer report is a violation whose witness
is the breadcrumb (the case that was running) plus the report.

Exit protocol per lane: 0 held / 1 violation / 2 inconclusive (tool limitation, watchdog).
"""
import json, os, re, subprocess, sys, time, shutil
from concurrent.futures import ThreadPoolExecutor

ROOT = os.path.dirname(os.path.dirname(os.path.abspath(__file__)))
H = os.path.join(ROOT, "harness")
sys.path.insert(0, os.path.join(ROOT, "tools"))
from lanes import LANES, lane_cmd  # noqa: E402

SAN_LANES = ("asan", "miri", "memcheck")

# processes per lane and tier
SHARDS = {"asan": {"quick": 16, "thorough": 64}, "miri": {"quick": 16, "thorough": 64},
          "memcheck": {"quick": 16, "thorough": 48}}
WATCHDOG = {"quick": 1500, "thorough": 7200}


def known_signatures(pid):
    try:
        k = json.load(open(os.path.join(ROOT, "known_findings.json")))
    except Exception:
        return {}
    out = {}
    for f in k.get("findings", []):
        if f.get("property") != pid or f.get("status") != "open":
            continue
        for s in ([f["signature"]] if "signature" in f else []) + f.get("signatures", []):
            out[s] = f.get("what", "")
    return out


def classify(lane, log):
    """(verdict, signature_tail, headline) from a dead process's output; verdict in
    {'violation','inconclusive'}"""
    def first_repo_frame():
        for m in re.finditer(r"(/repo/crates/[\w/\.\-]+\.rs):(\d+)", log):
            return m.group(1).replace("/repo/crates/", "")
        m = re.search(r"in (revm[\w:<>]+)", log)
        return m.group(1)[:60] if m else "no-repo-frame"
    if lane == "asan":
        m = re.search(r"ERROR: AddressSanitizer:? ([\w\-]+)", log)
        if m:
            kind = m.group(1)
            if kind in ("failed", "requested", "allocator", "out-of-memory", "allocation-size-too-big", "rss"):
                return "inconclusive", "allocation-limit", "AddressSanitizer allocator limit"
            return "violation", f"asan/{kind}/{first_repo_frame()}", m.group(0)
        if "AddressSanitizer" in log:
            return "inconclusive", "asan-other", "AddressSanitizer message without an error kind"
    if lane == "miri":
        m = re.search(r"error: Undefined Behavior: ([^\n]+)", log)
        if m:
            msg = re.sub(r"0x[0-9a-f]+|alloc\d+|\d+", "N", m.group(1))[:80]
            return "violation", f"miri/undefined-behavior/{first_repo_frame()}/{msg.replace(' ', '-')}", m.group(0)[:200]
        m = re.search(r"error: (unsupported operation|the main thread terminated|resource exhaustion|abnormal termination)[^\n]*", log)
        if m:
            if "abnormal termination" in m.group(0) and "panicked" in log:
                return "violation", f"miri/abort/{first_repo_frame()}", m.group(0)[:200]
            return "inconclusive", "miri-limitation", m.group(0)[:200]
        m = re.search(r"error: memory leaked", log)
        if m:
            return "inconclusive", "miri-leak-report", "memory leaked at exit (threads / statics of the harness)"
    if lane == "memcheck":
        m = re.search(r"==\d+== (Invalid (read|write|free)[^\n]*|Conditional jump or move depends on uninitialised[^\n]*|Use of uninitialised[^\n]*|Mismatched free[^\n]*|Source and destination overlap[^\n]*)", log)
        if m:
            fn = re.search(r"(?:at|by) 0x[0-9A-F]+: (revm[\w:<>$]+|vmon[\w:<>$]+)", log)
            where = fn.group(1)[:60] if fn else "no-frame"
            if where.startswith("vmon"):
                return "inconclusive", "memcheck-in-harness", m.group(1)[:160]
            return "violation", f"memcheck/{m.group(1).split(' of size')[0].replace(' ', '-')[:40]}/{where}", m.group(1)[:200]
    if "memory allocation of" in log and "failed" in log:
        return "inconclusive", "allocation-limit", "allocation failure (environment limit)"
    return "inconclusive", "process-died", "process died without a recognisable report"


def merge_parts(parts):
    merged = None
    for p in parts:
        if not os.path.exists(p):
            continue
        ev = json.load(open(p))
        if merged is None:
            merged = ev
            continue
        c, d = merged["coverage"], ev["coverage"]
        c["evaluations"] = c.get("evaluations", 0) + d.get("evaluations", 0)
        c["distinct_nontrivial"] = c.get("distinct_nontrivial", 0) + d.get("distinct_nontrivial", 0)
        for k, v in (d.get("counters") or {}).items():
            c.setdefault("counters", {})[k] = c.get("counters", {}).get(k, 0) + v
        for t, tab in (d.get("tables") or {}).items():
            dst = c.setdefault("tables", {}).setdefault(t, {})
            for k, v in tab.items():
                dst[k] = dst.get(k, 0) + v
        for k in ("known_findings_reproduced", "inconclusive"):
            if d.get(k):
                c.setdefault(k, [])
                for x in d[k]:
                    if x not in c[k]:
                        c[k].append(x)
        merged["violations"] = merged.get("violations", 0) + ev.get("violations", 0)
    return merged


def run(pid, tier, seed, lane, part, extra):
    K = SHARDS[lane][tier]
    crumbs = os.path.join(ROOT, "replays", ".crumbs")
    os.makedirs(crumbs, exist_ok=True)
    logs = os.path.join(ROOT, "evidence", ".parts")
    os.makedirs(logs, exist_ok=True)
    known = known_signatures(pid)
    t0 = time.time()
    scale = int(os.environ.get("VERIF_SCALE", "100"))

    def one(k):
        sseed = seed * 1000 + k + 1
        ppart = f"{part}.{k}"
        crumb = os.path.join(crumbs, f"{pid}.{lane}.{k}.json")
        for f in (ppart, crumb):
            if os.path.exists(f):
                os.remove(f)
        cmd, env = lane_cmd(lane, [pid, "--tier", tier, "--seed", str(sseed), "--lane", lane,
                                   "--evidence-out", ppart] + extra)
        # single-threaded process: the breadcrumb names the case that was running
        if "--jobs" in cmd:
            i = cmd.index("--jobs")
            cmd[i + 1] = "1"
        else:
            cmd += ["--jobs", "1"]
        env["VERIF_BREADCRUMB"] = crumb
        env["VERIF_NOFLOOR"] = "1"
        env["VERIF_SHARD"] = f"{k}/{K}"
        if lane == "asan":
            # the lane total (1/6 of rel) is split over the K processes
            env["VERIF_SCALE"] = str(max(1, scale // K)) if tier == "quick" else str(max(1, scale * 4 // K))
            env["ASAN_OPTIONS"] = "halt_on_error=1:abort_on_error=0:detect_leaks=0:exitcode=98:max_allocation_size_mb=2048"
        if lane == "miri":
            fwd = " ".join(f"-Zmiri-env-forward={v}" for v in ("VERIF_BREADCRUMB", "VERIF_NOFLOOR", "VERIF_SCALE", "VERIF_SHARD"))
            env["MIRIFLAGS"] = env.get("MIRIFLAGS", "") + " " + fwd + " -Zmiri-ignore-leaks"
        try:
            r = subprocess.run(cmd, env=env, cwd=H, stdout=subprocess.PIPE, stderr=subprocess.STDOUT, text=True,
                               errors="replace", timeout=WATCHDOG[tier])
            return k, r.returncode, r.stdout, crumb, ppart
        except subprocess.TimeoutExpired as e:
            out = e.stdout if isinstance(e.stdout, str) else (e.stdout or b"").decode(errors="replace")
            return k, "timeout", out, crumb, ppart

    if lane == "miri":
        # build once (otherwise K processes fight over the cargo lock)
        cmd, env = lane_cmd(lane, [pid, "--tier", tier, "--seed", "1", "--lane", lane, "--count", "1", "--no-evidence", "1"])
        env["VERIF_NOFLOOR"] = "1"
        env["MIRIFLAGS"] = env.get("MIRIFLAGS", "") + " -Zmiri-env-forward=VERIF_NOFLOOR -Zmiri-ignore-leaks"
        b = subprocess.run(cmd, env=env, cwd=H, stdout=subprocess.PIPE, stderr=subprocess.STDOUT, text=True, errors="replace")
        if b.returncode not in (0, 1, 2):
            verdict, tail, head = classify(lane, b.stdout)
            if verdict != "violation":
                print(b.stdout[-3000:])
                print(f"INCONCLUSIVE property={pid} lane miri warm-up run failed: {head}")
                return 2

    workers = min(K, os.cpu_count() or 8)
    with ThreadPoolExecutor(max_workers=workers) as ex:
        results = list(ex.map(one, range(K)))

    worst = 0
    lane_findings = []
    for k, code, out, crumb, ppart in results:
        # pass the monitor's own lines through (VIOLATION / KNOWN-FINDING / INCONCLUSIVE)
        for line in out.splitlines():
            if line.startswith(("VIOLATION ", "KNOWN-FINDING", "INCONCLUSIVE", "  signature:", "  what:")):
                print(line)
        if code in (0, 1, 2):
            if code == 1:
                worst = 1
            elif code == 2 and worst == 0:
                worst = 2
            continue
        if code == "timeout":
            print(f"INCONCLUSIVE property={pid} lane {lane} shard {k}: watchdog {WATCHDOG[tier]}s fired")
            if worst == 0:
                worst = 2
            continue
        verdict, tail, head = classify(lane, out)
        sig = f"{pid}/{tail}"
        logf = os.path.join(logs, f"{pid}.{lane}.{k}.log")
        open(logf, "w").write(out[-200000:])
        if verdict == "violation":
            case = None
            if os.path.exists(crumb):
                try:
                    case = json.load(open(crumb))
                except Exception:
                    case = {"unparsed_breadcrumb": open(crumb).read()[:2000]}
            if sig in known:
                print(f"KNOWN-FINDING: property={pid} {known[sig]} [{sig}]")
                lane_findings.append({"signature": sig, "known": True})
                continue
            safe = re.sub(r"[^A-Za-z0-9_.-]", "_", sig)[:120]
            rp = os.path.join(ROOT, "replays", f"{safe}-{seed}.json")
            json.dump({"property": pid, "signature": sig, "what": head, "lane": lane, "seed": seed * 1000 + k + 1,
                       "tier": tier, "case": case, "report_tail": out[-6000:]}, open(rp, "w"), indent=1)
            print(f"VIOLATION property={pid} replay={rp}")
            print(f"  signature: {sig}")
            print(f"  what: {head}")
            lane_findings.append({"signature": sig, "known": False})
            worst = 1
        else:
            print(f"INCONCLUSIVE property={pid} lane {lane} shard {k} exited with {code}: {head} (log {logf})")
            if worst == 0:
                worst = 2

    merged = merge_parts([r[4] for r in results])
    if merged is not None:
        merged["coverage"]["lane"] = lane
        merged["coverage"]["processes"] = K
        merged["coverage"]["sanitizer_reports"] = lane_findings
        merged["wall_s"] = round(time.time() - t0, 2)
        merged["verdict"] = {0: "held-on-observed", 1: "violated", 2: "inconclusive"}[worst]
        json.dump(merged, open(part, "w"), indent=1)
    for r in results:
        if os.path.exists(r[4]):
            os.remove(r[4])
    ev = merged["coverage"]["evaluations"] if merged else 0
    print(f"[{pid}] lane={lane} tier={tier} seed={seed} processes={K} evaluations={ev} exit={worst} wall={time.time()-t0:.1f}s")
    return worst
