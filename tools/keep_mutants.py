#!/usr/bin/env python3
"""Moves confirmed seeded changes from seeded/_incoming/<PID>/m<k> to seeded/<PID>-m<k>/ with a
meta.json, and rebuilds seeded/INDEX.md (which checks catch which change) from the trial logs in
seeded/logs/*.log (lines 'RESULT m<k>/<PID> <CHECK> exit=<n> ... signature: ...')."""
import json, os, re, shutil, glob
ROOT = os.path.dirname(os.path.dirname(os.path.abspath(__file__)))
S = os.path.join(ROOT, "seeded")
trials = {}
def _natural(f):
    m = re.search(r"batch(\d+)(.*)\.log$", os.path.basename(f))
    return (int(m.group(1)), m.group(2)) if m else (0, os.path.basename(f))
for f in sorted(glob.glob(os.path.join(S, "logs", "*.log")), key=_natural):
    for line in open(f):
        m = re.match(r"RESULT (m\d)/(C\d\d) (C\d\d) exit=(\d+) (\d+) violation line\(s\):\s*(.*)", line.strip())
        if not m:
            continue
        mk, pid, chk, ex, nv, sigs = m.groups()
        sig = re.findall(r"signature: (\S+)", sigs)
        # later logs override earlier ones (checks were strengthened in between)
        trials.setdefault(f"{pid}-{mk}", {})[chk] = {"exit": int(ex), "caught": ex == "1", "signatures": sig[:2], "log": os.path.basename(f)}
props = {json.loads(l)["id"]: json.loads(l) for l in open(os.path.join(ROOT, "properties.jsonl"))}
rows = []
for d in sorted(glob.glob(os.path.join(S, "_incoming", "C*", "m*"))):
    pid, mk = d.split("/")[-2:]
    cl = os.path.join(d, "confirm.log")
    if not os.path.exists(cl):
        continue
    last = open(cl).read().strip().splitlines()[-1]
    m = re.search(r"demo_without=(\d+) demo_with=(\d+) suite_with=(\d+)", last)
    if not m:
        continue
    a, b, c = map(int, m.groups())
    confirmed = a == 0 and b != 0 and c == 0
    key = f"{pid}-{mk}"
    if not confirmed:
        rows.append((key, "NOT CONFIRMED (dropped)", {}))
        continue
    dst = os.path.join(S, key)
    os.makedirs(dst, exist_ok=True)
    for f in ("patch.diff", "demo.rs", "demo_path.txt", "README.md", "confirm.log"):
        if os.path.exists(os.path.join(d, f)):
            shutil.copy(os.path.join(d, f), os.path.join(dst, f))
    readme = open(os.path.join(d, "README.md")).read()
    needs = ""
    mm = re.search(r"(?is)(what (?:is|it) need[^\n]*|needs?[^\n]*manifest[^\n]*|## what is needed[^\n]*)\n(.*?)(\n#|\n\*\*demo|\ndemo|\n## |\Z)", readme)
    if mm:
        needs = mm.group(2).strip()[:1500]
    if not needs:
        needs = readme[:1500]
    t = trials.get(key, {})
    meta = {
        "id": key,
        "breaks_property": pid,
        "property_title": props[pid]["title"],
        "needs_to_manifest": needs,
        "produced_by": "sub-agent given only the property text and a scratch git worktree of /repo",
        "confirmed_by_me": {
            "how": "tools/confirm_mutant.sh in a scratch worktree of /repo HEAD outside /repo and /verif (removed afterwards): (1) demo test without the patch, (2) demo test with the patch, (3) `cargo test --workspace --no-fail-fast --offline` with the patch and without the demo",
            "demo_without_patch_exit": a, "demo_with_patch_exit": b, "suite_with_patch_exit": c,
        },
        "trials": t,
        "trial_method": "tools/try_mutant_iso.sh: scratch worktrees of /verif HEAD and /repo HEAD + patch.diff, the scratch harness built against the scratch repo, `./check <ID> --tier quick`; /repo itself is never modified",
        "caught_by": sorted(k for k, v in t.items() if v["caught"]),
        "missed_by": sorted(k for k, v in t.items() if not v["caught"]),
    }
    json.dump(meta, open(os.path.join(dst, "meta.json"), "w"), indent=1)
    rows.append((key, "confirmed", t))
with open(os.path.join(S, "INDEX.md"), "w") as f:
    f.write("# Seeded changes and the checks that catch them\n\n| change | status | caught by (quick tier) | tried and silent |\n|---|---|---|---|\n")
    for key, st, t in rows:
        c = ", ".join(f"{k} (`{(v['signatures'] or ['?'])[0]}`)" for k, v in sorted(t.items()) if v["caught"]) or "—"
        mi = ", ".join(k for k, v in sorted(t.items()) if not v["caught"]) or "—"
        f.write(f"| {key} | {st} | {c} | {mi} |\n")
print(f"{len(rows)} changes indexed; {sum(1 for r in rows if r[1]=='confirmed')} confirmed")
