#!/bin/bash
# batch_trials.sh <listfile> <slots> <logfile>
# listfile lines: "<mutant dir> <ID> [<ID>...]". Runs tools/try_mutant_iso.sh for every line, <slots> lines at a
# time, each slot in its own scratch pair /tmp/mtb<k>/{verif,repo}; RESULT lines are appended to <logfile>.
# Scratch worktrees (and their build output) are removed at the end.
set -u
LIST=$1; SLOTS=${2:-3}; LOG=$3
HERE=$(cd "$(dirname "$0")" && pwd)
mapfile -t LINES < <(grep -v '^#' "$LIST" | grep -v '^$')
worker() {
  k=$1
  export MT=/tmp/mtb$k
  i=$k
  while [ $i -lt ${#LINES[@]} ]; do
    set -- ${LINES[$i]}
    d=$1; shift
    $HERE/try_mutant_iso.sh $d/patch.diff "$@" 2>&1 | grep -a '^RESULT\|does not apply\|failed' >> $LOG
    i=$((i + SLOTS))
  done
  git -C /repo worktree remove --force $MT/repo 2>/dev/null
  git -C /verif worktree remove --force $MT/verif 2>/dev/null
  rm -rf $MT
}
for k in $(seq 0 $((SLOTS - 1))); do worker $k & done
wait
git -C /repo worktree prune; git -C /verif worktree prune
echo BATCH-DONE >> $LOG
