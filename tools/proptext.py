"""Per-property manifest text: level claimed, trusted base, technique."""
TEXT = {
    "C23": dict(
        level="Held on every observed call: each of the 17 precompiles, in every pricing fork in which it exists, is called on generated inputs at gas limits {0, cost-1, cost, cost+1, 2^64-1, random} and compared with independent definitions (own SHA-256/RIPEMD-160/BLAKE2-F, BigUint modexp with EIP-198/2565 pricing, BigUint affine arithmetic for secp256k1, BN254 and BLS12-381 incl. Fp2, public-key recovery, EIP-2537 discount tables): same bytes and same gas on success, failure where defined, out-of-gas exactly when the defined cost exceeds the limit; every fifth input also through a real CALL. Pairing / KZG verdicts are decided for inputs whose answer is known by construction; map-to-curve outputs are checked for subgroup membership.",
        note="Trusted: pcref.rs (its constants are validated by a self-test with its own arithmetic; a failing self-test makes the run inconclusive), num-bigint. Pairing, KZG and map-to-curve *values* outside the constructed classes are not judged here (cost and input validity are); C24 compares them across back ends and C01 replays the shipped EEST precompile fixtures. Paying limits are only used while the defined cost is <= 50 M gas.",
        technique="runtime monitoring: differential execution against independent executable definitions, per pricing fork, directly and through the Evm; release and debug-assertions lanes",
    ),
    "C24": dict(
        level="Held on every observed input: the same seeded stream of ecrecover inputs (signatures made by the harness, high-s twins, bad v, r/s at the group-order boundaries, short/long/random) and KZG point-evaluation inputs (every 192-byte input of the shipped fixtures, their mutations incl. commitment mutations with recomputed versioned hash, constant-polynomial triples) is executed by a build with the C back ends (secp256k1, c-kzg) and a build with the pure-Rust ones (k256, kzg-rs); the result dumps must be identical line by line (bytes, gas, error class).",
        note="Trusted: the comparer (tools/c24runner.py) and that the two lanes really select different back ends (checked with cargo tree: rel has secp256k1+c-kzg, alt has only k256+kzg-rs).",
        technique="runtime monitoring: differential execution of one workload under two build configurations (lanes rel and alt), offline comparison of recorded result logs",
    ),
    "C25": dict(
        level="Held on every execution observed: raw legacy code of ten shapes (random up to 24 KiB, all-PUSH32 with truncated tail, all-JUMPDEST, trailing truncated PUSHn, opcode soup, jump-heavy, memory/copy/call operands at 2^64 and 2^256 boundaries, generated programs) on a bare interpreter that is resumed after every CALL/CREATE action with fabricated outcomes, and through the Evm (called and as init code) for every SpecId; containers accepted by EOF validation and the shipped OSAKA fixtures under OSAKA. Refuting observations: any panic (debug assertions and overflow checks in lane dbg), hook H1 (instruction pointer and immediates inside the code buffer before every dispatch / after every step), InterpreterAction::None, an undefined transaction outcome, gas above the limit, more dispatched instructions than the gas limit pays for; plus any AddressSanitizer (lane asan, optimised unchecked build), Miri (lane miri, bare-interpreter part) or valgrind memcheck (thorough) report in sharded single-threaded processes.",
        note="Trusted: rustc's sanitizer runtimes, Miri, valgrind; the H1 hook (add-only, cfg-guarded). Gas limits above 10^7 run loop-free code; limits that can pay for more memory than the machine has run in child processes and an allocation failure there is the environment's limit, not a verdict. Miri cannot cross the C libraries, so its lane excludes the Evm part.",
        technique="runtime monitoring and sanitizers: hostile bytecode workloads under debug assertions + instruction-pointer hook, AddressSanitizer, Miri and valgrind memcheck lanes (sharded processes, breadcrumb witness), step-count monitor",
    ),
    "C26": dict(
        level="Held on every byte string observed: shipped EOF validation vectors, their mutations, structurally generated containers (sections, CALLF/JUMPF/RETF, RJUMP/RJUMPI/RJUMPV, loops, DUPN/SWAPN/EXCHANGE, data access, nested EOFCREATE/RETURNCONTRACT sub-containers, EXT*CALL), their mutations and random bytes: decode never panics; decode ok => encode_slow and raw() give back the input and decode(encode(e)) == e; validation gives the same verdict twice and through both entry points for each container kind. Every accepted container (about 94% of the generated ones, accepted mutants, accepted vectors) is executed under OSAKA directly, through a legacy caller and as a create transaction; any panic refutes. Lanes rel, dbg, asan (+ miri in thorough).",
        note="Trusted: the generator only needs to reach the accepted region (the validator decides acceptance). Agreement of verdicts with the shipped vectors is measured (2011/2011 at the time of writing) but is not a criterion: the property does not state conformance.",
        technique="runtime monitoring and sanitizers: round-trip and idempotence oracles on decode/validate, execution of every accepted container under debug assertions + instruction-pointer hook and AddressSanitizer",
    ),
    "C33": dict(
        level="Held on every transaction observed (built with revm's optimism feature, lane op): for regular transactions under Bedrock..Isthmus the sum of all balances is unchanged, base-fee vault += basefee*gas_used, beneficiary += tip*gas_used, L1 vault += calculate_tx_l1_cost(enveloped) which for Bedrock/Regolith/Canyon/Ecotone must equal the fork's formula evaluated independently, operator vault += gas_used*scalar/1e6 + constant, sender debit == value moved + gas_used*price + L1 cost + operator fee; for deposits the sum grows by exactly the mint, the nonce is incremented, a failed deposit's state names only the sender with balance + mint, and no vault is paid.",
        note="Trusted: BigUint arithmetic and the transcribed Bedrock/Ecotone cost formulas. Fjord+ L1 cost (FastLZ estimate) is compared with the public cost function only; the Bedrock fallback inside Ecotone (unset scalars, activation block only) is not judged; balances are kept below 2^200 (saturation at 2^256-1 is recorded under C08/C09); programs cannot name fee parties.",
        technique="runtime monitoring: conservation and per-party payment checker over recorded pre/post states of generated Optimism transactions (lane op)",
    ),
    "C12": dict(
        level="Held on every generated operation history: the real Stack is driven through its public API with random and boundary-steered sequences and an exhaustive push_slice length sweep while a Vec<[u8;32]> model is the oracle after every operation; run in the release lane (unchecked paths) and the debug-assertions lane (assume!/overflow checks become panics). Exploration is the level this family gives: no claim beyond the histories observed.",
        note="Trusted: the 60-line Vec model and the reading of 'right-padded' as zero-extension of a short last chunk (PUSHn semantics, pinned by the suite's own push_slices test). Miri lane for the raw-pointer copies runs in the thorough tier of C25.",
        technique="runtime monitoring: API history vs executable reference model, two build lanes (release + debug assertions)",
    ),
    "C13": dict(
        level="Held on every generated charge/return/refund history: revm_interpreter::Gas is driven with sequences whose arguments sit on the boundaries (limit±1, remaining±1, 2^63, 2^64-1) and an i128 model decides after every operation; release and debug-assertions lanes.",
        note="Trusted: the i128 model. Histories respect frame accounting (erase_cost <= spent; refund total >= 0 when finalised), which is the domain the property states.",
        technique="runtime monitoring: API history vs executable reference model, two build lanes",
    ),
    "C32": dict(
        level="Held on every observed call: calc_blob_gasprice, fake_exponential and calc_excess_blob_gas are called in child processes (each input announced first, watchdog per call) on boundary-directed and random inputs — every excess where the exact price crosses a power of two, the largest representable excess and its neighbours, far-out-of-range values — and compared with the EIP-4844 pseudo-code evaluated on BigUint; release (wrapping) and debug (overflow-checked) lanes.",
        note="Trusted: num-bigint and the 15-line transcription of the EIP pseudo-code. A call that does not return for an input whose exact value is unrepresentable is recorded, not judged.",
        technique="runtime monitoring: differential against an exact big-integer reference, per-call child processes with watchdog, two build lanes",
    ),
    "C03": dict(
        level="Held on every executed case: each of the 25 opcodes runs inside the real interpreter (program PUSH32.. OP STOP, per SpecId) on an exhaustively paired boundary operand set, exhaustive small index/shift domains and random draws; value, consumed inputs (sentinels), gas and fork gate are compared with BigUint/BigInt definitions. Release and debug-assertions lanes.",
        note="Trusted: num-bigint and the transcribed yellow-paper definitions; revm's ruint is not used on the oracle side.",
        technique="runtime monitoring: differential execution against a big-integer reference model, two build lanes",
    ),
    "C04": dict(
        level="Held on every observed code/target pair: all byte strings over a 6-symbol alphabet up to length 7 (6 in quick) and generated code with JUMPDEST bytes inside push data and truncated trailing PUSHn; the jump table and executed JUMP/JUMPI (wrapped real instruction functions) are compared with the linear-scan definition for every target 0..len+40 and 256-bit targets that alias valid ones after truncation.",
        note="Trusted: the 10-line linear scan. Code deployed by CREATE under both analysis kinds is covered by the Evm workloads of C01/C25, not here.",
        technique="runtime monitoring: exhaustive small-alphabet sweep + generated code, reference-definition oracle at the instruction boundary",
    ),
    "C27": dict(
        level="Held on every observed byte string/address: accepted bytecode must report its input bytes, length and an independently computed keccak-256 before and after jump analysis (padding exactly 33 zero bytes, analysis idempotent); designators round-trip and malformed ones are rejected.",
        note="Trusted: the harness's own keccak-f[1600] implementation (checked against two published vectors).",
        technique="runtime monitoring: API round-trip oracle with an independent hash implementation",
    ),
    "C06": dict(
        level="Held on every reverted frame observed: the full projection of the journaled state (balances, nonces, code hashes, slot values and warmth, account flags and warmth, transient storage, logs, depth) is snapshotted at every call/create/eofcreate notification of the generated workloads and compared at the matching end notification whenever the frame did not succeed, modulo the stated exceptions.",
        note="Trusted: the projection/diff code and the list of legitimate differences (callee / delegation target / created address warmed by the caller side, creator nonce, RIPEMD touch), each tied to an EIP in mon.rs. Direct API histories on JournaledState are a second workload (see evidence).",
        technique="runtime monitoring: online assertions at inspector hooks on generated hostile workloads (plain run + inspected run, release + debug-assertions lanes)",
    ),
    "C07": dict(
        level="Held on every frame observed: recursion probes (per call kind x earlier-sibling mixes x SpecIds) must return exactly 1024 (18 kinds of earlier siblings: every early return of make_call_frame / make_create_frame incl. EIP-7702 designators to codeless and precompile delegates, static violation, overflow payment, creator nonce 2^64-1, unpayable code deposit, oversized / 0xEF code, oversized init code, CREATE2 collision), and the journal depth at every end notification must equal the depth at the matching start notification over the probes (about 1025 nested frames each) and the generated workloads; evidence lists how many frames ended in each early-return kind.",
        note="Trusted: the probe contract (documented in online.rs) and the inspector callbacks as observation points. OSAKA EXT* early returns need EOF containers and are covered by the C26 workload once built.",
        technique="runtime monitoring: online assertions at inspector hooks on generated hostile workloads (plain run + inspected run, release + debug-assertions lanes)",
    ),
    "C08": dict(
        level="Held on every executed transaction observed (apart from listed known findings): exact-integer conservation identity over the whole database after each transaction, with self-destruct burns taken from instruction-level ground truth and deleted balances from the returned state.",
        note="Trusted: BigUint arithmetic, the independent state applier (evmrun::apply_evm_state) and the burn ground truth of mon.rs. 'Destroyed' is what the specification deletes (self-beneficiary zeroing plus balances of accounts deleted at the end of the transaction).",
        technique="runtime monitoring: online assertions at inspector hooks on generated hostile workloads (plain run + inspected run, release + debug-assertions lanes); conservation checker over recorded pre/post states",
    ),
    "C09": dict(
        level="Held on every executed transaction observed (apart from listed known findings): gas-used bounds against an independently written intrinsic/floor formula, refund cap, failure rules, and closed-form sender/beneficiary payments on the sub-workload that cannot name the fee parties.",
        note="Trusted: the intrinsic/floor formulas in online.rs (Appendix A.2). The EIP-7702 authorization refund is granted whatever the outcome (EIP-7702, EELS set_delegation) and is therefore allowed as slack on reverted/halted set-code transactions; demanding otherwise would flag spec-conformant code.",
        technique="runtime monitoring: online assertions at inspector hooks on generated hostile workloads (plain run + inspected run, release + debug-assertions lanes)",
    ),
    "C10": dict(
        level="Held on every static frame observed: each attempted writer opcode inside a static frame must end in an error, static mode must propagate to children, and the projection of the journaled state (without warmth and touch marks) at the end of every outermost static call must equal the one at its start; a directed OSAKA ladder runs a legacy STATICCALL with 45 gas amounts into EOF contracts that start with EXTCALL-with-value / TSTORE / SSTORE / LOG0 / EOFCREATE, cold and warm.",
        note="Trusted: the writer-opcode table and the projection. Touch marks are not world state (a zero-value static call legitimately touches its callee, EIP-161), so they are excluded from the comparison.",
        technique="runtime monitoring: online assertions at inspector hooks on generated hostile workloads (plain run + inspected run, release + debug-assertions lanes)",
    ),
    "C28": dict(
        level="Held on every transaction observed: plain execution versus NoOpInspector, GasInspector, TracerEip3155 (with/without memory) and the harness's recording inspector, comparing ExecutionResult and the complete returned state.",
        note="Trusted: equality of revm's own result types. CustomPrintTracer is not run.",
        technique="runtime monitoring: differential execution of the same workload under observing inspectors",
    ),
    "C29": dict(
        level="Held on every event stream observed: an online grammar checker over the inspector notifications (LIFO pairing with equal inputs, one step_end per step, logs reported once and equal to the journal, nothing open at the end), also with an inspector that answers nested calls/creates itself; a panic on the inspector path (the case completes without an inspector) is a violation of this property.",
        note="Trusted: the grammar in mon.rs. Log and self-destruct notifications are delivered after step_end of their instruction and before the next event; the checker accepts exactly that placement.",
        technique="runtime monitoring: online trace-grammar checker over inspector events",
    ),
    "C30": dict(
        level="Held on every SELFDESTRUCT observed: instruction-level ground truth (executing contract, popped beneficiary, balance, completion) versus the notifications delivered.",
        note="Trusted: the ground truth taken at step/step_end. For a Cancun self-beneficiary no-op either 0 or the balance is accepted as value.",
        technique="runtime monitoring: online assertions at inspector hooks on generated hostile workloads (plain run + inspected run, release + debug-assertions lanes)",
    ),
    "C15": dict(
        level="Held on every read observed (apart from the listed known finding): histories of transactions, balance increments/drains and merges run on State<RefDB> with and without bundle tracking (state clearing per spec); after every step every account/slot/code of the universe is read and compared with RefDB plus the independent applier; execution results are compared with the reference and with CacheDB<RefDB>.",
        note="Trusted: evmrun::apply_evm_state (30 lines, written from the documented meaning of the EvmState flags) and the increment/drain reference. CacheDB is compared on execution results only, as the property states.",
        technique="runtime monitoring: history + executable plain-state model (independent appliers) on real executions, release + debug-assertions lanes",
    ),
    "C16": dict(
        level="Held on every history observed: the bundle's to_plain_state(Yes) and (No) applied to the pre-history plain state by an independent changeset applier must equal the post-history plain state built transaction by transaction; new contracts must be listed.",
        note="Trusted: statehist::apply_changeset and the reference post-state. Merge schedules: per transaction, every 3, random, only at end; both retentions.",
        technique="runtime monitoring: history + executable plain-state model (independent appliers) on real executions, release + debug-assertions lanes",
    ),
    "C17": dict(
        level="Held on every history observed: walking to_plain_state_reverts() from the newest group down must reproduce the reference snapshot at every merge point (wiped => unlisted slots read as pre-bundle), and bundle.revert(j) followed by to_plain_state(No) on the pre-history state must equal the snapshot n-j, for every j.",
        note="Trusted: statehist::apply_revert_group (the property's own reading of wiped/unlisted slots) and the reference snapshots.",
        technique="runtime monitoring: history + executable plain-state model (independent appliers) on real executions, release + debug-assertions lanes",
    ),
    "C18": dict(
        level="Held on every split point observed: A.extend(B) versus the monolithic bundle under the C16 and C17 oracles, take_n_reverts(k) for k in {0,1,split,n,n+1}, prepend_state value precedence.",
        note="Trusted: as C16/C17. The fate of reverts in prepend_state is recorded as an observation only (the property speaks about values).",
        technique="runtime monitoring: history + executable plain-state model (independent appliers) on real executions, release + debug-assertions lanes",
    ),
    "C19": dict(
        level="Held on every prestate split observed (apart from the listed known finding): State over D with preloaded bundle B versus State over D+changeset(B): all universe reads after every step, execution results, and resulting changes under the changeset oracle.",
        note="Trusted: as C16; D' is produced by the independent changeset applier.",
        technique="runtime monitoring: history + executable plain-state model (independent appliers) on real executions, release + debug-assertions lanes",
    ),
    "C20": dict(
        level="Held on every query observed (apart from the listed has_storage findings): ten wrapper configurations are asked basic/code_by_hash/storage/has_storage/block_hash (Database and DatabaseRef sides) over generated data and real commit histories, block numbers around the 256 window in pruning-triggering orders, against the plain reference.",
        note="Trusted: the plain reference and the comparison modes (CacheDB modulo absent==empty, and without the storage of accounts removed by EIP-161 state clearing only - self-destructed accounts are compared). A wrong has_storage answer is reported without stopping the other comparisons.",
        technique="runtime monitoring: differential queries of every wrapper against the plain reference over generated data and commit histories",
    ),
    "C21": dict(
        level="Held on the complete directed product (apart from the listed has_storage findings): creation kind x 16 target shapes x endowment x 5 holders x SpecIds, with collision, gas consumption, untouched target, unmoved value and nonce bump checked.",
        note="Trusted: the collision oracle (code or nonce or non-zero slot). With the has_storage finding open, storage-only collisions are effective only on a database that overrides has_storage (RefDB); the evidence lists the holders.",
        technique="runtime monitoring: exhaustive directed sweep of a finite configuration product with a reference oracle",
    ),
    "C22": dict(
        level="Held on every twin execution observed: reward-less Evm (handler flag or CfgEnv switch) versus reward-paying Evm under identical random reconfiguration sequences; after every transaction results and all non-beneficiary accounts are equal and the beneficiary gap equals the sum of rewards, so the disabled twin never received fees.",
        note="Trusted: the reward formula (effective price - base fee) x gas_used and equality of revm's result types. The Optimism vault clause runs in the op lane (C33).",
        technique="runtime monitoring: differential twin execution under random reconfiguration sequences",
    ),
    "C31": dict(
        level="Held on every step sequence observed: one reused Evm versus a fresh Evm per step over identically evolving databases, with rejections, reverts, halts, preverify/transact variants, spec changes and injected database faults; results and databases equal and the reused instance pristine after every call.",
        note="Trusted: RefDB and its applier (same for both twins). Leak probes: TLOAD-before-TSTORE, cold EXTCODESIZE gas, Prague-only precompile.",
        technique="runtime monitoring: differential execution (reused vs fresh instance) with fault injection at the Database boundary and a post-call state invariant",
    ),
    "C05": dict(
        level="Exhaustive over the finite space: 256 opcode bytes x 20 SpecIds and 21 addresses x 20 SpecIds, each executed through the real Evm and compared with a hand-written introduction table (one line per opcode/precompile with its EIP).",
        note="Trusted: the introduction table (DESIGN Appendix A.1) and the per-precompile probe inputs/outputs. 'Undefined' = result class OpcodeNotFound|NotActivated|EOFOpcodeDisabledInLegacy|InvalidFEOpcode|ReturnContractInNotInitEOF plus a halt that uses the whole gas limit.",
        technique="runtime monitoring: exhaustive directed sweep observed at the instruction boundary (inspector) with a reference table",
    ),
    "C11": dict(
        level="Held on every history/execution observed: direct SharedMemory histories against Vec<Vec<u8>> with the checkpoint-invariant hook H2 and the exact quadratic charge, plus the online per-frame monitor on generated programs (empty at frame start, word-aligned, monotone, parent memory identical outside the return window).",
        note="Trusted: the Vec model, the u128 cost formula, mon.rs. Miri/ASan lanes for the unsafe accessors run under C25.",
        technique="runtime monitoring: API history vs executable model with an invariant hook, plus online assertions at inspector hooks",
    ),
    "C14": dict(
        level="Held on every argument tuple observed (apart from the listed num_words finding): exhaustive finite matrices (SSTORE cost/refund, call_cost, selfdestruct_cost, exp byte lengths) and boundary sweeps of every length-dependent function per SpecId against formulas written from the EIPs in 128-bit arithmetic; resize_memory at gas 2^64-1 in a child process.",
        note="Trusted: the reference formulas (DESIGN Appendix A.2).",
        technique="runtime monitoring: differential direct calls against exact reference formulas (exhaustive finite sub-spaces + boundary sweeps)",
    ),
    "C01": dict(
        level="Held on every case observed: (a) all shipped EEST state fixtures for Frontier..Prague (about 4 500 cases with a full post-state) replayed through the real Evm with an own loader and compared account by account, slot by slot; (b) the reference EVM (validated on the same fixtures in the same run) versus the real Evm on generated transactions: verdict, outcome class, gas used, refund, output, logs, created address, complete post-state, and in lock-step every dispatched instruction (journal depth, pc, opcode, gas left, stack length and top word, memory size); one generated case in eight is a directed multi-step scenario (scenarios.rs) and one in twenty is re-run at ten gas limits between its intrinsic gas and the gas it used.",
        note="Trusted: the fixtures (outputs of the real specification); the reference EVM refevm.rs (written from the EIPs/EELS structure: whole-state snapshots, sets, BigUint ALU) which must reproduce the fixtures or the run is inconclusive; revm-precompile inside the reference (C23 judges precompiles); alloy's k256 recovery for fixture authorizations. Cases in which the reference would push a balance above 2^256-1 are outside the specification's domain and skipped (counted).",
        technique="runtime monitoring: differential execution against specification-produced fixtures and a fixture-validated reference EVM",
    ),
    "C02": dict(
        level="Held on every case observed: verdict equality with a one-function-per-rule reference validator on boundary-valued transactions over all mainnet specs, and no-effect control runs (history with vs without the rejected transactions) over CacheDB and State on one Evm.",
        note="Trusted: refevm::validate (Appendix A.3) and the own intrinsic/floor formulas.",
        technique="runtime monitoring: differential verdicts on boundary-value inputs plus control-run comparison of histories",
    ),
    "C34": dict(
        level="Held on every case observed: exact gas equality with the reference EVM (accessed sets with snapshot/restore and never-restored transaction-level sets) on directed warm/cold scenarios per Berlin+ spec and on access-heavy generated programs, with the gas left compared at every dispatched instruction (lock-step trace), not only in the total.",
        note="Trusted: the reference EVM as validated by C01. Directed scenarios enumerate every constant address in revm's sources, because the property's list of pre-warmed addresses is closed.",
        technique="runtime monitoring: differential gas comparison against a fixture-validated reference on directed and generated workloads",
    ),
}
