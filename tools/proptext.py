"""Per-property manifest text: level claimed, trusted base, technique."""
TEXT = {
    "C12": dict(
        level="Held on every generated operation history: the real Stack is driven through its public API with random and boundary-steered sequences and an exhaustive push_slice length sweep while a Vec<[u8;32]> model is the oracle after every operation; run in the release lane (unchecked paths) and the debug-assertions lane (assume!/overflow checks become panics). Exploration is the level this family gives: no claim beyond the histories observed.",
        note="Trusted: the 60-line Vec model and the reading of 'right-padded' as zero-extension of a short last chunk (PUSHn semantics, pinned by the suite's own push_slices test). Miri lane for the raw-pointer copies runs in the thorough tier of C25.",
        technique="runtime monitoring: API history vs executable reference model, two build lanes (release + debug assertions)",
    ),
    "C13": dict(
        level="Held on every generated charge/return/refund history: revm_interpreter::Gas is driven with sequences whose arguments sit on the boundaries (limit±1, remaining±1, 2^63, 2^64-1) and an i128 model decides after every operation; release and debug-assertions lanes.",
        note="Trusted: the i128 model. Histories respect frame accounting (erase_cost <= spent; refund total >= 0 when finalised), which is the domain the property states.",
        technique="runtime monitoring: API history vs executable reference model, two build lanes",
    ),
    "C32": dict(
        level="Held on every observed call: calc_blob_gasprice, fake_exponential and calc_excess_blob_gas are called in child processes (each input announced first, watchdog per call) on boundary-directed and random inputs — every excess where the exact price crosses a power of two, the largest representable excess and its neighbours, far-out-of-range values — and compared with the EIP-4844 pseudo-code evaluated on BigUint; release (wrapping) and debug (overflow-checked) lanes.",
        note="Trusted: num-bigint and the 15-line transcription of the EIP pseudo-code. A call that does not return for an input whose exact value is unrepresentable is recorded, not judged.",
        technique="runtime monitoring: differential against an exact big-integer reference, per-call child processes with watchdog, two build lanes",
    ),
    "C03": dict(
        level="Held on every executed case: each of the 25 opcodes runs inside the real interpreter (program PUSH32.. OP STOP, per SpecId) on an exhaustively paired boundary operand set, exhaustive small index/shift domains and random draws; value, consumed inputs (sentinels), gas and fork gate are compared with BigUint/BigInt definitions. Release and debug-assertions lanes.",
        note="Trusted: num-bigint and the transcribed yellow-paper definitions; revm's ruint is not used on the oracle side.",
        technique="runtime monitoring: differential execution against a big-integer reference model, two build lanes",
    ),
    "C04": dict(
        level="Held on every observed code/target pair: all byte strings over a 6-symbol alphabet up to length 7 (6 in quick) and generated code with JUMPDEST bytes inside push data and truncated trailing PUSHn; the jump table and executed JUMP/JUMPI (wrapped real instruction functions) are compared with the linear-scan definition for every target 0..len+40 and 256-bit targets that alias valid ones after truncation.",
        note="Trusted: the 10-line linear scan. Code deployed by CREATE under both analysis kinds is covered by the Evm workloads of C01/C25, not here.",
        technique="runtime monitoring: exhaustive small-alphabet sweep + generated code, reference-definition oracle at the instruction boundary",
    ),
    "C27": dict(
        level="Held on every observed byte string/address: accepted bytecode must report its input bytes, length and an independently computed keccak-256 before and after jump analysis (padding exactly 33 zero bytes, analysis idempotent); designators round-trip and malformed ones are rejected.",
        note="Trusted: the harness's own keccak-f[1600] implementation (checked against two published vectors).",
        technique="runtime monitoring: API round-trip oracle with an independent hash implementation",
    ),
}
