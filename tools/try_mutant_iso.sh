#!/bin/bash
# try_mutant_iso.sh <patch.diff> <ID> [<ID>...]
# Isolated trial: scratch worktrees of /verif (committed HEAD) and /repo (HEAD + patch) under
# /tmp/mt; the scratch harness points at the scratch repo. Nothing in /repo or /verif is touched.
set -u
P=$1; shift
MT=${MT:-/tmp/mt}
mkdir -p $MT
[ -d $MT/verif ] || git -C /verif worktree add -q --detach $MT/verif HEAD
[ -d $MT/repo ] || git -C /repo worktree add -q --detach $MT/repo HEAD
git -C $MT/verif checkout -q -- . ; git -C $MT/verif clean -fdq ; git -C $MT/verif checkout -q --detach $(git -C /verif rev-parse HEAD) || { echo 'scratch verif checkout failed'; exit 2; }
git -C $MT/repo checkout -q -- . ; git -C $MT/repo checkout -q --detach $(git -C /repo rev-parse HEAD)
git -C $MT/repo apply $P || { echo "patch does not apply"; exit 2; }
sed -i "s|/repo/crates|$MT/repo/crates|g" $MT/verif/harness/vmon/Cargo.toml
cd $MT/verif
for id in "$@"; do
  ./check $id --tier ${TIER:-quick} ${LANE:+--lane $LANE} > $MT/try_$id.log 2>&1; rc=$?
  mkdir -p /tmp/trials; cp $MT/try_$id.log /tmp/trials/$(basename $(dirname $(dirname $P)))-$(basename $(dirname $P))-$id.log
  echo "RESULT $(basename $(dirname $P))/$(basename $(dirname $(dirname $P))) $id exit=$rc $(grep -c '^VIOLATION' $MT/try_$id.log) violation line(s): $(grep -m2 'signature:' $MT/try_$id.log | tr '\n' ' ')"
done
git -C $MT/repo checkout -q -- .
