#!/bin/bash
# MANIFEST.setup_cmd: build every lane once, offline, from /repo's working tree.
set -u
cd "$(dirname "$0")"
export CARGO_NET_OFFLINE=true
python3 - <<'PY'
import sys, time
sys.path.insert(0, "tools")
from lanes import LANES, build_lane
bad = 0
for lane in ["rel", "dbg", "asan", "alt", "op"]:
    if lane not in LANES:
        continue
    t = time.time()
    ok, out = build_lane(lane)
    print(f"lane {lane}: {'ok' if ok else 'FAILED'} in {time.time()-t:.0f}s", flush=True)
    if not ok:
        print(out[-5000:])
        bad += 1
sys.exit(1 if bad else 0)
PY
